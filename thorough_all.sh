#!/bin/bash
# runs every thorough tier once, or those named as arguments (used through `vp run`); prints one line per check
list="$*"
[ -z "$list" ] && list="C01 C02 C03 C04 C06 C07 C08 C09 C10 C11 C12 C13 C14 C15 C16 C17 C18 C19 C20 C05"
for c in $list; do
  s=$(date +%s)
  out=$(./vrun $c thorough 2>&1); rc=$?
  e=$(( $(date +%s) - s ))
  echo "== $c exit=$rc ${e}s :: $(echo "$out" | grep -v KNOWN-FINDING | tail -1 | cut -c1-260)"
  echo "$out" | grep -E "^(VIOLATION|HARNESS)" | cut -c1-400 | head -8
done
