package checks

// Check-time instrumentation of /repo/driver/driver.go for the goroutine
// scheduler of C19: a call to verifYield("driver.go:<line>") is inserted
// before every statement of every function body (and a deferred one after
// every defer, so there is a point before each deferred call runs). The
// transformation is mechanical and is redone from the current source on every
// run; it is applied through `go build -overlay`, /repo is never modified.

import (
	"bytes"
	"encoding/json"
	"fmt"
	"go/ast"
	"go/parser"
	"go/printer"
	"go/token"
	"os"
	"path/filepath"
)

func yieldCall(fset *token.FileSet, pos token.Pos, file string) ast.Stmt {
	p := fset.Position(pos)
	return &ast.ExprStmt{X: &ast.CallExpr{
		Fun:  ast.NewIdent("verifYield"),
		Args: []ast.Expr{&ast.BasicLit{Kind: token.STRING, Value: fmt.Sprintf("%q", fmt.Sprintf("%s:%d", file, p.Line))}},
	}}
}

func instrumentList(fset *token.FileSet, file string, list []ast.Stmt) []ast.Stmt {
	var out []ast.Stmt
	for _, st := range list {
		if _, ok := st.(*ast.LabeledStmt); !ok {
			out = append(out, yieldCall(fset, st.Pos(), file))
		}
		out = append(out, st)
		if d, ok := st.(*ast.DeferStmt); ok {
			p := fset.Position(d.Pos())
			out = append(out, &ast.DeferStmt{Call: &ast.CallExpr{
				Fun:  ast.NewIdent("verifYield"),
				Args: []ast.Expr{&ast.BasicLit{Kind: token.STRING, Value: fmt.Sprintf("%q", fmt.Sprintf("%s:%d:deferred", file, p.Line))}},
			}})
		}
	}
	return out
}

// InstrumentSource returns the instrumented source of one Go file
func InstrumentSource(path string, src []byte) ([]byte, int, error) {
	fset := token.NewFileSet()
	f, err := parser.ParseFile(fset, path, src, parser.ParseComments)
	if err != nil {
		return nil, 0, err
	}
	base := filepath.Base(path)
	n := 0
	clauseBlocks := map[*ast.BlockStmt]bool{} // bodies of select/switch hold clauses, not statements
	ast.Inspect(f, func(node ast.Node) bool {
		switch v := node.(type) {
		case *ast.SelectStmt:
			clauseBlocks[v.Body] = true
		case *ast.SwitchStmt:
			clauseBlocks[v.Body] = true
		case *ast.TypeSwitchStmt:
			clauseBlocks[v.Body] = true
		case *ast.BlockStmt:
			if clauseBlocks[v] {
				return true
			}
			n += len(v.List)
			v.List = instrumentList(fset, base, v.List)
		case *ast.CaseClause:
			n += len(v.Body)
			v.Body = instrumentList(fset, base, v.Body)
		case *ast.CommClause:
			n += len(v.Body)
			v.Body = instrumentList(fset, base, v.Body)
		}
		return true
	})
	// second pass: a select with several communication clauses is resolved by the Go runtime at random
	// when more than one is ready. Put the decision under the explorer:
	//   switch verifChoose(loc, n) { case k: select { case <comm k>: <body k>; default: <the original select> } ... }
	// alternative k tries clause k first (without blocking) and otherwise falls back to the original
	// select, in which at most the other clauses can be ready at that moment.
	selects := 0
	done := map[*ast.BlockStmt]bool{} // select bodies already wrapped (the wrapper contains the original select again)
	rewrite := func(list []ast.Stmt) {
		for i, st := range list {
			sel, ok := st.(*ast.SelectStmt)
			if !ok || done[sel.Body] {
				continue
			}
			done[sel.Body] = true
			var comms []*ast.CommClause
			for _, c := range sel.Body.List {
				if cc, ok := c.(*ast.CommClause); ok && cc.Comm != nil {
					comms = append(comms, cc)
				}
			}
			if len(comms) < 2 {
				continue
			}
			selects++
			pos := fset.Position(sel.Pos())
			sw := &ast.SwitchStmt{
				Tag: &ast.CallExpr{Fun: ast.NewIdent("verifChoose"), Args: []ast.Expr{
					&ast.BasicLit{Kind: token.STRING, Value: fmt.Sprintf("%q", fmt.Sprintf("%s:%d:select", base, pos.Line))},
					&ast.BasicLit{Kind: token.INT, Value: fmt.Sprint(len(comms))},
				}},
				Body: &ast.BlockStmt{},
			}
			for k, cc := range comms {
				first := &ast.SelectStmt{Body: &ast.BlockStmt{List: []ast.Stmt{
					&ast.CommClause{Comm: cc.Comm, Body: cc.Body},
					&ast.CommClause{Comm: nil, Body: []ast.Stmt{&ast.SelectStmt{Body: sel.Body}}},
				}}}
				clause := &ast.CaseClause{Body: []ast.Stmt{first}}
				if k > 0 {
					clause.List = []ast.Expr{&ast.BasicLit{Kind: token.INT, Value: fmt.Sprint(k)}}
				}
				sw.Body.List = append(sw.Body.List, clause)
			}
			// the default clause (alternative 0) last
			sw.Body.List = append(sw.Body.List[1:], sw.Body.List[0])
			list[i] = sw
		}
	}
	ast.Inspect(f, func(node ast.Node) bool {
		switch v := node.(type) {
		case *ast.BlockStmt:
			if !clauseBlocks[v] {
				rewrite(v.List)
			}
		case *ast.CaseClause:
			rewrite(v.Body)
		case *ast.CommClause:
			rewrite(v.Body)
		}
		return true
	})
	_ = selects
	// comments would be re-attached at wrong places by the printer after the edit; drop them
	f.Comments = nil
	var buf bytes.Buffer
	if err := (&printer.Config{Mode: printer.UseSpaces | printer.TabIndent, Tabwidth: 8}).Fprint(&buf, fset, f); err != nil {
		return nil, 0, err
	}
	return buf.Bytes(), n, nil
}

const verifYieldFile = `package driver

// VerifYieldHook is called before every statement of the instrumented driver
// (check-time instrumentation of the C19 scheduler; nil outside of it).
var VerifYieldHook func(loc string)

func verifYield(loc string) {
	if h := VerifYieldHook; h != nil {
		h(loc)
	}
}

// VerifChooseHook decides which clause of a select with n communication
// clauses is tried first (0 outside of the scheduler: source order).
var VerifChooseHook func(loc string, n int) int

func verifChoose(loc string, n int) int {
	if h := VerifChooseHook; h != nil {
		return h(loc, n)
	}
	return 0
}
`

// InstrumentDriver writes the instrumented driver.go and the overlay file into
// dir and returns the overlay path and the number of scheduling points.
func InstrumentDriver(repo, dir string) (string, int, error) {
	srcPath := filepath.Join(repo, "driver", "driver.go")
	src, err := os.ReadFile(srcPath)
	if err != nil {
		return "", 0, err
	}
	out, n, err := InstrumentSource(srcPath, src)
	if err != nil {
		return "", 0, err
	}
	gen := filepath.Join(dir, "driver_instrumented.go")
	if err := os.WriteFile(gen, out, 0o644); err != nil {
		return "", 0, err
	}
	y := filepath.Join(dir, "verif_yield.go")
	if err := os.WriteFile(y, []byte(verifYieldFile), 0o644); err != nil {
		return "", 0, err
	}
	ov := map[string]map[string]string{"Replace": {
		srcPath: gen,
		filepath.Join(repo, "driver", "verif_yield.go"): y,
	}}
	// keep an overlay that was already in force (self-test mutants)
	if prev := os.Getenv("VERIF_OVERLAY"); prev != "" {
		if b, err := os.ReadFile(prev); err == nil {
			var p map[string]map[string]string
			if json.Unmarshal(b, &p) == nil {
				for k, v := range p["Replace"] {
					if k == srcPath {
						// instrument the replaced driver.go instead
						if msrc, err := os.ReadFile(v); err == nil {
							if mo, _, err := InstrumentSource(srcPath, msrc); err == nil {
								os.WriteFile(gen, mo, 0o644)
							}
						}
						continue
					}
					ov["Replace"][k] = v
				}
			}
		}
	}
	b, _ := json.MarshalIndent(ov, "", " ")
	op := filepath.Join(dir, "overlay.json")
	if err := os.WriteFile(op, b, 0o644); err != nil {
		return "", 0, err
	}
	return op, n, nil
}
