package checks

// C17, what lies behind the stop point: a scan stopped at row k must not need
// anything the unstopped scan reads only after row k. Every page that a full
// scan first reads after delivering row k is made unreadable; the scan
// stopped at k must still deliver its k rows and return nil.

import (
	"fmt"

	"verif/internal/dbgen"
	"verif/internal/ev"
	"verif/internal/vpager"

	"github.com/alicebob/sqlittle"
	sdb "github.com/alicebob/sqlittle/db"
)

// badPager fails the reads of a set of pages; it also logs what is read
type badPager struct {
	*vpager.MemPager
	bad  map[int]bool
	read map[int]bool
}

func (b *badPager) Page(n int, pagesize int) ([]byte, error) {
	if b.bad[n] {
		return nil, vpager.ErrInjected
	}
	if b.read != nil {
		b.read[n] = true
	}
	return b.MemPager.Page(n, pagesize)
}

func c17Later(r *ev.Run) {
	for _, ps := range []int{512, 1024} {
		spec := &dbgen.Spec{PageSize: ps, Tables: []dbgen.Table{T1(rowidSet(10, 1), ps+300), T2(9, ps+100)}}
		img, err := dbgen.Build(spec)
		if err != nil {
			r.Harness("dbgen: %v", err)
			continue
		}
		if err := Conform(spec, img); err != nil {
			r.Harness("conformance: %v", err)
			continue
		}
		r.Validated(1)
		r.StateBytes(img.Bytes)
		scans := []stopScan{
			{"SelectDone(t1)", true, func(h *sqlittle.DB, d *sdb.Database, cb func([]interface{}) bool) error {
				return h.SelectDone("t1", func(row sqlittle.Row) bool { return cb(CopyRow(row)) }, "rowid", "b", "c", "e")
			}},
			{"SelectDone(t2)", true, func(h *sqlittle.DB, d *sdb.Database, cb func([]interface{}) bool) error {
				return h.SelectDone("t2", func(row sqlittle.Row) bool { return cb(CopyRow(row)) }, "a", "b", "c", "d")
			}},
			{"Table.Scan(t1)", false, func(h *sqlittle.DB, d *sdb.Database, cb func([]interface{}) bool) error {
				t, err := d.Table("t1")
				if err != nil {
					return err
				}
				return t.Scan(func(id int64, rec sdb.Record) bool { return cb(append([]interface{}{id}, CopyRec(rec)...)) })
			}},
			{"Index.Scan(t1_bc)", false, func(h *sqlittle.DB, d *sdb.Database, cb func([]interface{}) bool) error {
				in, err := d.Index("t1_bc")
				if err != nil {
					return err
				}
				return in.Scan(func(rec sdb.Record) bool { return cb(CopyRec(rec)) })
			}},
			{"ScanMin(t1_bc)", false, func(h *sqlittle.DB, d *sdb.Database, cb func([]interface{}) bool) error {
				in, err := d.Index("t1_bc")
				if err != nil {
					return err
				}
				return in.ScanMin(sdb.Key{{V: "banana", Collate: "nocase", Desc: true}}, func(rec sdb.Record) bool { return cb(CopyRec(rec)) })
			}},
		}
		for _, sc := range scans {
			run := func(bp *badPager, stopAt int, atRow func(n int)) (rows [][]interface{}, err error) {
				h, d, e := vpager.Open(bp)
				if e != nil {
					return nil, e
				}
				if !sc.high {
					if e := d.RLock(); e != nil {
						return nil, e
					}
					defer d.RUnlock()
				}
				err = sc.run(h, d, func(row []interface{}) bool {
					rows = append(rows, row)
					if atRow != nil {
						atRow(len(rows))
					}
					return stopAt > 0 && len(rows) >= stopAt
				})
				return
			}
			// the full scan: which pages have been read when row k is delivered
			log := &badPager{MemPager: vpager.NewMem(img.Bytes), read: map[int]bool{}}
			var atRow []map[int]bool
			full, err := run(log, 0, func(n int) {
				snap := map[int]bool{}
				for p := range log.read {
					snap[p] = true
				}
				atRow = append(atRow, snap)
			})
			if err != nil {
				r.Violation("C17:full-scan-error", fmt.Sprintf("%s: %v", sc.name, err), map[string]interface{}{"family": "behind-the-stop-point", "page_size": ps})
				continue
			}
			// by structure (an independent walk of the image): the pages needed to deliver entry i of a full scan
			var needed [][]int
			switch sc.name {
			case "SelectDone(t1)", "Table.Scan(t1)":
				needed = c17WalkNeeded(img.Bytes, ps, img.Roots["t1"], false)
			case "SelectDone(t2)":
				needed = c17WalkNeeded(img.Bytes, ps, img.Roots["t2"], true)
			case "Index.Scan(t1_bc)":
				needed = c17WalkNeeded(img.Bytes, ps, img.Roots["t1_bc"], true)
			}
			if needed != nil && len(needed) != len(full) {
				r.Harness("C17 walk of %s finds %d entries, the scan %d", sc.name, len(needed), len(full))
				needed = nil
			}
			for k := 1; k <= len(full); k++ {
				bad := map[int]bool{}
				if needed != nil {
					// everything of this b-tree that the first k entries do not need
					need := map[int]bool{}
					for _, ps := range needed[:k] {
						for _, p := range ps {
							need[p] = true
						}
					}
					for _, ps := range needed[k:] {
						for _, p := range ps {
							if !need[p] {
								bad[p] = true
							}
						}
					}
				} else {
					// by observation: what the unstopped scan reads only after row k
					for p := range log.read {
						if !atRow[k-1][p] {
							bad[p] = true
						}
					}
				}
				if len(bad) == 0 {
					continue
				}
				r.Eval(1)
				r.Trans(1)
				r.NontrivialN(1)
				art := map[string]interface{}{"family": "behind-the-stop-point", "page_size": ps, "scan": sc.name, "stop_at": k, "unreadable_pages": fmt.Sprint(len(bad))}
				bp := &badPager{MemPager: vpager.NewMem(img.Bytes), bad: bad}
				var rows [][]interface{}
				var serr error
				if p := Safely(func() { rows, serr = run(bp, k, nil) }); p != nil {
					r.Violation("C17:panic", fmt.Sprintf("%s stop at %d panics: %v", sc.name, k, p), art)
					continue
				}
				kind := "low"
				if sc.high {
					kind = "high"
				}
				if serr != nil || !RowsEq(rows, full[:k], false) {
					r.Violation("C17:needs-what-lies-behind-the-stop:"+kind, fmt.Sprintf("%s stopped at row %d of %d, with the %d pages unreadable that the full scan reads only later: err=%v, %d rows", sc.name, k, len(full), len(bad), serr, len(rows)), art)
				}
			}
		}
	}
}

// c17TableChains walks every table leaf page of the image on its own and returns, per rowid, the pages of
// the row's overflow chain
func c17TableChains(img []byte, ps int) map[int64][]int {
	out := map[int64][]int{}
	npages := len(img) / ps
	for pg := 1; pg <= npages; pg++ {
		p := img[(pg-1)*ps : pg*ps]
		h := 0
		if pg == 1 {
			h = 100
		}
		if p[h] != 0x0d {
			continue
		}
		n := int(p[h+3])<<8 | int(p[h+4])
		for i := 0; i < n; i++ {
			off := int(p[h+8+2*i])<<8 | int(p[h+8+2*i+1])
			if off <= 0 || off >= ps {
				continue
			}
			pl, n1 := brimVarint(p[off:])
			id, n2 := brimVarint(p[off+n1:])
			local := brimLocal(ps, int(pl))
			if local >= int(pl) {
				continue
			}
			at := off + n1 + n2 + local
			if at+4 > ps {
				continue
			}
			next := int(p[at])<<24 | int(p[at+1])<<16 | int(p[at+2])<<8 | int(p[at+3])
			for steps := 0; next > 0 && next <= npages && steps < npages; steps++ {
				out[id] = append(out[id], next)
				q := img[(next-1)*ps:]
				next = int(q[0])<<24 | int(q[1])<<16 | int(q[2])<<8 | int(q[3])
			}
		}
	}
	return out
}

// c17WalkNeeded walks a b-tree of the image on its own, in scan order, and returns for every entry the
// pages needed to deliver it: the pages on the path from the root and the entry's overflow chain
func c17WalkNeeded(img []byte, ps, root int, index bool) [][]int {
	var out [][]int
	npages := len(img) / ps
	be32 := func(b []byte) int { return int(b[0])<<24 | int(b[1])<<16 | int(b[2])<<8 | int(b[3]) }
	localIdx := func(pl int) int {
		x := ((ps-12)*64)/255 - 23
		if pl <= x {
			return pl
		}
		m := ((ps-12)*32)/255 - 23
		k := m + (pl-m)%(ps-4)
		if k <= x {
			return k
		}
		return m
	}
	entry := func(p []byte, off int, path []int, table bool) []int {
		pages := append([]int{}, path...)
		pl, n1 := brimVarint(p[off:])
		at := off + n1
		local := 0
		if table {
			_, n2 := brimVarint(p[at:])
			at += n2
			local = brimLocal(ps, int(pl))
		} else {
			local = localIdx(int(pl))
		}
		if local < int(pl) && at+local+4 <= ps {
			next := be32(p[at+local:])
			for steps := 0; next > 0 && next <= npages && steps < npages; steps++ {
				pages = append(pages, next)
				next = be32(img[(next-1)*ps:])
			}
		}
		return pages
	}
	var rec func(pg int, path []int, depth int)
	rec = func(pg int, path []int, depth int) {
		if pg < 1 || pg > npages || depth > 20 {
			return
		}
		p := img[(pg-1)*ps : pg*ps]
		h := 0
		if pg == 1 {
			h = 100
		}
		path2 := append(append([]int{}, path...), pg)
		n := int(p[h+3])<<8 | int(p[h+4])
		ptr := func(i, base int) int { return int(p[base+2*i])<<8 | int(p[base+2*i+1]) }
		switch p[h] {
		case 0x0d:
			for i := 0; i < n; i++ {
				out = append(out, entry(p, ptr(i, h+8), path2, true))
			}
		case 0x0a:
			for i := 0; i < n; i++ {
				out = append(out, entry(p, ptr(i, h+8), path2, false))
			}
		case 0x05:
			for i := 0; i < n; i++ {
				rec(be32(p[ptr(i, h+12):]), path2, depth+1)
			}
			rec(be32(p[h+8:]), path2, depth+1)
		case 0x02:
			for i := 0; i < n; i++ {
				off := ptr(i, h+12)
				rec(be32(p[off:]), path2, depth+1)
				out = append(out, entry(p, off+4, path2, false))
			}
			rec(be32(p[h+8:]), path2, depth+1)
		}
	}
	_ = index
	rec(root, nil, 0)
	return out
}
