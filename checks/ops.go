package checks

import (
	"context"
	"database/sql"
	"database/sql/driver"
	"fmt"
	"strings"
	"sync/atomic"
	"time"

	"github.com/alicebob/sqlittle"
	sdb "github.com/alicebob/sqlittle/db"
	sdriver "github.com/alicebob/sqlittle/driver"
)

// Env is one open handle (high level + the low level Database under it)
type Env struct {
	H *sqlittle.DB
	D *sdb.Database
}

// OpResult is what an operation delivered
type OpResult struct {
	Rows  [][]interface{}
	Err   error
	Calls int  // callback invocations
	Extra bool // the callback was invoked again after asking to stop
}

// Op is one public read operation with fixed arguments. stopAt>0 asks the
// row callback to stop after stopAt rows (ops that cannot stop ignore it).
type Op struct {
	Name    string
	High    bool // goes through the locking high level API
	CanStop bool
	Run     func(e *Env, stopAt int) OpResult
}

// OpSpec names the things the standard operation list works on
type OpSpec struct {
	Table   string
	Cols    []string // columns to select (may include rowid)
	WR      bool     // WITHOUT ROWID
	Index   string   // an index of the table ("" none)
	Key     sqlittle.Key
	DbKey   sdb.Key // the same key for the low level index calls
	DbKeyTo sdb.Key // upper key for ScanRange
	PKKey   sqlittle.Key
	Rowid   int64
}

type collector struct {
	res    OpResult
	stopAt int
}

func (c *collector) add(row []interface{}) bool {
	if c.stopAt > 0 && c.res.Calls >= c.stopAt {
		c.res.Extra = true
	}
	c.res.Calls++
	c.res.Rows = append(c.res.Rows, row)
	return c.stopAt > 0 && c.res.Calls >= c.stopAt
}

func lowOp(name string, canStop bool, fn func(e *Env, c *collector) error) Op {
	return Op{Name: name, CanStop: canStop, Run: func(e *Env, stopAt int) OpResult {
		c := &collector{stopAt: stopAt}
		if err := e.D.RLock(); err != nil {
			return OpResult{Err: err}
		}
		defer e.D.RUnlock()
		c.res.Err = fn(e, c)
		return c.res
	}}
}

func highOp(name string, canStop bool, fn func(e *Env, c *collector) error) Op {
	return Op{Name: name, High: true, CanStop: canStop, Run: func(e *Env, stopAt int) OpResult {
		c := &collector{stopAt: stopAt}
		c.res.Err = fn(e, c)
		return c.res
	}}
}

// StdOps is the list of every public read operation on one table spec.
func StdOps(s OpSpec) []Op {
	t := s.Table
	ops := []Op{
		highOp("Select("+t+")", false, func(e *Env, c *collector) error {
			return e.H.Select(t, func(r sqlittle.Row) { c.add(CopyRow(r)) }, s.Cols...)
		}),
		highOp("SelectDone("+t+")", true, func(e *Env, c *collector) error {
			return e.H.SelectDone(t, func(r sqlittle.Row) bool { return c.add(CopyRow(r)) }, s.Cols...)
		}),
		highOp("Columns("+t+")", false, func(e *Env, c *collector) error {
			cols, err := e.H.Columns(t)
			for _, x := range cols {
				c.res.Rows = append(c.res.Rows, []interface{}{x})
			}
			return err
		}),
		highOp("PKSelect("+t+")", false, func(e *Env, c *collector) error {
			return e.H.PKSelect(t, s.PKKey, func(r sqlittle.Row) { c.add(CopyRow(r)) }, s.Cols...)
		}),
		highOp("Driver("+t+")", true, func(e *Env, c *collector) error {
			return driverQuery(e.H, "SELECT "+strings.Join(s.Cols, ", ")+" FROM "+t, c)
		}),
		lowOp("Schema("+t+")", false, func(e *Env, c *collector) error {
			sc, err := e.D.Schema(t)
			if err == nil {
				c.res.Rows = append(c.res.Rows, []interface{}{fmt.Sprintf("%+v", *sc)})
			}
			return err
		}),
		lowOp("Tables", false, func(e *Env, c *collector) error {
			ts, err := e.D.Tables()
			for _, x := range ts {
				c.res.Rows = append(c.res.Rows, []interface{}{x})
			}
			return err
		}),
		lowOp("Indexes", false, func(e *Env, c *collector) error {
			ts, err := e.D.Indexes()
			for _, x := range ts {
				c.res.Rows = append(c.res.Rows, []interface{}{x})
			}
			return err
		}),
	}
	if !s.WR {
		ops = append(ops,
			highOp("SelectRowid("+t+")", false, func(e *Env, c *collector) error {
				r, err := e.H.SelectRowid(t, s.Rowid, s.Cols...)
				if r != nil {
					c.add(CopyRow(r))
				}
				return err
			}),
			lowOp("Table.Scan("+t+")", true, func(e *Env, c *collector) error {
				tb, err := e.D.Table(t)
				if err != nil {
					return err
				}
				return tb.Scan(func(rowid int64, rec sdb.Record) bool {
					return c.add(append([]interface{}{rowid}, CopyRec(rec)...))
				})
			}),
			lowOp("Table.Rowid("+t+")", false, func(e *Env, c *collector) error {
				tb, err := e.D.Table(t)
				if err != nil {
					return err
				}
				rec, err := tb.Rowid(s.Rowid)
				if rec != nil {
					c.add(CopyRec(rec))
				}
				return err
			}),
			lowOp("Table.Def("+t+")", false, func(e *Env, c *collector) error {
				tb, err := e.D.Table(t)
				if err != nil {
					return err
				}
				def, err := tb.Def()
				if err == nil {
					c.res.Rows = append(c.res.Rows, []interface{}{fmt.Sprintf("%+v", *def)})
				}
				return err
			}),
		)
	} else {
		ops = append(ops,
			lowOp("NonRowidTable.Scan("+t+")", true, func(e *Env, c *collector) error {
				tb, err := e.D.NonRowidTable(t)
				if err != nil {
					return err
				}
				return tb.Scan(func(rec sdb.Record) bool { return c.add(CopyRec(rec)) })
			}),
		)
	}
	if s.Index != "" {
		ix := s.Index
		ops = append(ops,
			highOp("IndexedSelect("+t+","+ix+")", false, func(e *Env, c *collector) error {
				return e.H.IndexedSelect(t, ix, func(r sqlittle.Row) { c.add(CopyRow(r)) }, s.Cols...)
			}),
			highOp("IndexedSelectEq("+t+","+ix+")", false, func(e *Env, c *collector) error {
				return e.H.IndexedSelectEq(t, ix, s.Key, func(r sqlittle.Row) { c.add(CopyRow(r)) }, s.Cols...)
			}),
			lowOp("Index.Scan("+ix+")", true, func(e *Env, c *collector) error {
				in, err := e.D.Index(ix)
				if err != nil {
					return err
				}
				return in.Scan(func(rec sdb.Record) bool { return c.add(CopyRec(rec)) })
			}),
			lowOp("Index.ScanMin("+ix+")", true, func(e *Env, c *collector) error {
				in, err := e.D.Index(ix)
				if err != nil {
					return err
				}
				return in.ScanMin(s.DbKey, func(rec sdb.Record) bool { return c.add(CopyRec(rec)) })
			}),
			lowOp("Index.ScanEq("+ix+")", true, func(e *Env, c *collector) error {
				in, err := e.D.Index(ix)
				if err != nil {
					return err
				}
				return in.ScanEq(s.DbKey, func(rec sdb.Record) bool { return c.add(CopyRec(rec)) })
			}),
			lowOp("Index.ScanRange("+ix+")", true, func(e *Env, c *collector) error {
				in, err := e.D.Index(ix)
				if err != nil {
					return err
				}
				return in.ScanRange(s.DbKey, s.DbKeyTo, func(rec sdb.Record) bool { return c.add(CopyRec(rec)) })
			}),
			lowOp("Index.Def("+ix+")", false, func(e *Env, c *collector) error {
				in, err := e.D.Index(ix)
				if err != nil {
					return err
				}
				def, err := in.Def()
				if err == nil {
					c.res.Rows = append(c.res.Rows, []interface{}{fmt.Sprintf("%+v", *def)})
				}
				return err
			}),
		)
	}
	return ops
}

// driverQuery runs a query through database/sql itself on the given handle: a connector hands
// database/sql the driver's own Statement (VerifStatement hook) for every Prepare, so what the caller
// sees - which errors reach rows.Err and which are dropped on the way - is decided by the real
// database/sql code, not by a re-implementation of its draining loop.
func driverQuery(h *sqlittle.DB, q string, c *collector) error {
	return driverQueryCB(h, q, c.add, c)
}

type verifConnector struct{ h *sqlittle.DB }

func (c verifConnector) Connect(context.Context) (driver.Conn, error) { return verifConn{c.h}, nil }
func (c verifConnector) Driver() driver.Driver                        { return &sdriver.Driver{} }

type verifConn struct{ h *sqlittle.DB }

func (c verifConn) Prepare(q string) (driver.Stmt, error) {
	return verifStmt{sdriver.VerifStatement(c.h, q)}, nil
}
func (c verifConn) Close() error              { return nil }
func (c verifConn) Begin() (driver.Tx, error) { return nil, fmt.Errorf("no transactions") }

// the handle belongs to the harness: closing the statement leaves it open
type verifStmt struct{ *sdriver.Statement }

func (s verifStmt) Close() error { return nil }

var driverQueryCalls atomic.Int64

func driverQueryCB(h *sqlittle.DB, q string, add func(row []interface{}) bool, _ *collector) error {
	pool := sql.OpenDB(verifConnector{h})
	defer pool.Close()
	// every second call carries a deadline that never arrives (a century away, so that neither a stopped clock nor a
	// snapshot of the machine can reach it): the driver derives its producer's context from the caller's, and a query
	// under a deadline has to behave like one without
	ctx := context.Background()
	if driverQueryCalls.Add(1)%2 == 0 {
		var cancel context.CancelFunc
		ctx, cancel = context.WithDeadline(ctx, time.Now().Add(100*365*24*time.Hour))
		defer cancel()
	}
	rows, err := pool.QueryContext(ctx, q)
	if err != nil {
		return err
	}
	cols, err := rows.Columns()
	if err != nil {
		rows.Close()
		return err
	}
	n := len(cols)
	stopped := false
	for rows.Next() {
		row := make([]interface{}, n)
		ptrs := make([]interface{}, n)
		for i := range row {
			ptrs[i] = &row[i]
		}
		if err := rows.Scan(ptrs...); err != nil {
			rows.Close()
			return err
		}
		if add(row) {
			stopped = true
			break
		}
	}
	if !stopped {
		if err := rows.Err(); err != nil {
			rows.Close()
			return err
		}
	}
	return rows.Close()
}
