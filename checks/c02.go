package checks

// C02 — Index-ordered select visits exactly the indexed rows in index order.
// C03 — Index and primary-key equality search returns exactly the matching rows.
// Kind S: every index b-tree shape x (C03) every key candidate of every prefix length.

import (
	"fmt"
	"strings"

	"verif/internal/dbgen"
	"verif/internal/ev"
	"verif/internal/lite"
	"verif/internal/ref"
	"verif/internal/vpager"

	"github.com/alicebob/sqlittle"
)

func init() {
	Registry["C02"] = Check{Level: "model_checking", Fn: runC02}
	Registry["C03"] = Check{Level: "model_checking", Fn: runC03}
}

// T3: a rowid table whose primary key is backed by an automatic index
const T3SQL = `CREATE TABLE t3 (k TEXT PRIMARY KEY, v, w COLLATE RTRIM, UNIQUE (w, v))`

func T3(n int) dbgen.Table {
	t := dbgen.Table{Name: "t3", SQL: T3SQL, NCols: 3, ColNames: []string{"k", "v", "w"}, RowidAlias: -1,
		Defaults: []interface{}{nil, nil, nil}, ColColl: []string{"", "", "rtrim"}}
	ks := []interface{}{"alpha", "Alpha", "alpha ", "beta", "b", "", "gamma", "é", "z", "a\x00b", "beta2", "BETA"}
	for i := 0; i < n; i++ {
		k := ks[i%len(ks)]
		if i >= len(ks) {
			k = fmt.Sprintf("k%03d", i)
		}
		t.Rows = append(t.Rows, dbgen.Row{Rowid: int64(i*7 + 1), Vals: []interface{}{k, mixVal(i + 2), fmt.Sprintf("w%d", i/2)}})
	}
	// a PRIMARY KEY that is not the rowid may hold NULLs, and NULLs never conflict in a UNIQUE index:
	// a full-length key containing NULL can match several rows
	for i := 0; i < 3 && n > 4; i++ {
		t.Rows = append(t.Rows, dbgen.Row{Rowid: int64(5000 + i), Vals: []interface{}{nil, fmt.Sprintf("nullpk%d", i), nil}})
	}
	if n > 4 {
		t.Rows = append(t.Rows, dbgen.Row{Rowid: 6000, Vals: []interface{}{"haswnull", nil, nil}}, dbgen.Row{Rowid: 6001, Vals: []interface{}{"haswnull2", nil, nil}})
	}
	t.Indexes = []dbgen.Index{
		{Name: "sqlite_autoindex_t3_1", Cols: []dbgen.IdxCol{{Col: 0}}},
		{Name: "sqlite_autoindex_t3_2", Cols: []dbgen.IdxCol{{Col: 2, Coll: "rtrim"}, {Col: 1}}},
	}
	return t
}

// T4: a WITHOUT ROWID table with a three column primary key and secondary
// indexes over every kind of subset of the primary key columns (an earlier
// column without a later one, a later without an earlier, none, all, in
// another order), so that the appended key columns land on every position.
const T4SQL = `CREATE TABLE t4 (p1, p2, p3, x, y, PRIMARY KEY (p1, p2, p3)) WITHOUT ROWID`

func T4(n int) dbgen.Table {
	t := dbgen.Table{Name: "t4", SQL: T4SQL, NCols: 5, ColNames: []string{"p1", "p2", "p3", "x", "y"}, RowidAlias: -1, WithoutRowid: true,
		Defaults: make([]interface{}, 5), PK: []dbgen.IdxCol{{Col: 0}, {Col: 1}, {Col: 2}}, ColColl: make([]string, 5)}
	for i := 0; i < n; i++ {
		t.Rows = append(t.Rows, dbgen.Row{Vals: []interface{}{int64(i % 3), fmt.Sprintf("q%d", (i/3)%3), int64(100 - i), mixVal(i % 5), fmt.Sprintf("y%d", i)}})
	}
	ix := func(name, def string, cols ...dbgen.IdxCol) dbgen.Index {
		return dbgen.Index{Name: name, SQL: "CREATE INDEX " + name + " ON t4 (" + def + ")", Cols: cols}
	}
	t.Indexes = []dbgen.Index{
		ix("t4_p1", "p1", dbgen.IdxCol{Col: 0}),
		ix("t4_p2", "p2", dbgen.IdxCol{Col: 1}),
		ix("t4_p3", "p3", dbgen.IdxCol{Col: 2}),
		ix("t4_xp1", "x, p1", dbgen.IdxCol{Col: 3}, dbgen.IdxCol{Col: 0}),
		ix("t4_xp2", "x, p2", dbgen.IdxCol{Col: 3}, dbgen.IdxCol{Col: 1}),
		ix("t4_xp3", "x, p3", dbgen.IdxCol{Col: 3}, dbgen.IdxCol{Col: 2}),
		ix("t4_p1p3", "p1, p3", dbgen.IdxCol{Col: 0}, dbgen.IdxCol{Col: 2}),
		ix("t4_p3p1", "p3, p1", dbgen.IdxCol{Col: 2}, dbgen.IdxCol{Col: 0}),
		ix("t4_x", "x", dbgen.IdxCol{Col: 3}),
		ix("t4_p2x", "p2 DESC, x", dbgen.IdxCol{Col: 1, Desc: true}, dbgen.IdxCol{Col: 3}),
		ix("t4_all", "p3, x, p2, p1", dbgen.IdxCol{Col: 2}, dbgen.IdxCol{Col: 3}, dbgen.IdxCol{Col: 1}, dbgen.IdxCol{Col: 0}),
		ix("t4_y", "y", dbgen.IdxCol{Col: 4}),
	}
	return t
}

// T5: the value grid of C11 (integer and real boundary values, -0.0, infinities, text with NULs and
// trailing blanks, blobs, NULL) as indexed values: ascending, descending and NOCASE indexes on a rowid
// table. Every search key of C03/C13 derived from these entries meets int/real twins and 2^53 / 2^63
// neighbours inside a real b-tree.
const T5SQL = `CREATE TABLE t5 (k, tag)`

func T5() dbgen.Table {
	t := dbgen.Table{Name: "t5", SQL: T5SQL, NCols: 2, ColNames: []string{"k", "tag"}, RowidAlias: -1,
		Defaults: make([]interface{}, 2), ColColl: make([]string, 2)}
	for i, v := range c11Grid() {
		t.Rows = append(t.Rows, dbgen.Row{Rowid: int64(i*3 + 1), Vals: []interface{}{v, fmt.Sprintf("g%03d", i)}})
	}
	t.Indexes = []dbgen.Index{
		{Name: "t5_k", SQL: "CREATE INDEX t5_k ON t5 (k)", Cols: []dbgen.IdxCol{{Col: 0}}},
		{Name: "t5_kd", SQL: "CREATE INDEX t5_kd ON t5 (k DESC, tag)", Cols: []dbgen.IdxCol{{Col: 0, Desc: true}, {Col: 1}}},
		{Name: "t5_kn", SQL: "CREATE INDEX t5_kn ON t5 (k COLLATE NOCASE)", Cols: []dbgen.IdxCol{{Col: 0, Coll: "nocase"}}},
	}
	return t
}

// tableRowFor maps an index entry back to the logical table row
func tableRowFor(u *indexUnderTest) func(entry []interface{}) (dbgen.Row, bool) {
	t := u.table
	rows := u.si.Img.TableRows[t.Name]
	if !t.WithoutRowid {
		byID := map[int64]dbgen.Row{}
		for _, r := range rows {
			byID[r.Rowid] = r
		}
		return func(e []interface{}) (dbgen.Row, bool) {
			id, ok := e[len(e)-1].(int64)
			if !ok {
				return dbgen.Row{}, false
			}
			r, ok := byID[id]
			return r, ok
		}
	}
	// WITHOUT ROWID: find the pk columns inside the entry
	var cols []dbgen.IdxCol
	if u.wr {
		for _, c := range dbgen.WRStoreOrder(t) {
			cols = append(cols, dbgen.IdxCol{Col: c})
		}
	} else {
		cols = dbgen.IndexKeyCols(t, u.ixSpec)
	}
	pkPos := []int{}
	for _, p := range t.PK {
		for i, c := range cols {
			if c.Col == p.Col {
				pkPos = append(pkPos, i)
				break
			}
		}
	}
	keyOfRow := func(vals []interface{}) string {
		var s []string
		for _, p := range t.PK {
			s = append(s, VS(ref.Plain(vals[p.Col])))
		}
		return strings.Join(s, "|")
	}
	byPK := map[string]dbgen.Row{}
	for _, r := range rows {
		byPK[keyOfRow(r.Vals)] = r
	}
	return func(e []interface{}) (dbgen.Row, bool) {
		var s []string
		for _, p := range pkPos {
			s = append(s, VS(e[p]))
		}
		r, ok := byPK[strings.Join(s, "|")]
		return r, ok
	}
}

func selCols(t *dbgen.Table) []string {
	c := append([]string{}, t.ColNames...)
	if !t.WithoutRowid {
		c = append(c, "rowid")
	}
	return c
}

func logicalVia(u *indexUnderTest, entries [][]interface{}, cols []string) [][]interface{} {
	find := tableRowFor(u)
	var rows []dbgen.Row
	for _, e := range entries {
		r, ok := find(e)
		if !ok {
			panic("harness: index entry without table row")
		}
		rows = append(rows, r)
	}
	out, _ := projectLogical(u.table, rows, cols)
	return out
}

// all the shape images both checks run on
func forIndexImages(r *ev.Run, fn func(si *ShapeImage)) {
	r.Set("bounds", fmt.Sprintf("%+v", allBounds(r)))
	for _, b := range allBounds(r) {
		forIndexShapes(r, b, fn)
	}
	forIndexFamily(r, fn)
}

// forIndexFamily: T1 on varied rowid sets (all of T1's indexes at default shape) + T2..T5; page size family
func forIndexFamily(r *ev.Run, fn func(si *ShapeImage)) {
	sizes := []int{512, 1024, 4096, 65536}
	if r.Thorough() {
		sizes = PageSizes
	}
	for _, ps := range sizes {
		for _, big := range []int{0, ps + 200} {
			spec := &dbgen.Spec{PageSize: ps, Tables: []dbgen.Table{T1(rowidSet(22, 1), big), T2(30, big), T3(40), T4(26), T5()}}
			img, err := dbgen.Build(spec)
			if err != nil {
				r.Harness("dbgen: %v", err)
				continue
			}
			if err := Conform(spec, img); err != nil {
				r.Harness("conformance (index family ps=%d big=%d): %v", ps, big, err)
				continue
			}
			r.Validated(1)
			r.StateBytes(img.Bytes)
			fn(&ShapeImage{Spec: spec, Img: img, Object: "*", Desc: map[string]interface{}{"family": "index-pagesize", "page_size": ps, "big": big}})
		}
	}
}

func runC02(r *ev.Run) {
	r.Rule = "every index b-tree shape within bounds for T1's (b NOCASE DESC, c) and (c RTRIM) indexes, the T2 WITHOUT ROWID table and its secondary index (entries in interior pages, duplicates over page boundaries, NULLs and every storage class in indexed columns, spilled index payloads), plus autoindexes, a partial index and the page size family: IndexedSelect through every index the schema lists = the builder's logical index order mapped to table rows, cross-checked against SQLite's ORDER BY on the same bytes; plus SQLite-written files (DESC/collated/unique/partial/expression indexes, WITHOUT ROWID, vacuum) after every statement. non-trivial = indexes with interior pages or spilled payloads"
	forIndexImages(r, func(si *ShapeImage) {
		h, d, _, err := vpager.OpenImage(si.Img.Bytes)
		if err != nil {
			r.Violation("C02:open", fmt.Sprintf("well-formed image refused: %v", err), si.Desc)
			return
		}
		// SQLite on the same bytes
		var want *Dump
		if l, err := lite.Deserialize(si.Img.Bytes, true); err == nil {
			want, _ = LiteDump(l)
			l.Close()
		}
		for _, u := range indexesOf(si) {
			u := u
			if u.wr {
				continue // the table itself: C01
			}
			if si.Object != "*" && u.name != si.Object && !(si.Object == "t2" && u.name == "t2_c") {
				continue
			}
			d.RLock()
			sc, err := d.Schema(u.table.Name)
			d.RUnlock()
			if err != nil {
				r.Violation("C02:schema", fmt.Sprintf("schema of %s: %v", u.table.Name, err), si.Desc)
				continue
			}
			if sc.NamedIndex(u.name) == nil {
				r.Outcome("not-listed:" + u.name)
				continue
			}
			cols := selCols(u.table)
			art := map[string]interface{}{"image": si.Desc, "index": u.name, "columns": cols}
			r.Eval(1)
			r.Trans(1)
			if si.Img.Depth[u.name] > 1 || si.Img.Spill[u.name] > 0 {
				r.Nontrivial(fmt.Sprint(art))
			}
			r.Outcome(fmt.Sprintf("%s depth=%d spill=%v", u.name, si.Img.Depth[u.name], si.Img.Spill[u.name] > 0))
			if si.Img.Depth[u.name] == 3 {
				r.Sample(art)
			}
			var got [][]interface{}
			if p := Safely(func() { got, err = IndexedAll(h, u.table.Name, u.name, cols...) }); p != nil {
				r.Violation("C02:panic", fmt.Sprintf("IndexedSelect(%s,%s) panics: %v", u.table.Name, u.name, p), art)
				continue
			}
			if err != nil {
				r.Violation("C02:error", fmt.Sprintf("IndexedSelect(%s,%s): %v", u.table.Name, u.name, err), art)
				continue
			}
			wantRows := logicalVia(&u, u.logic, cols)
			if !RowsEq(got, wantRows, true) {
				r.Violation("C02:rows:"+c01DiffClass(got, wantRows), fmt.Sprintf("IndexedSelect(%s,%s): got %v want %v", u.table.Name, u.name, clip(RowsS(got)), clip(RowsS(wantRows))), art)
				continue
			}
			// SQLite's own order (rowid first in its dump)
			if want != nil {
				if td := want.Tables[FoldID(u.table.Name)]; td != nil {
					if lrows, ok := td.Idx[FoldID(u.name)]; ok && td.IdxOrdered[FoldID(u.name)] {
						lcols := append([]string{}, u.table.ColNames...)
						if !u.table.WithoutRowid {
							lcols = append([]string{"rowid"}, lcols...)
						}
						g2, err := IndexedAll(h, u.table.Name, u.name, lcols...)
						r.Validated(1)
						if err != nil || !RowsEq(g2, lrows, true) {
							r.Violation("C02:rows-vs-sqlite", fmt.Sprintf("IndexedSelect(%s,%s): err=%v got %v, SQLite ORDER BY gives %v", u.table.Name, u.name, err, clip(RowsS(g2)), clip(RowsS(lrows))), art)
						}
					}
				}
			}
		}
	})
	fwRun(r, "C02")
	zooRun(r, "C02")
}

// ---------------------------------------------------------------- C03

func c03SigClass(key []interface{}) string {
	if len(key) == 0 {
		return "empty"
	}
	return c11Class(key[len(key)-1])
}

func runC03(r *ev.Run) {
	r.Rule = "every index image of C02 x every index the schema lists and every index-backed / WITHOUT ROWID primary key x every key {every prefix of every stored entry, last column replaced by neighbours (+-1, next float, int<->real twin, case swap, trailing space, shorter/longer text), NULL, other classes, the empty key} through IndexedSelectEq and PKSelect: exactly the entries the reference comparator (conformance-checked against SQLite in C11) calls equal, in index order, no error; Go key types int/uint/int32/uint32/float32/bool once each; SQLite's own WHERE +col COLLATE c IS ? on a sample of keys per image. non-trivial = keys that match at least one row or sit on a multi-level tree"
	forIndexImages(r, func(si *ShapeImage) {
		h, _, _, err := vpager.OpenImage(si.Img.Bytes)
		if err != nil {
			r.Violation("C03:open", fmt.Sprintf("well-formed image refused: %v", err), si.Desc)
			return
		}
		var l *lite.DB
		if si.Object == "*" {
			l, _ = lite.Deserialize(si.Img.Bytes, true)
			if l != nil {
				defer l.Close()
			}
		}
		for _, u := range indexesOf(si) {
			u := u
			if si.Object != "*" && u.name != si.Object && !(si.Object == "t2" && u.name == "t2_c") {
				continue
			}
			cols := selCols(u.table)
			nkey := len(u.cols)
			if !u.wr {
				nkey = len(u.ixSpec.Cols) // declared key columns only
			} else {
				nkey = len(u.table.PK)
			}
			keys := cutKeys(u.logic, nkey, r.Thorough() || si.Object == "*")
			deep := si.Img.Depth[u.name] > 1
			sampled := 0
			for _, key := range keys {
				if len(key) > nkey {
					continue
				}
				art := map[string]interface{}{"image": si.Desc, "index": u.name, "key": RowS(key)}
				var want [][]interface{}
				for _, e := range u.logic {
					if cmpKeyRec(key, e, u.cols) == 0 {
						want = append(want, e)
					}
				}
				wantRows := logicalVia(&u, want, cols)
				r.Eval(1)
				if deep || len(want) > 0 {
					r.NontrivialN(1)
				}
				r.Outcome(fmt.Sprintf("matches>0=%v class=%s", len(want) > 0, c03SigClass(key)))
				if len(want) > 1 && len(key) == 1 && deep {
					r.Sample(art)
				}
				var got [][]interface{}
				var err error
				op := "IndexedSelectEq"
				run := func() {
					if u.wr {
						op = "PKSelect"
						err = h.PKSelect(u.table.Name, sqlittle.Key(key), func(row sqlittle.Row) { got = append(got, CopyRow(row)) }, cols...)
					} else {
						err = h.IndexedSelectEq(u.table.Name, u.name, sqlittle.Key(key), func(row sqlittle.Row) { got = append(got, CopyRow(row)) }, cols...)
					}
				}
				if p := Safely(run); p != nil {
					r.Violation("C03:panic", fmt.Sprintf("%s(%s, %s) panics: %v", op, u.name, RowS(key), p), art)
					continue
				}
				r.Trans(1)
				sig := fmt.Sprintf("C03:%s:%s:", op, c03SigClass(key))
				if err != nil {
					r.Violation(sig+"error", fmt.Sprintf("%s(%s, %s): %v", op, u.name, RowS(key), err), art)
					continue
				}
				if !RowsEq(got, wantRows, true) {
					r.Violation(sig+c01DiffClass(got, wantRows), fmt.Sprintf("%s(%s, %s): got %v want %v", op, u.name, RowS(key), clip(RowsS(got)), clip(RowsS(wantRows))), art)
					continue
				}
				// PKSelect through the automatic index of a rowid table
				if !u.wr && u.name == "sqlite_autoindex_t3_1" {
					var g2 [][]interface{}
					err := h.PKSelect("t3", sqlittle.Key(key), func(row sqlittle.Row) { g2 = append(g2, CopyRow(row)) }, cols...)
					r.Trans(1)
					if err != nil || !RowsEq(g2, wantRows, true) {
						r.Violation("C03:PKSelect-autoindex:"+c03SigClass(key), fmt.Sprintf("PKSelect(t3, %s): err=%v got %v want %v", RowS(key), err, clip(RowsS(g2)), clip(RowsS(wantRows))), art)
					}
				}
				// SQLite's verdict on the same bytes
				if l != nil && sampled < 400 && !u.wr {
					sampled++
					c03Sqlite(r, l, &u, key, cols, got, art)
				}
			}
		}
	})
	c03GoTypes(r)
	zooRun(r, "C03")
}

// c03Sqlite asks real SQLite for the rows whose indexed columns IS the key
func c03Sqlite(r *ev.Run, l *lite.DB, u *indexUnderTest, key []interface{}, cols []string, got [][]interface{}, art map[string]interface{}) {
	t := u.table
	var conds []string
	var args []interface{}
	for i, v := range key {
		c := u.ixSpec.Cols[i]
		coll := "BINARY"
		if c.Coll != "" {
			coll = strings.ToUpper(c.Coll)
		}
		conds = append(conds, fmt.Sprintf("+%s COLLATE %s IS ?%d", QI(t.ColNames[c.Col]), coll, i+1))
		args = append(args, v)
	}
	if u.ixSpec.WhereSQL != "" {
		conds = append(conds, u.ixSpec.WhereSQL)
	}
	where := ""
	if len(conds) > 0 {
		where = " WHERE " + strings.Join(conds, " AND ")
	}
	var ob []string
	for _, c := range dbgen.IndexKeyCols(t, u.ixSpec) {
		name := "rowid"
		if c.Col >= 0 {
			name = QI(t.ColNames[c.Col])
		}
		ob = append(ob, "+"+name+collSQL(c))
	}
	nix := " NOT INDEXED"
	if t.WithoutRowid {
		nix = ""
	}
	q := "SELECT " + colList(cols) + " FROM " + QI(t.Name) + nix + where + " ORDER BY " + strings.Join(ob, ", ")
	q = strings.Replace(q, `"rowid"`, "rowid", -1)
	rows, err := l.Query(q, args...)
	if err != nil {
		r.Harness("C03 sqlite query %s: %v", q, err)
		return
	}
	r.Validated(1)
	if !RowsEq(got, rows, true) {
		r.Violation("C03:vs-sqlite:"+c03SigClass(key), fmt.Sprintf("IndexedSelectEq(%s, %s) = %v; SQLite (%s) = %v", u.name, RowS(key), clip(RowsS(got)), q, clip(RowsS(rows))), art)
	}
}

// c03GoTypes: the Go key types are converted like their int64/float64 twin
func c03GoTypes(r *ev.Run) {
	img := MustMakeDB(512, `CREATE TABLE g (id INTEGER PRIMARY KEY, n); CREATE INDEX g_n ON g (n);
INSERT INTO g VALUES (1,0),(2,1),(3,1),(4,2),(5,1.0),(6,1.5),(7,'1'),(8,NULL),(9,-3),(10,4294967295),(11,2147483647)`)
	h, _, _, err := vpager.OpenImage(img)
	if err != nil {
		r.Harness("gotypes image: %v", err)
		return
	}
	sel := func(k interface{}) ([]string, error) {
		var got [][]interface{}
		err := h.IndexedSelectEq("g", "g_n", sqlittle.Key{k}, func(row sqlittle.Row) { got = append(got, CopyRow(row)) }, "id")
		return RowsS(got), err
	}
	cases := []struct {
		name string
		k    interface{}
		twin interface{}
	}{
		{"int", int(1), int64(1)}, {"uint", uint(2), int64(2)}, {"int32", int32(-3), int64(-3)}, {"uint32", uint32(4294967295), int64(4294967295)},
		{"int32max", int32(2147483647), int64(2147483647)}, {"float32", float32(1.5), float64(1.5)}, {"bool-true", true, int64(1)}, {"bool-false", false, int64(0)},
	}
	for _, c := range cases {
		a, e1 := sel(c.k)
		b, e2 := sel(c.twin)
		r.Eval(1)
		r.Trans(2)
		if e1 != nil || e2 != nil || strings.Join(a, "|") != strings.Join(b, "|") || len(a) == 0 {
			r.Violation("C03:gotype:"+c.name, fmt.Sprintf("key of Go type %T(%v): rows %v err=%v; as %T: rows %v err=%v", c.k, c.k, a, e1, c.twin, b, e2), map[string]interface{}{"key": fmt.Sprint(c.k)})
		}
	}
}
