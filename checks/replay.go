package checks

import (
	"encoding/json"
	"fmt"
	"os"

	"verif/internal/ev"
)

// Replayers re-run one recorded case of a property; they record violations on
// the run exactly as the check does.
var Replayers = map[string]func(r *ev.Run, c json.RawMessage){}

// Replay re-runs a violation artefact (replay/<ID>-<hash>.json). Exit 1 if
// the violation reproduces, 0 if not.
func Replay(path string) int {
	b, err := os.ReadFile(path)
	if err != nil {
		fmt.Fprintln(os.Stderr, err)
		return 2
	}
	var a struct {
		Property  string          `json:"property"`
		Signature string          `json:"signature"`
		What      string          `json:"what"`
		Case      json.RawMessage `json:"case"`
	}
	if err := json.Unmarshal(b, &a); err != nil {
		fmt.Fprintln(os.Stderr, err)
		return 2
	}
	fmt.Printf("replaying %s %s\n  recorded: %s\n", a.Property, a.Signature, a.What)
	fn := Replayers[a.Property]
	if fn == nil {
		fmt.Printf("no single-case replayer for %s: the artefact describes the case; re-run ./vrun %s quick\n", a.Property, a.Property)
		return 2
	}
	os.Setenv("VERIF_ROOT", os.TempDir()) // do not overwrite evidence
	r := ev.NewRun(a.Property, "other")
	fn(r, a.Case)
	if r.ViolationCount() > 0 {
		fmt.Println("reproduced")
		return 1
	}
	fmt.Println("not reproduced")
	return 0
}
