package checks

import (
	"encoding/json"
	"fmt"
	"os"
	"reflect"

	"verif/internal/ev"
)

// ReplayFilter, when set, restricts the shape-image families to the image
// described by a violation artefact (keys of ShapeImage.Desc).
var ReplayFilter map[string]interface{}

func replayMatches(desc map[string]interface{}) bool {
	if ReplayFilter == nil {
		return true
	}
	for _, k := range []string{"family", "object", "page_size", "n", "tree", "rowids", "layout", "big"} {
		want, ok := ReplayFilter[k]
		if !ok {
			continue
		}
		got, ok := desc[k]
		if !ok {
			return false
		}
		// JSON numbers come back as float64
		if reflect.DeepEqual(got, want) || fmt.Sprint(got) == fmt.Sprint(want) {
			continue
		}
		return false
	}
	return true
}

// Replay re-runs the case recorded in a violation artefact
// (replay/<ID>-<hash>.json) against the current /repo. Where the artefact
// names a generated image the exploration is restricted to that image;
// otherwise the property's check is re-run at the recorded tier. Exit 1 if
// the recorded signature shows up again, 0 if not.
func Replay(path string) int {
	b, err := os.ReadFile(path)
	if err != nil {
		fmt.Fprintln(os.Stderr, err)
		return 2
	}
	var a struct {
		Property  string                 `json:"property"`
		Signature string                 `json:"signature"`
		What      string                 `json:"what"`
		Case      map[string]interface{} `json:"case"`
	}
	if err := json.Unmarshal(b, &a); err != nil {
		fmt.Fprintln(os.Stderr, err)
		return 2
	}
	fmt.Printf("replaying %s %s\n  recorded: %s\n", a.Property, a.Signature, a.What)
	c, ok := Registry[a.Property]
	if !ok {
		fmt.Println("unknown property")
		return 2
	}
	if img, ok := a.Case["image"].(map[string]interface{}); ok {
		ReplayFilter = img
	} else if _, ok := a.Case["tree"]; ok {
		ReplayFilter = a.Case
	}
	if ReplayFilter != nil {
		fmt.Printf("  restricted to the image %v\n", ReplayFilter)
	}
	tmp, _ := os.MkdirTemp("", "verif-replay-")
	defer os.RemoveAll(tmp)
	// do not overwrite evidence; known findings are not applied: a replay shows what happens
	ev.Root = tmp
	r := ev.NewRun(a.Property, c.Level)
	c.Fn(r)
	again := r.HasViolation(a.Signature)
	r.Finish()
	if again {
		fmt.Printf("REPRODUCED %s\n", a.Signature)
		return 1
	}
	fmt.Printf("not reproduced: %s does not occur (any more)\n", a.Signature)
	return 0
}
