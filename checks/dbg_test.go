package checks
import ("testing";"fmt";"verif/internal/lite";"verif/internal/vpager")
func TestDbg(t *testing.T){
 for _, stmts := range [][]string{
  {"CREATE TABLE t (a ıNTEGER PRIMARY KEY, b)"},
  {"CREATE TABLE t (a unıque, b)"},
  {"CREATE TABLE t (é, É, PRIMARY KEY (É))"},
  {"CREATE TABLE t (é, É UNIQUE)", "CREATE INDEX i ON t (É)"},
  {"CREATE TABLE t (a, b)", "CREATE TABLE é (x)", "CREATE TABLE É (y, z)"},
  {"CREATE TABLE t (a prımary key, b)"},
  {"CREATE TABLE t (a, ſ, PRIMARY KEY (S)) "},
 } {
 l,_ := lite.OpenMem()
 bad := false
 for _,s := range stmts { if err:=l.Exec(s); err!=nil {fmt.Println("SQLite rejects", s,err); bad=true} }
 if bad {continue}
 l.Exec("INSERT INTO t VALUES (5, 6)")
 img := l.Serialize()
 _,d,_,err := vpager.OpenImage(img)
 if err != nil { fmt.Println(err); continue}
 d.RLock()
 tabs, _ := d.Tables()
 fmt.Println(stmts, "tables:", tabs)
 for _, tn := range tabs {
 s,e := d.Schema(tn)
 if e != nil { fmt.Println("  ", tn, "rejected:", e); continue }
 fmt.Printf("   %s cols=%v rowidPK=%v pk=%v\n", tn, s.Columns, s.RowidPK, s.PK)
 for _,ix := range s.Indexes { fmt.Printf("   index %s %v\n", ix.Index, ix.Columns) }
 }
 d.RUnlock()
 x,_ := l.Query("SELECT name FROM pragma_index_list('t')"); fmt.Println("   sqlite indexes:", x)
 }
}
