package checks

// C11 — Values compare in SQLite's order. Kind S: all ordered pairs (and
// triples) over a value grid x 3 collations x ASC/DESC, observed through the
// exported db.Equals / db.Search, judged by the rank real SQLite assigns.

import (
	"fmt"
	"math"
	"strings"

	"verif/internal/ev"
	"verif/internal/lite"
	"verif/internal/ref"

	sdb "github.com/alicebob/sqlittle/db"
)

func init() { Registry["C11"] = Check{Level: "model_checking", Fn: runC11} }

func c11Grid() []interface{} {
	var g []interface{}
	g = append(g, nil)
	ints := []int64{0, 1, -1, 2, 127, 128, -128, -129, 255, 256, 32767, 32768, 1 << 24, 1 << 31, 1 << 32, 1 << 48,
		1 << 53, 1<<53 + 1, 1<<53 - 1, 1<<53 + 2, -(1 << 53), -(1 << 53) - 1, -(1 << 53) + 1,
		1 << 62, 1<<62 + 1, math.MaxInt64, math.MaxInt64 - 1, math.MinInt64, math.MinInt64 + 1, math.MaxInt64 - 1023, math.MaxInt64 - 1024}
	for _, i := range ints {
		g = append(g, i)
	}
	reals := []float64{0, math.Copysign(0, -1), 0.5, -0.5, 1, 1.5, -1, 2, 127.5, math.SmallestNonzeroFloat64, -math.SmallestNonzeroFloat64,
		2.2250738585072014e-308, 1 << 53, 1<<53 + 2, 1<<53 - 1, -(1 << 53), -(1 << 53) - 2, 9007199254740993,
		9223372036854775807, 9223372036854775808, 9223372036854774784, 9223372036854777856, -9223372036854775808, -9223372036854777856, -9223372036854774784,
		4611686018427387904, 4611686018427387905, 1e300, -1e300, math.Inf(1), math.Inf(-1), math.MaxFloat64, 1e18, 1e19}
	for _, f := range reals {
		g = append(g, f)
	}
	texts := []string{"", "a", "A", "a ", "a  ", "a\t", "a\n", "a\r", " a", "ab", "aB", "Ab", "AB", "b", "B", "é", "É", "e", "a\x00", "a\x00b", "a\x00B", "A\x00c", "[", "`", "@", "Z", "z", " ", "  ", "\t", "0", "1", "a é", "A É ", "z ", "Z  ",
		// TEXT that is not valid UTF-8 is legal (CAST(x'..' AS TEXT)) and compared byte by byte; U+FFFD itself sits between them
		"caf\xe9", "caf\xff", "caf\ud55c", "caf\ufffd", "\x80", "a\xc3", "caf\xe9 "}
	for _, s := range texts {
		g = append(g, s)
	}
	blobs := [][]byte{{}, {0}, {0x61}, {0x61, 0}, {0x61, 0x20}, {0xff}, {0x41}, {0, 0}}
	for _, b := range blobs {
		g = append(g, b)
	}
	return g
}

var c11Colls = []string{"binary", "nocase", "rtrim"}

func c11Class(v interface{}) string {
	switch t := v.(type) {
	case nil:
		return "null"
	case int64:
		return "int"
	case float64:
		return "real"
	case string:
		if strings.IndexByte(t, 0) >= 0 {
			return "text-nul"
		}
		return "text"
	case []byte:
		return "blob"
	}
	return "?"
}

// c11Sig is the canonical input class of a disagreement
func c11Sig(a, b interface{}, coll string) string {
	ca, cb := c11Class(a), c11Class(b)
	if ca > cb {
		ca, cb = cb, ca
	}
	if strings.HasPrefix(ca, "text") && strings.HasPrefix(cb, "text") {
		return fmt.Sprintf("C11:cmp:%s/%s:%s", ca, cb, coll)
	}
	return fmt.Sprintf("C11:cmp:%s/%s", ca, cb)
}

func runC11(r *ev.Run) {
	r.Rule = "all ordered pairs of the value grid x {binary,nocase,rtrim} x {asc,desc} through db.Search both ways and db.Equals; all triples for transitivity; multi-column keys of every prefix length over a sub-grid x 10 per-column collation vectors (incl. columns with no collation given next to collated ones) x 8 DESC masks; oracle = dense_rank() real SQLite assigns (ORDER BY v COLLATE c) cross-checked with an index on the same column; non-trivial = pairs of the same storage class or int/real (where the order is not decided by the class alone)"
	grid := c11Grid()
	n := len(grid)
	r.Set("grid_values", n)

	// --- oracle: SQLite's rank per collation
	l, err := lite.OpenMem()
	if err != nil {
		r.Harness("lite: %v", err)
		return
	}
	defer l.Close()
	l.MustExec("CREATE TABLE g(id INTEGER PRIMARY KEY, v)")
	for i, v := range grid {
		if _, err := l.Query("INSERT INTO g VALUES(?1, "+SQLLit(v)+")", int64(i)); err != nil {
			r.Harness("insert grid %d %s: %v", i, VS(v), err)
			return
		}
	}
	// the stored values are what we think they are (typed)
	back, err := l.Query("SELECT v FROM g ORDER BY id")
	if err != nil || len(back) != n {
		r.Harness("grid readback: %v", err)
		return
	}
	for i := range grid {
		if !ValEq(back[i][0], grid[i], false) {
			r.Harness("grid value %d stored as %s, wanted %s", i, VS(back[i][0]), VS(grid[i]))
			return
		}
	}
	rank := map[string][]int64{}
	for _, c := range c11Colls {
		rows, err := l.Query("SELECT id, dense_rank() OVER (ORDER BY v COLLATE " + c + ") FROM g")
		if err != nil {
			r.Harness("rank: %v", err)
			return
		}
		rk := make([]int64, n)
		for _, row := range rows {
			rk[row[0].(int64)] = row[1].(int64)
		}
		rank[c] = rk
		// cross-check with an index (record comparison code path)
		l.MustExec("CREATE INDEX gi_" + c + " ON g(v COLLATE " + c + ")")
		irows, err := l.Query("SELECT id FROM g INDEXED BY gi_" + c + " ORDER BY v COLLATE " + c)
		if err != nil {
			r.Harness("index order: %v", err)
			return
		}
		last := int64(0)
		for _, row := range irows {
			k := rk[row[0].(int64)]
			if k < last {
				r.Harness("SQLite index order disagrees with its own dense_rank under %s", c)
				return
			}
			last = k
		}
		if ic, _ := l.Query("PRAGMA integrity_check"); len(ic) != 1 || ic[0][0] != "ok" {
			r.Harness("integrity_check on grid: %v", ic)
			return
		}
	}
	want := func(i, j int, c string) int {
		a, b := rank[c][i], rank[c][j]
		if a < b {
			return -1
		} else if a > b {
			return 1
		}
		return 0
	}
	// conformance of the reference comparator (used by C03/C13) with SQLite
	for _, c := range c11Colls {
		for i := 0; i < n; i++ {
			for j := 0; j < n; j++ {
				if got := ref.Compare(grid[i], grid[j], c); got != want(i, j, c) {
					r.Harness("ref.Compare(%s, %s, %s) = %d, SQLite says %d", VS(grid[i]), VS(grid[j]), c, got, want(i, j, c))
				}
				r.Validated(1)
			}
		}
	}

	// --- pairs through the exported API
	observed := func(a, b interface{}, c string, desc bool) (cmp int, total bool, eq bool) {
		ka := sdb.Key{{V: a, Collate: c, Desc: desc}}
		kb := sdb.Key{{V: b, Collate: c, Desc: desc}}
		s1 := sdb.Search(ka, sdb.Record{b}) // b at-or-after a
		s2 := sdb.Search(kb, sdb.Record{a}) // a at-or-after b
		eq = sdb.Equals(ka, sdb.Record{b})
		switch {
		case s1 && s2:
			cmp = 0
		case s1:
			cmp = -1
		case s2:
			cmp = 1
		default:
			return 0, false, eq
		}
		if desc {
			cmp = -cmp
		}
		return cmp, true, eq
	}
	ev.Parallel(n, func(i int) {
		for j := 0; j < n; j++ {
			for _, c := range c11Colls {
				for _, desc := range []bool{false, true} {
					a, b := grid[i], grid[j]
					r.Eval(1)
					r.Trans(3)
					cl := c11Class(a) + "/" + c11Class(b)
					r.Outcome(cl)
					if class2(a) == class2(b) && a != nil {
						r.NontrivialN(1)
					}
					var got int
					var total, eq bool
					if p := Safely(func() { got, total, eq = observed(a, b, c, desc) }); p != nil {
						r.Violation("C11:panic:"+cl, fmt.Sprintf("comparing %s with %s panics: %v", VS(a), VS(b), p), nil)
						continue
					}
					w := want(i, j, c)
					art := map[string]interface{}{"a": VS(a), "b": VS(b), "collate": c, "desc": desc, "sqlite_cmp": w, "observed_cmp": got}
					if i == 3 && j == 40 && c == "binary" && !desc {
						r.Sample(art)
					}
					if !total {
						r.Violation(c11Sig(a, b, c)+":nottotal", fmt.Sprintf("neither %s>=%s nor %s>=%s (collate %s desc=%v)", VS(b), VS(a), VS(a), VS(b), c, desc), art)
						continue
					}
					if got != w {
						r.Violation(c11Sig(a, b, c), fmt.Sprintf("Search orders %s vs %s as %d under %s (desc=%v); SQLite: %d", VS(a), VS(b), got, c, desc, w), art)
					}
					if eq != (w == 0) {
						r.Violation(c11Sig(a, b, c)+":equals", fmt.Sprintf("Equals(%s, %s) under %s = %v; SQLite cmp: %d", VS(a), VS(b), c, eq, w), art)
					}
				}
			}
		}
	})
	r.Set("pairs", n*n*len(c11Colls)*2)

	// --- triples: transitivity of the observed relation (intrinsic)
	tn := n
	if !r.Thorough() && tn > 70 {
		tn = 70 // quick: all triples over the first 70 values of a class-balanced sub-grid
	}
	sub := c11SubGrid(grid, tn)
	le := map[string][][]bool{}
	for _, c := range c11Colls {
		m := make([][]bool, len(sub))
		for i := range sub {
			m[i] = make([]bool, len(sub))
			for j := range sub {
				// a <= b  <=>  Search(key=a, rec=b)
				m[i][j] = sdb.Search(sdb.Key{{V: sub[i], Collate: c}}, sdb.Record{sub[j]})
			}
		}
		le[c] = m
	}
	var triples int64
	for _, c := range c11Colls {
		m := le[c]
		for i := range sub {
			for j := range sub {
				if !m[i][j] {
					continue
				}
				for k := range sub {
					triples++
					if m[j][k] && !m[i][k] {
						r.Violation("C11:intransitive:"+c11Class(sub[i])+"/"+c11Class(sub[j])+"/"+c11Class(sub[k]),
							fmt.Sprintf("%s<=%s and %s<=%s but not %s<=%s under %s", VS(sub[i]), VS(sub[j]), VS(sub[j]), VS(sub[k]), VS(sub[i]), VS(sub[k]), c),
							map[string]interface{}{"a": VS(sub[i]), "b": VS(sub[j]), "c": VS(sub[k]), "collate": c})
					}
				}
			}
		}
	}
	r.Eval(int(triples))
	r.Set("triples", triples)
	r.Set("triple_grid", len(sub))

	// --- multi-column keys, every prefix length
	mg := c11SubGrid(grid, 8)
	if r.Thorough() {
		mg = c11SubGrid(grid, 12)
	}
	// collation of each key column; "" = none given (BINARY), which must not be confused with the collation
	// of a neighbouring column
	collVecs := [][3]string{{"binary", "nocase", "rtrim"}, {"nocase", "", "rtrim"}, {"rtrim", "nocase", ""}, {"", "", "nocase"}, {"nocase", "", ""},
		{"rtrim", "", "nocase"}, {"", "rtrim", ""}, {"nocase", "binary", ""}, {"", "nocase", "binary"}, {"rtrim", "rtrim", ""}}
	m := len(mg)
	var recs [][]interface{}
	for a := 0; a < m; a++ {
		for b := 0; b < m; b++ {
			for c := 0; c < m; c++ {
				recs = append(recs, []interface{}{mg[a], mg[b], mg[c]})
			}
		}
	}
	var multi int64
	ev.Parallel(len(recs), func(ri int) {
		rec := recs[ri]
		var cnt int64
		for dmv := 0; dmv < 8*len(collVecs); dmv++ {
			dm, cv := dmv%8, collVecs[dmv/8]
			kc := make([]ref.KeyCol, 3) // for the reference: "" spelled out
			given := make([]string, 3)  // what the key says
			for x := 0; x < 3; x++ {
				given[x] = cv[x]
				rc := cv[x]
				if rc == "" {
					rc = "binary"
				}
				kc[x] = ref.KeyCol{Coll: rc, Desc: dm&(1<<uint(x)) != 0}
			}
			for plen := 0; plen <= 3; plen++ {
				// keys: all prefixes of all records of length plen
				step := 1
				for x := plen; x < 3; x++ {
					step *= m
				}
				for ki := 0; ki < len(recs); ki += step {
					kv := recs[ki][:plen]
					key := make(sdb.Key, plen)
					for x := 0; x < plen; x++ {
						key[x] = sdb.KeyCol{V: kv[x], Collate: given[x], Desc: kc[x].Desc}
					}
					cnt++
					w := ref.CompareRecords(kv, rec, kc, plen) // key vs rec in index order
					gs := sdb.Search(key, sdb.Record(rec))
					ge := sdb.Equals(key, sdb.Record(rec))
					if gs != (w <= 0) || ge != (w == 0) {
						sig := "C11:multicol"
						for x := 0; x < plen; x++ {
							if ref.Compare(kv[x], rec[x], kc[x].Coll) != 0 || x == plen-1 {
								sig = c11Sig(kv[x], rec[x], kc[x].Coll) + ":multicol"
								break
							}
						}
						r.Violation(sig, fmt.Sprintf("key %s vs record %s (collations %q, desc mask %d): Search=%v Equals=%v, reference order %d", RowS(kv), RowS(rec), given, dm, gs, ge, w),
							map[string]interface{}{"key": RowS(kv), "rec": RowS(rec), "descmask": dm, "collations": given})
					}
				}
			}
		}
		r.Eval(int(cnt))
		r.Trans(int(cnt) * 2)
		r.Add("multicol_cases", cnt)
		_ = multi
	})
	r.Sample(map[string]interface{}{"multicol_key": RowS(recs[5][:2]), "rec": RowS(recs[9]), "cols": "10 collation vectors over {none given, binary, nocase, rtrim} x 8 desc masks"})
	r.State(fmt.Sprint(n))
	for i := range grid {
		r.State(VS(grid[i]))
	}
	r.Assume("NaN (not storable) and invalid UTF-8 are outside the grid; NOCASE/RTRIM on non-ASCII only through the grid's é/É")
}

func class2(v interface{}) int {
	switch v.(type) {
	case nil:
		return 0
	case int64, float64:
		return 1
	case string:
		return 2
	}
	return 3
}

// c11SubGrid picks k values spread over the classes (deterministic)
func c11SubGrid(grid []interface{}, k int) []interface{} {
	if k >= len(grid) {
		return grid
	}
	// priority picks: the boundary cases first
	pri := []interface{}{nil, int64(1 << 53), float64(1 << 53), int64(1<<53 + 1), "a", "A", "a ", "a\t", []byte{0x61}, int64(math.MaxInt64), float64(9223372036854775808), "", "ab", "a\x00", "é", int64(0), float64(0.5), []byte{}}
	var out []interface{}
	seen := map[string]bool{}
	for _, p := range pri {
		if len(out) < k {
			out = append(out, p)
			seen[VS(p)] = true
		}
	}
	step := len(grid) / (k - len(out) + 1)
	if step < 1 {
		step = 1
	}
	for i := 0; i < len(grid) && len(out) < k; i += step {
		if !seen[VS(grid[i])] {
			out = append(out, grid[i])
			seen[VS(grid[i])] = true
		}
	}
	for i := 0; i < len(grid) && len(out) < k; i++ {
		if !seen[VS(grid[i])] {
			out = append(out, grid[i])
			seen[VS(grid[i])] = true
		}
	}
	return out
}
