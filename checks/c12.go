package checks

// C12 — Read failures are reported, never turned into silently missing rows.
// Kind E: the environment deviates at the k-th page read (I/O error or short
// read) for every k, on cold and warm handles; RLock failure; second fault
// after the first wherever the operation kept reading.

import (
	"fmt"
	"strings"

	"verif/internal/dbgen"
	"verif/internal/ev"
	"verif/internal/vpager"

	"github.com/alicebob/sqlittle"
	sdb "github.com/alicebob/sqlittle/db"
)

func init() { Registry["C12"] = Check{Level: "fault_enumeration", Fn: runC12} }

type c12Image struct {
	desc map[string]interface{}
	img  []byte
	ops  []Op
}

func c12Ops() []Op {
	var ops []Op
	ops = append(ops, StdOps(OpSpec{Table: "t1", Cols: []string{"a", "b", "c", "e"}, Index: "t1_bc",
		Key: keyOf("apple"), DbKey: sdb.Key{{V: "apple", Collate: "nocase", Desc: true}}, DbKeyTo: sdb.Key{{V: nil, Collate: "nocase", Desc: true}}, PKKey: keyOf(int64(40)), Rowid: 40})...)
	ops = append(ops, StdOps(OpSpec{Table: "t2", Cols: []string{"a", "b", "c", "d"}, WR: true, Index: "t2_c",
		Key: keyOf(nil), DbKey: sdb.Key{{V: nil}}, DbKeyTo: sdb.Key{{V: "v"}}, PKKey: keyOf(int64(1))})...)
	ops = append(ops, StdOps(OpSpec{Table: "t3", Cols: []string{"k", "v", "w"}, Index: "sqlite_autoindex_t3_1",
		Key: keyOf("beta"), DbKey: sdb.Key{{V: "beta"}}, DbKeyTo: sdb.Key{{V: "k"}}, PKKey: keyOf("gamma"), Rowid: 8})...)
	ops = append(ops, StdOps(OpSpec{Table: "lk", Cols: []string{"k", "v"}, Index: "lk_k",
		Key: keyOf(c12LongKey(7)), DbKey: sdb.Key{{V: c12LongKey(7)}}, DbKeyTo: sdb.Key{{V: c12LongKey(11)}}, PKKey: keyOf(int64(3)), Rowid: 3})...)
	ops = append(ops,
		highOp("IndexedSelect(t1,t1_part)", false, func(e *Env, c *collector) error {
			return e.H.IndexedSelect("t1", "t1_part", func(r sqlittle.Row) { c.add(CopyRow(r)) }, "a", "c")
		}),
		highOp("IndexedSelectEq(t1,t1_c_rt)", false, func(e *Env, c *collector) error {
			return e.H.IndexedSelectEq("t1", "t1_c_rt", keyOf("v01"), func(r sqlittle.Row) { c.add(CopyRow(r)) }, "a", "c")
		}),
		highOp("IndexedSelectEq(t2,t2_c,prefix)", false, func(e *Env, c *collector) error {
			return e.H.IndexedSelectEq("t2", "t2_c", sqlittle.Key{}, func(r sqlittle.Row) { c.add(CopyRow(r)) }, "a", "d")
		}),
	)
	return ops
}

// c12LongKey: keys so long that every index entry, the ones stored in interior pages included, spills to overflow pages
func c12LongKey(i int) string { return fmt.Sprintf("key%02d-", i) + strings.Repeat("x", 600) }

// T6: a table with an index over long keys (multi-level: interior cells with overflow chains of their own)
func T6(n int) dbgen.Table {
	t := dbgen.Table{Name: "lk", SQL: "CREATE TABLE lk (k TEXT, v)", NCols: 2, ColNames: []string{"k", "v"}, RowidAlias: -1,
		Defaults: []interface{}{nil, nil}, ColColl: []string{"", ""}}
	for i := 0; i < n; i++ {
		t.Rows = append(t.Rows, dbgen.Row{Rowid: int64(i + 1), Vals: []interface{}{c12LongKey(i), int64(i * 3)}})
	}
	t.Indexes = []dbgen.Index{{Name: "lk_k", SQL: "CREATE INDEX lk_k ON lk (k)", Cols: []dbgen.IdxCol{{Col: 0}}}}
	return t
}

func c12Images(r *ev.Run) []c12Image {
	var out []c12Image
	type cfg struct {
		n1, n2, n3, big int
	}
	cfgs := []cfg{{14, 9, 8, 0}, {40, 25, 30, 700}}
	if r.Thorough() {
		cfgs = append(cfgs, cfg{90, 60, 50, 1300})
	}
	for _, c := range cfgs {
		spec := &dbgen.Spec{PageSize: 512, Tables: []dbgen.Table{T1(rowidSet(c.n1, 2), c.big), T2(c.n2, c.big), T3(c.n3), T6(14)}}
		img, err := dbgen.Build(spec)
		if err != nil {
			r.Harness("dbgen: %v", err)
			continue
		}
		if err := Conform(spec, img); err != nil {
			r.Harness("conformance: %v", err)
			continue
		}
		r.Validated(1)
		r.StateBytes(img.Bytes)
		ops := c12Ops()
		// the lookups once more for a row that spills to overflow pages (the reads of its chain come after the walk)
		for _, row := range img.TableRows["t1"] {
			spilled := false
			for _, v := range row.Vals {
				switch x := v.(type) {
				case string:
					spilled = spilled || len(x) > 480
				case []byte:
					spilled = spilled || len(x) > 480
				}
			}
			if !spilled {
				continue
			}
			id := row.Rowid
			cols := []string{"a", "b", "c", "e"}
			ops = append(ops,
				highOp("SelectRowid(t1,spilled row)", false, func(e *Env, c *collector) error {
					r, err := e.H.SelectRowid("t1", id, cols...)
					if r != nil {
						c.add(CopyRow(r))
					}
					return err
				}),
				highOp("PKSelect(t1,spilled row)", false, func(e *Env, c *collector) error {
					return e.H.PKSelect("t1", sqlittle.Key{id}, func(r sqlittle.Row) { c.add(CopyRow(r)) }, cols...)
				}),
				lowOp("Table.Rowid(t1,spilled row)", false, func(e *Env, c *collector) error {
					tb, err := e.D.Table("t1")
					if err != nil {
						return err
					}
					rec, err := tb.Rowid(id)
					if rec != nil {
						c.add(CopyRec(rec))
					}
					return err
				}),
			)
			break
		}
		out = append(out, c12Image{desc: map[string]interface{}{"family": "T1+T2+T3", "page_size": 512, "rows": fmt.Sprint(c), "pages": img.Pages, "depth": fmt.Sprint(img.Depth)}, img: img.Bytes, ops: ops})
	}
	return out
}

func opKind(name string) string {
	for i, c := range name {
		if c == '(' {
			return name[:i]
		}
	}
	return name
}

func isPrefix(got, full [][]interface{}) bool {
	if len(got) > len(full) {
		return false
	}
	return RowsEq(got, full[:len(got)], false)
}

func runC12(r *ev.Run) {
	r.Rule = "every public read operation (low level scans/searches, the six high level selects, the rowid lookups also of a row that spills to overflow pages, schema calls, the driver query) on T1+T2+T3+T6 images (multi-level trees, overflow chains also behind the entries stored in interior index pages, nested index->table lookups) on a cold and on a warm handle x a fault at the k-th page read for every k=1..reads, as I/O error and as short read; RLock failure; a second fault at every later read wherever the operation kept reading after the first; oracle: error non-nil and delivered rows are a prefix of the fault-free rows. non-trivial = runs in which the fault was reached"
	images := c12Images(r)
	type job struct {
		im   *c12Image
		op   int
		warm bool
	}
	var jobs []job
	for i := range images {
		for o := range images[i].ops {
			jobs = append(jobs, job{&images[i], o, false}, job{&images[i], o, true})
		}
	}
	ev.Parallel(len(jobs), func(i int) {
		j := jobs[i]
		op := j.im.ops[j.op]
		c12One(r, j.im, op, j.warm)
	})
}

func c12One(r *ev.Run, im *c12Image, op Op, warm bool) {
	fp := &vpager.FaultPager{P: vpager.NewMem(im.img)}
	h, d, err := vpager.Open(fp)
	if err != nil {
		r.Harness("open: %v", err)
		return
	}
	e := &Env{H: h, D: d}
	fp.Arm(0, vpager.FaultNone)
	base := op.Run(e, 0)
	if base.Err != nil {
		// operations that legitimately fail without faults (e.g. SelectRowid on a WITHOUT ROWID table) are not judged
		r.Outcome("baseline-error:" + opKind(op.Name))
		return
	}
	reads := fp.N
	if warm {
		fp.Arm(0, vpager.FaultNone)
		again := op.Run(e, 0)
		if again.Err != nil || !RowsEq(again.Rows, base.Rows, false) {
			r.Violation("C12:warm-differs", fmt.Sprintf("%s: second fault-free run differs: err=%v", op.Name, again.Err), im.desc)
			return
		}
		reads = fp.N
	}
	mode := "cold"
	if warm {
		mode = "warm"
	}
	fresh := func() (*Env, *vpager.FaultPager) {
		if warm {
			return e, fp
		}
		nfp := &vpager.FaultPager{P: vpager.NewMem(im.img)}
		nh, nd, err := vpager.Open(nfp)
		if err != nil {
			return nil, nil
		}
		return &Env{H: nh, D: nd}, nfp
	}
	judge := func(res OpResult, art map[string]interface{}, kindS string, hit int, p interface{}) {
		r.Eval(1)
		r.Trans(1)
		if p != nil {
			r.Violation("C12:panic:"+opKind(op.Name), fmt.Sprintf("%s with %s: panic %v", op.Name, kindS, p), art)
			return
		}
		if hit == 0 {
			r.Outcome("fault-not-reached")
			return
		}
		r.NontrivialN(1)
		if res.Err == nil {
			cls := "complete"
			if len(res.Rows) < len(base.Rows) {
				cls = "rows-missing"
			} else if !RowsEq(res.Rows, base.Rows, false) {
				cls = "rows-differ"
			}
			r.Outcome("swallowed:" + cls)
			r.Violation("C12:swallowed:"+opKind(op.Name)+":"+cls, fmt.Sprintf("%s (%s handle) with %s: returns nil error; %d rows delivered, fault-free %d", op.Name, mode, kindS, len(res.Rows), len(base.Rows)), art)
			return
		}
		r.Outcome("reported")
		if !isPrefix(res.Rows, base.Rows) {
			r.Violation("C12:not-a-prefix:"+opKind(op.Name), fmt.Sprintf("%s (%s handle) with %s: error %v but the %d delivered rows are not a prefix of the fault-free result", op.Name, mode, kindS, res.Err, len(res.Rows)), art)
		}
	}
	for _, kind := range []vpager.FaultKind{vpager.FaultError, vpager.FaultShort} {
		kindS := "I/O error"
		if kind == vpager.FaultShort {
			kindS = "short read"
		}
		for k := 1; k <= reads; k++ {
			ee, ff := fresh()
			if ee == nil {
				return
			}
			ff.Arm(k, kind)
			art := map[string]interface{}{"image": im.desc, "op": op.Name, "handle": mode, "fault": kindS, "k": k, "reads_fault_free": reads}
			if k == 3 && kind == vpager.FaultError && !warm {
				r.Sample(art)
			}
			var res OpResult
			p := Safely(func() { res = op.Run(ee, 0) })
			judge(res, art, fmt.Sprintf("%s at page read %d of %d", kindS, k, reads), ff.Hit, p)
			after := ff.N
			if res.Err != nil || p != nil {
				// the same handle must still work afterwards (and must not have cached garbage or a truncated listing)
				ff.Arm(0, vpager.FaultNone)
				again := op.Run(ee, 0)
				r.Trans(1)
				// a handle that keeps reporting the error is within the property; what must not happen is
				// success with a different result (or "no such table" for a table that exists: a silently
				// truncated listing is rows omitted one level up)
				if again.Err == nil && !RowsEq(again.Rows, base.Rows, false) {
					r.Violation("C12:after-fault-differs:"+opKind(op.Name), fmt.Sprintf("%s: after a reported %s at read %d the same handle succeeds with %d rows (fault-free: %d)", op.Name, kindS, k, len(again.Rows), len(base.Rows)), art)
				} else if again.Err != nil && (strings.Contains(again.Err.Error(), "no such table") || strings.Contains(again.Err.Error(), "no such index")) {
					r.Violation("C12:after-fault-object-lost:"+opKind(op.Name), fmt.Sprintf("%s: after a reported %s at read %d the same handle claims: %v", op.Name, kindS, k, again.Err), art)
				}
			}
			// second deviation: only where the operation kept reading after the first
			if after > k && kind == vpager.FaultError {
				lim := after
				if !r.Thorough() && lim > k+6 {
					lim = k + 6
					r.Set("second_fault_window", "quick: the 6 reads following the first fault")
				}
				for k2 := k + 1; k2 <= lim; k2++ {
					e2, f2 := fresh()
					if e2 == nil {
						return
					}
					f2.Arm(k, kind)
					f2.K2 = k2
					art2 := map[string]interface{}{"image": im.desc, "op": op.Name, "handle": mode, "fault": kindS, "k": k, "k2": k2}
					var res2 OpResult
					p2 := Safely(func() { res2 = op.Run(e2, 0) })
					judge(res2, art2, fmt.Sprintf("%s at page reads %d and %d", kindS, k, k2), f2.Hit, p2)
					if warm {
						f2.Arm(0, vpager.FaultNone)
						op.Run(e2, 0)
					}
				}
			}
		}
	}
	// lock failure
	if op.High {
		ee, ff := fresh()
		if ee != nil {
			ff.Arm(0, vpager.FaultNone)
			ff.FailLock = true
			var res OpResult
			p := Safely(func() { res = op.Run(ee, 0) })
			ff.FailLock = false
			r.Eval(1)
			r.Trans(1)
			art := map[string]interface{}{"image": im.desc, "op": op.Name, "fault": "RLock fails"}
			if p != nil {
				r.Violation("C12:panic:"+opKind(op.Name), fmt.Sprintf("%s with failing RLock: panic %v", op.Name, p), art)
			} else if res.Err == nil || len(res.Rows) > 0 {
				r.Violation("C12:lockfail-ignored:"+opKind(op.Name), fmt.Sprintf("%s: the read lock could not be taken but the call returns err=%v with %d rows", op.Name, res.Err, len(res.Rows)), art)
			}
			if m, ok := ff.P.(*vpager.MemPager); ok && m.Locks != m.Unlocks {
				r.Violation("C12:lockfail-unbalanced:"+opKind(op.Name), fmt.Sprintf("%s: lock/unlock unbalanced after a failed RLock (%d/%d)", op.Name, m.Locks, m.Unlocks), art)
			}
		}
	}
}
