package checks

// Prepared-statement histories (kind H): every sequence up to a depth over {prepare, run a prepared
// statement, close it, another connection changes the schema or the rows}. A prepared statement that is
// run again must return what the native API returns at that moment - the columns `*` stands for included.

import (
	"database/sql"
	"fmt"
	"os"
	"path/filepath"
	"strings"
	"time"

	"verif/internal/ev"
	"verif/internal/lite"

	"github.com/alicebob/sqlittle"
)

var prepAlphabet = []struct {
	name string
	kind byte // 'P' prepare statement i, 'R' run statement i, 'X' close statement i, 'W' writer
	i    int
	sql  string
}{
	{"prepare#0(SELECT * FROM p)", 'P', 0, "SELECT * FROM p"},
	{"prepare#1(SELECT v, id FROM p)", 'P', 1, "SELECT v, id FROM p"},
	{"run#0", 'R', 0, ""},
	{"run#1", 'R', 1, ""},
	{"close#0", 'X', 0, ""},
	{"writer: add a column", 'W', 0, "ALTER TABLE p ADD COLUMN x%d DEFAULT 'dx'"},
	{"writer: insert", 'W', 0, "INSERT INTO p (v) VALUES ('new%d')"},
	{"writer: drop column w", 'W', 1, "ALTER TABLE p DROP COLUMN w"},
	{"writer: drop and recreate p", 'W', 0, "DROP TABLE p; CREATE TABLE p (v, id INTEGER PRIMARY KEY, z DEFAULT 'z%d'); INSERT INTO p (v) VALUES ('r1'), ('r2')"},
}

func preparedHistories(r *ev.Run, prop string) {
	dir := ev.TmpDir("prep")
	defer os.RemoveAll(dir)
	base := filepath.Join(dir, "base.sqlite")
	l, err := lite.Open(base, "")
	if err != nil {
		r.Harness("prepared histories: %v", err)
		return
	}
	if err := l.Exec("PRAGMA page_size=512; CREATE TABLE p (id INTEGER PRIMARY KEY, v, w); INSERT INTO p VALUES (1, 'a', 10), (2, 'b', 20), (3, 'c', 30)"); err != nil {
		r.Harness("prepared histories: %v", err)
		l.Close()
		return
	}
	l.Close()
	baseBytes, _ := os.ReadFile(base)
	depth := 5
	if r.Thorough() {
		depth = 6
	}
	r.Set("prepared_history_depth", depth)
	n := len(prepAlphabet)
	valid := func(seq []int) bool {
		open := [2]bool{}
		dropped := false
		for _, o := range seq {
			a := prepAlphabet[o]
			switch a.kind {
			case 'P':
				if open[a.i] {
					return false
				}
				open[a.i] = true
			case 'R':
				if !open[a.i] {
					return false
				}
			case 'X':
				if !open[a.i] {
					return false
				}
				open[a.i] = false
			case 'W':
				if a.i == 1 {
					if dropped {
						return false
					}
					dropped = true
				}
			}
		}
		return true
	}
	var seqs [][]int
	var rec func(seq []int)
	rec = func(seq []int) {
		if !valid(seq) {
			return
		}
		if len(seq) > 0 && prepAlphabet[seq[len(seq)-1]].kind == 'R' {
			seqs = append(seqs, append([]int{}, seq...)) // only sequences that end in a run are worth running
		}
		if len(seq) < depth {
			for o := 0; o < n; o++ {
				rec(append(append([]int{}, seq...), o))
			}
		}
	}
	rec(nil)
	r.Set("prepared_histories", len(seqs))
	ev.Parallel(len(seqs), func(si int) {
		if poolHung.Load() {
			return
		}
		seq := seqs[si]
		names := make([]string, len(seq))
		for i, o := range seq {
			names[i] = prepAlphabet[o].name
		}
		path := filepath.Join(dir, fmt.Sprintf("h%d.sqlite", si))
		os.WriteFile(path, baseBytes, 0o644)
		defer os.Remove(path)
		art := map[string]interface{}{"family": "prepared-history", "sequence": names}
		r.Eval(1)
		r.Trans(len(seq))
		r.State(strings.Join(names, ";"))
		var sig, what string
		fail := func(s, w string) {
			if sig == "" {
				sig, what = s, w
			}
		}
		ok := ev.Within(2*time.Minute, func() {
			db, err := sql.Open("sqlittle", path)
			if err != nil {
				fail(prop+":prepared-history:open", err.Error())
				return
			}
			defer db.Close()
			db.SetMaxOpenConns(1)
			var stmts [2]*sql.Stmt
			var text [2]string
			defer func() {
				for _, s := range stmts {
					if s != nil {
						s.Close()
					}
				}
			}()
			wrote := 0
			for _, o := range seq {
				a := prepAlphabet[o]
				switch a.kind {
				case 'P':
					st, err := db.Prepare(a.sql)
					if err != nil {
						// the table may be gone or changed: the native API decides at run time; a Prepare that fails is
						// only wrong when the native select works
						if _, nerr := prepNative(path, a.sql); nerr == nil {
							fail(prop+":prepared-history:prepare", fmt.Sprintf("%v: Prepare(%q): %v", names, a.sql, err))
						}
						return
					}
					stmts[a.i], text[a.i] = st, a.sql
				case 'X':
					stmts[a.i].Close()
					stmts[a.i] = nil
				case 'W':
					wrote++
					lw, err := lite.Open(path, "")
					if err != nil {
						return
					}
					werr := lw.Exec(strings.ReplaceAll(a.sql, "%d", fmt.Sprint(wrote)))
					lw.Close()
					if werr != nil {
						return // e.g. the column is gone already: not a sequence of this family
					}
				case 'R':
					want, nerr := prepNative(path, text[a.i])
					rows, err := stmts[a.i].Query()
					var got prepResult
					if err == nil {
						got.cols, _ = rows.Columns()
						for rows.Next() {
							vals := make([]interface{}, len(got.cols))
							ptrs := make([]interface{}, len(vals))
							for i := range vals {
								ptrs[i] = &vals[i]
							}
							if err = rows.Scan(ptrs...); err != nil {
								break
							}
							got.rows = append(got.rows, vals)
						}
						if err == nil {
							err = rows.Err()
						}
						rows.Close()
					}
					if wrote > 0 {
						r.NontrivialN(1)
					}
					switch {
					case nerr != nil && err == nil:
						fail(prop+":prepared-history:error-missing", fmt.Sprintf("%v: the prepared %q returns %d rows and no error; the native API at that moment: %v", names, text[a.i], len(got.rows), nerr))
					case nerr == nil && err != nil:
						fail(prop+":prepared-history:error", fmt.Sprintf("%v: the prepared %q fails: %v; the native API at that moment returns %d rows", names, text[a.i], err, len(want.rows)))
					case nerr == nil && strings.Join(got.cols, ",") != strings.Join(want.cols, ","):
						fail(prop+":prepared-history:columns", fmt.Sprintf("%v: the prepared %q has columns %v; the native API at that moment: %v", names, text[a.i], got.cols, want.cols))
					case nerr == nil && !RowsEq(got.rows, want.rows, false):
						fail(prop+":prepared-history:rows", fmt.Sprintf("%v: the prepared %q: %s", names, text[a.i], firstDiffSafe(got.rows, want.rows)))
					}
					if sig != "" {
						return
					}
				}
			}
		})
		if !ok {
			if !poolHung.Swap(true) {
				r.NotExhaustive("prepared histories stopped at the first sequence that did not return")
				r.Violation(prop+":prepared-history:hang", fmt.Sprintf("%v does not finish within 2 minutes", names), art)
			}
			return
		}
		if sig != "" {
			r.Violation(sig, what, art)
		}
	})
}

type prepResult struct {
	cols []string
	rows [][]interface{}
}

// prepNative: what the native API returns for the statement right now (a fresh handle)
func prepNative(path, q string) (prepResult, error) {
	var res prepResult
	h, err := sqlittle.Open(path)
	if err != nil {
		return res, err
	}
	defer h.Close()
	// q is "SELECT <list> FROM p"
	list := strings.TrimSpace(strings.TrimSuffix(strings.TrimPrefix(q, "SELECT "), " FROM p"))
	if list == "*" {
		res.cols, err = h.Columns("p")
		if err != nil {
			return res, err
		}
	} else {
		for _, c := range strings.Split(list, ",") {
			res.cols = append(res.cols, strings.TrimSpace(c))
		}
	}
	res.rows, err = SelectAll(h, "p", res.cols...)
	return res, err
}
