package checks

// C14 — Records, varints and spilled payloads decode exactly per the file
// format. Kind S: exhaustive payload lengths on the smallest page sizes,
// threshold neighbourhoods on the others, every serial type and varint
// length; files built by the independent encoder and by real SQLite.

import (
	"bytes"
	"fmt"
	"github.com/alicebob/sqlittle"
	"math"
	"strings"

	"verif/internal/dbgen"
	"verif/internal/ev"
	"verif/internal/lite"
	"verif/internal/ref"
	"verif/internal/vpager"

	sdb "github.com/alicebob/sqlittle/db"
)

func init() { Registry["C14"] = Check{Level: "model_checking", Fn: runC14} }

func c14Payload(L int, text bool, seed int) interface{} {
	b := make([]byte, L)
	for i := range b {
		b[i] = byte('a' + (i*7+seed)%26)
	}
	if L > 0 {
		b[L-1] = byte('A' + seed%26) // make the last byte (end of the overflow chain) significant
	}
	if text {
		// text is stored and returned byte for byte, also when it is not well-formed UTF-8
		if L >= 4 && seed%2 == 1 {
			b[L/2] = 0xff
			b[1] = 0xc3
		}
		return string(b)
	}
	return b
}

// thresholds: value lengths around every point where the local/overflow
// split changes, for the first `chains` overflow page counts
func c14Thresholds(ps int, chains int) []int {
	u := ps
	set := map[int]bool{}
	add := func(p int) {
		for d := -8; d <= 3; d++ {
			if p+d >= 0 {
				set[p+d] = true
			}
		}
	}
	m := ((u-12)*32)/255 - 23
	for _, x := range []int{u - 35, ((u-12)*64)/255 - 23} {
		add(x)
		for n := 0; n <= chains; n++ {
			add(m + n*(u-4))
			add(m + n*(u-4) + (x - m))
			add(x + n*(u-4))
		}
	}
	add(0)
	add(127)
	add(128)
	out := []int{}
	for k := range set {
		out = append(out, k)
	}
	sortInts(out)
	return out
}

func sortInts(a []int) {
	for i := 1; i < len(a); i++ {
		for j := i; j > 0 && a[j] < a[j-1]; j-- {
			a[j], a[j-1] = a[j-1], a[j]
		}
	}
}

const c14PSQL = `CREATE TABLE p (id INTEGER PRIMARY KEY, v)`

// one image holding rows with the given value lengths (table cell + index cell each)
func c14LengthSpec(ps int, lengths []int, text bool, lay dbgen.Layout) *dbgen.Spec {
	t := dbgen.Table{Name: "p", SQL: c14PSQL, NCols: 2, ColNames: []string{"id", "v"}, RowidAlias: 0, Defaults: []interface{}{nil, nil}, Layout: lay}
	for _, L := range lengths {
		t.Rows = append(t.Rows, dbgen.Row{Rowid: int64(L) + 1, Vals: []interface{}{nil, c14Payload(L, text, L)}})
	}
	t.Indexes = []dbgen.Index{{Name: "p_v", SQL: "CREATE INDEX p_v ON p (v)", Cols: []dbgen.IdxCol{{Col: 1}}, Layout: lay}}
	return &dbgen.Spec{PageSize: ps, Tables: []dbgen.Table{t}}
}

func runC14(r *ev.Run) {
	r.Rule = "(i) page sizes 512 (quick) and 1024 (thorough): every value length 0..3*pagesize as the payload of a table cell and of an index cell, text and blob, overflow chains contiguous and scattered; other page sizes: every length within -8..+3 of each local/overflow threshold (X, M+n(U-4), K<=X flips) for the first 3 overflow page counts; (ii) every serial type: integers at min/min+1/-1/max-1/max and both sides of every width boundary, also stored in non-minimal widths, constants 0/1, real bit patterns, text/blob lengths at the 1/2/3-byte serial type boundaries; (iii) varints of every length 1..9 in rowids, payload sizes, header sizes (records of 1..300 columns) and serial types; each family built by the independent encoder (SQLite must read the same values: conformance) and by real SQLite from the same values; read through Select, Table.Scan and Index.Scan (after keyed scans that start in the middle of the index). non-trivial = cases with overflow pages or multi-byte varints; dense pages: tables, an index and a WITHOUT ROWID table of records without a body byte (NULL, 0, 1, empty text, empty blob) written by SQLite in key order at page sizes 512, 1024 and 4096; every row of the length / value families is read again by rowid lookup (SelectRowid, Table.Rowid) and must decode like the scan"
	// ---- (i) lengths
	type lenJob struct {
		ps      int
		lengths []int
		text    bool
		lay     dbgen.Layout
	}
	var jobs []lenJob
	exh := []int{512}
	if r.Thorough() {
		exh = []int{512, 1024}
	}
	for _, ps := range exh {
		var all []int
		for L := 0; L <= 3*ps; L++ {
			all = append(all, L)
		}
		for i := 0; i < len(all); i += 40 {
			j := i + 40
			if j > len(all) {
				j = len(all)
			}
			for v := 0; v < 2; v++ {
				jobs = append(jobs, lenJob{ps, all[i:j], v == 0, layoutVariants[v]})
			}
		}
	}
	r.Set("exhaustive_length_page_sizes", exh)
	thrSizes := PageSizes
	if !r.Thorough() {
		thrSizes = []int{512, 1024, 2048, 4096, 8192}
	}
	r.Set("threshold_page_sizes", thrSizes)
	for _, ps := range thrSizes {
		th := c14Thresholds(ps, 3)
		for i := 0; i < len(th); i += 24 {
			j := i + 24
			if j > len(th) {
				j = len(th)
			}
			jobs = append(jobs, lenJob{ps, th[i:j], i%48 == 0, layoutVariants[(i/24)%2]})
		}
	}
	ev.Parallel(len(jobs), func(i int) {
		j := jobs[i]
		spec := c14LengthSpec(j.ps, j.lengths, j.text, j.lay)
		img, err := dbgen.Build(spec)
		if err != nil {
			r.Harness("dbgen lengths ps=%d %v: %v", j.ps, j.lengths[:1], err)
			return
		}
		if err := Conform(spec, img); err != nil {
			r.Harness("conformance lengths ps=%d from %d: %v", j.ps, j.lengths[0], err)
			return
		}
		r.Validated(1)
		r.StateBytes(img.Bytes)
		desc := map[string]interface{}{"family": "lengths", "page_size": j.ps, "from": j.lengths[0], "to": j.lengths[len(j.lengths)-1], "text": j.text, "layout": fmt.Sprintf("%+v", j.lay), "builder": "dbgen"}
		if i == 3 {
			r.Sample(desc)
		}
		c14Read(r, img.Bytes, "p", "p_v", spec, img, desc)
		// the same values written by real SQLite
		l, err := lite.OpenMem()
		if err != nil {
			return
		}
		defer l.Close()
		l.MustExec(fmt.Sprintf("PRAGMA page_size=%d", j.ps))
		l.MustExec(c14PSQL + "; CREATE INDEX p_v ON p (v);")
		for _, row := range spec.Tables[0].Rows {
			if _, err := l.Query("INSERT INTO p VALUES (?1, ?2)", row.Rowid, row.Vals[1]); err != nil {
				r.Harness("sqlite insert: %v", err)
				return
			}
		}
		desc2 := map[string]interface{}{"family": "lengths", "page_size": j.ps, "from": j.lengths[0], "to": j.lengths[len(j.lengths)-1], "text": j.text, "builder": "sqlite"}
		simg := l.Serialize()
		r.StateBytes(simg)
		c14Read(r, simg, "p", "p_v", spec, img, desc2)
	})

	// ---- (ii)+(iii) serial types and varints
	c14Values(r)
	c14Wide(r)
	c14Dense(r)
	c14Huge(r)
}

// c14Dense: the smallest records there are - columns holding NULL, the constants 0 and 1, an empty text or an
// empty blob (no body byte), rowids below 128 and then two-byte rowids - pack more cells into a page than any
// other content: written by SQLite itself in rowid order (which fills every leaf to the last byte), one and
// two columns, with an index over them and as a WITHOUT ROWID table. Page sizes 512, 1024 and 4096.
func c14Dense(r *ev.Run) {
	vals := []string{"NULL", "0", "1", "''", "x''"}
	for _, ps := range []int{512, 1024, 4096} {
		l, err := lite.OpenMem()
		if err != nil {
			r.Harness("lite: %v", err)
			return
		}
		l.MustExec(fmt.Sprintf("PRAGMA page_size=%d", ps))
		l.MustExec("CREATE TABLE d1 (v); CREATE TABLE d2 (v, w); CREATE TABLE dw (k INTEGER PRIMARY KEY, v) WITHOUT ROWID")
		n := 400
		if ps == 4096 {
			n = 1500
		}
		l.MustExec("BEGIN")
		for i := 0; i < n; i++ {
			l.MustExec(fmt.Sprintf("INSERT INTO d1 VALUES (%s); INSERT INTO d2 VALUES (%s, %s); INSERT INTO dw VALUES (%d, %s)", vals[i%5], vals[i%5], vals[(i/5)%5], i, vals[i%5]))
		}
		l.MustExec("COMMIT; CREATE INDEX d1_v ON d1 (v)")
		// rowid varints of every length next to each other on one leaf, incl. neighbours 2^63 and more apart
		l.MustExec("CREATE TABLE far (id INTEGER PRIMARY KEY, v); INSERT INTO far VALUES (-9223372036854775808, 'min'), (9223372036854775807, 'max'); CREATE TABLE far2 (id INTEGER PRIMARY KEY, v); INSERT INTO far2 VALUES (-9223372036854775808, 'min'), (0, 'zero'), (127, 'a'), (128, 'b'), (16383, 'c'), (16384, 'd'), (4611686018427387904, 'e'), (9223372036854775807, 'max')")
		img := l.Serialize()
		r.Validated(1)
		r.StateBytes(img)
		desc := map[string]interface{}{"family": "dense", "page_size": ps, "rows": n, "builder": "sqlite"}
		h, _, _, err := vpager.OpenImage(img)
		if err != nil {
			r.Violation("C14:open", fmt.Sprintf("database written by SQLite refused: %v", err), desc)
			l.Close()
			continue
		}
		for _, q := range []struct {
			table string
			cols  []string
			sql   string
			index string
		}{
			{"d1", []string{"rowid", "v"}, "SELECT rowid, v FROM d1 ORDER BY rowid", ""},
			{"d2", []string{"rowid", "v", "w"}, "SELECT rowid, v, w FROM d2 ORDER BY rowid", ""},
			{"dw", []string{"k", "v"}, "SELECT k, v FROM dw ORDER BY k", ""},
			{"d1", []string{"v", "rowid"}, "SELECT v, rowid FROM d1 ORDER BY v, rowid", "d1_v"},
			{"far", []string{"id", "v"}, "SELECT id, v FROM far ORDER BY id", ""},
			{"far2", []string{"id", "v"}, "SELECT id, v FROM far2 ORDER BY id", ""},
		} {
			want, err := l.Query(q.sql)
			if err != nil {
				r.Harness("dense oracle: %v", err)
				continue
			}
			var got [][]interface{}
			if q.index == "" {
				got, err = SelectAll(h, q.table, q.cols...)
			} else {
				got, err = IndexedAll(h, q.table, q.index, q.cols...)
			}
			r.Eval(len(want))
			r.NontrivialN(len(want))
			r.Trans(1)
			if err != nil {
				r.Violation("C14:select-error", fmt.Sprintf("%s on a database written by SQLite (dense pages): %v", q.table, err), desc)
				continue
			}
			if !RowsEq(got, want, true) {
				r.Violation("C14:table-values:dense", q.table+" decodes differently: "+firstDiff(got, want), desc)
			}
		}
		l.Close()
	}
}

// c14Read reads table p and index p_v of image and compares with the
// logical rows of spec (single table)
func c14Read(r *ev.Run, image []byte, table, index string, spec *dbgen.Spec, img *dbgen.Image, desc map[string]interface{}) {
	t := &spec.Tables[0]
	rows := img.TableRows[t.Name]
	h, d, _, err := vpager.OpenImage(image)
	if err != nil {
		r.Violation("C14:open", fmt.Sprintf("well-formed image refused: %v", err), desc)
		return
	}
	cols := append([]string{"rowid"}, t.ColNames...)
	want, _ := projectLogical(t, rows, cols)
	var got [][]interface{}
	if p := Safely(func() { got, err = SelectAll(h, table, cols...) }); p != nil {
		r.Violation("C14:panic", fmt.Sprintf("Select panics: %v", p), desc)
		return
	}
	r.Eval(len(rows))
	r.Trans(1)
	r.Outcome(fmt.Sprintf("%v/%v/spill=%v", desc["family"], desc["builder"], img.Spill[t.Name] > 0))
	for _, row := range rows {
		// count cases that reach the mechanism
		for _, v := range row.Vals {
			switch x := ref.Plain(v).(type) {
			case string:
				if len(x) > 60 {
					r.NontrivialN(1)
				}
			case []byte:
				if len(x) > 60 {
					r.NontrivialN(1)
				}
			case int64:
				if x > 127 || x < -128 {
					r.NontrivialN(1)
				}
			}
		}
	}
	if err != nil {
		r.Violation("C14:select-error", fmt.Sprintf("Select on a well-formed image: %v", err), desc)
		return
	}
	if !RowsEq(got, want, desc["builder"] == "sqlite") {
		r.Violation("C14:table-values:"+fmt.Sprint(desc["family"]), "Select decodes differently: "+firstDiff(got, want), desc)
	}
	// every row once more by rowid lookup (another path to the same cells): SelectRowid and the low level Table.Rowid
	{
		for i, row := range rows {
			if i >= len(want) {
				break
			}
			var one sqlittle.Row
			var lerr error
			if p := Safely(func() { one, lerr = h.SelectRowid(table, row.Rowid, cols...) }); p != nil {
				r.Violation("C14:panic", fmt.Sprintf("SelectRowid(%d) panics: %v", row.Rowid, p), desc)
				return
			}
			r.Trans(1)
			if lerr != nil || one == nil {
				r.Violation("C14:rowid-lookup-error", fmt.Sprintf("SelectRowid(%d) on a well-formed image: row found=%v err=%v (the scan decodes the row)", row.Rowid, one != nil, lerr), desc)
				return
			}
			if !RowsEq([][]interface{}{CopyRow(one)}, want[i:i+1], desc["builder"] == "sqlite") {
				r.Violation("C14:rowid-lookup-values:"+fmt.Sprint(desc["family"]), fmt.Sprintf("SelectRowid(%d) decodes differently from the scan: %s", row.Rowid, firstDiff([][]interface{}{CopyRow(one)}, want[i:i+1])), desc)
				return
			}
		}
		d.RLock()
		tb, terr := d.Table(table)
		if terr == nil {
			for _, row := range rows {
				rec, rerr := tb.Rowid(row.Rowid)
				r.Trans(1)
				if rerr != nil || rec == nil {
					d.RUnlock()
					r.Violation("C14:rowid-lookup-error", fmt.Sprintf("Table.Rowid(%d) on a well-formed image: record found=%v err=%v (the scan decodes the row)", row.Rowid, rec != nil, rerr), desc)
					return
				}
			}
		}
		d.RUnlock()
	}
	if index == "" {
		return
	}
	// index cells
	d.RLock()
	defer d.RUnlock()
	in, err := d.Index(index)
	if err != nil {
		r.Violation("C14:index-open", fmt.Sprintf("%v", err), desc)
		return
	}
	// a keyed scan that starts in the middle comes first: what it leaves in the page cache must not change
	// how the cells decode afterwards
	if wi := img.IndexRows[index]; len(wi) > 1 && len(wi[len(wi)/2]) > 0 {
		in.ScanMin(sdb.Key{{V: wi[len(wi)/2][0]}}, func(rec sdb.Record) bool { return false })
		in.ScanEq(sdb.Key{{V: wi[len(wi)-1][0]}}, func(rec sdb.Record) bool { return false })
	}
	var recs [][]interface{}
	err = in.Scan(func(rec sdb.Record) bool { recs = append(recs, CopyRec(rec)); return false })
	r.Trans(1)
	if err != nil {
		r.Violation("C14:index-scan-error", fmt.Sprintf("Index.Scan on a well-formed image: %v", err), desc)
		return
	}
	wantIx := img.IndexRows[index]
	if !RowsEq(recs, wantIx, false) {
		r.Violation("C14:index-values:"+fmt.Sprint(desc["family"]), "Index.Scan decodes differently: "+firstDiff(recs, wantIx), desc)
	}
}

func firstDiff(got, want [][]interface{}) string {
	if len(got) != len(want) {
		return fmt.Sprintf("%d rows, want %d", len(got), len(want))
	}
	for i := range got {
		if !RowEq(got[i], want[i], true) {
			g, w := RowS(got[i]), RowS(want[i])
			if len(g) > 300 {
				g = g[:140] + "..." + g[len(g)-140:]
			}
			if len(w) > 300 {
				w = w[:140] + "..." + w[len(w)-140:]
			}
			return fmt.Sprintf("row %d: got %s want %s", i, g, w)
		}
	}
	return "?"
}

func c14Ints() []int64 {
	set := map[int64]bool{}
	for _, w := range []uint{8, 16, 24, 32, 48, 64} {
		var min, max int64
		if w == 64 {
			min, max = math.MinInt64, math.MaxInt64
		} else {
			min, max = -(int64(1) << (w - 1)), int64(1)<<(w-1)-1
		}
		for _, v := range []int64{min, min + 1, max - 1, max} {
			set[v] = true
		}
		if w < 64 {
			set[min-1] = true
			set[max+1] = true
			set[int64(1)<<w-1] = true // all ones in this width: -1 if sign handling is off
			set[int64(1)<<w] = true
		}
	}
	for _, v := range []int64{-1, 0, 1, 2, -2, 255, 256, 65535, 65536, 16777215, 16777216, 0x7fffff, 0x800000, 0xffffff, -0x800001} {
		set[v] = true
	}
	var out []int64
	for k := range set {
		out = append(out, k)
	}
	for i := 1; i < len(out); i++ {
		for j := i; j > 0 && out[j] < out[j-1]; j-- {
			out[j], out[j-1] = out[j-1], out[j]
		}
	}
	return out
}

func c14Values(r *ev.Run) {
	var vals []interface{}
	for _, i := range c14Ints() {
		vals = append(vals, i)
	}
	reals := []float64{0, math.Copysign(0, -1), 1.5, -1.5, math.SmallestNonzeroFloat64, -math.SmallestNonzeroFloat64, 2.2250738585072014e-308, math.MaxFloat64, -math.MaxFloat64,
		math.Inf(1), math.Inf(-1), 1 << 53, 1<<53 + 2, 9223372036854775808, -9223372036854775808, 0.1, 1e-300, 1e300, 3.0, 1e15, 123456789.125}
	for _, f := range reals {
		vals = append(vals, f)
	}
	for _, n := range []int{0, 1, 2, 56, 57, 58, 59, 63, 64, 127, 128, 8184, 8185, 8186, 8187} {
		vals = append(vals, c14Payload(n, true, n), c14Payload(n, false, n))
	}
	vals = append(vals, nil, "é", "日本語", "a\x00b", []byte{0}, []byte{0xff, 0x00, 0xff})
	sizes := []int{512, 4096}
	if r.Thorough() {
		sizes = PageSizes
	}
	// rowids covering every varint length
	var rowids []int64
	for k := uint(0); k <= 8; k++ {
		rowids = append(rowids, int64(1)<<(7*k)-1+int64(k), int64(1)<<(7*k)+int64(k))
	}
	rowids = append(rowids, -1, -2, math.MinInt64, math.MaxInt64, math.MinInt64+1, math.MaxInt64-1, -(1 << 40))
	for _, ps := range sizes {
		for variant := 0; variant < 3; variant++ {
			// variant 0: minimal widths; 1: ints stored one width larger; 2: ints stored as 8 bytes
			t := dbgen.Table{Name: "p", SQL: c14PSQL, NCols: 2, ColNames: []string{"id", "v"}, RowidAlias: 0, Defaults: []interface{}{nil, nil}}
			for i, v := range vals {
				id := int64(i + 1)
				if i < len(rowids) {
					id = rowids[i]
				} else {
					id = int64(1000 + i)
				}
				sv := v
				if iv, ok := v.(int64); ok && variant > 0 {
					min, _ := minSerial(iv)
					s := min + 1
					if variant == 2 || s > 6 {
						s = 6
					}
					if min <= 6 {
						sv = ref.IntAs{V: iv, Serial: s}
					}
				}
				t.Rows = append(t.Rows, dbgen.Row{Rowid: id, Vals: []interface{}{nil, sv}})
			}
			t.Indexes = []dbgen.Index{{Name: "p_v", SQL: "CREATE INDEX p_v ON p (v)", Cols: []dbgen.IdxCol{{Col: 1}}}}
			spec := &dbgen.Spec{PageSize: ps, Tables: []dbgen.Table{t}}
			img, err := dbgen.Build(spec)
			if err != nil {
				r.Harness("dbgen values: %v", err)
				continue
			}
			if err := Conform(spec, img); err != nil {
				r.Harness("conformance values ps=%d variant=%d: %v", ps, variant, err)
				continue
			}
			r.Validated(1)
			r.StateBytes(img.Bytes)
			desc := map[string]interface{}{"family": "values", "page_size": ps, "int_width_variant": variant, "builder": "dbgen", "values": len(vals)}
			if variant == 1 && ps == 512 {
				r.Sample(desc)
			}
			c14Read(r, img.Bytes, "p", "p_v", spec, img, desc)
			if variant == 0 {
				l, err := lite.OpenMem()
				if err != nil {
					continue
				}
				l.MustExec(fmt.Sprintf("PRAGMA page_size=%d", ps))
				l.MustExec(c14PSQL + "; CREATE INDEX p_v ON p (v);")
				ok := true
				for _, row := range t.Rows {
					if _, err := l.Query("INSERT INTO p VALUES (?1, "+SQLLit(ref.Plain(row.Vals[1]))+")", row.Rowid); err != nil {
						r.Harness("sqlite insert %s: %v", VS(row.Vals[1]), err)
						ok = false
						break
					}
				}
				if ok {
					simg := l.Serialize()
					r.StateBytes(simg)
					c14Read(r, simg, "p", "p_v", spec, img, map[string]interface{}{"family": "values", "page_size": ps, "builder": "sqlite"})
				}
				l.Close()
			}
		}
	}
}

func minSerial(v int64) (int64, int) {
	switch {
	case v == 0 || v == 1:
		return 1, 1 // constants: may also be stored as a 1-byte int
	case v >= -128 && v <= 127:
		return 1, 1
	case v >= -32768 && v <= 32767:
		return 2, 2
	case v >= -8388608 && v <= 8388607:
		return 3, 3
	case v >= -2147483648 && v <= 2147483647:
		return 4, 4
	case v >= -140737488355328 && v <= 140737488355327:
		return 5, 6
	}
	return 6, 8
}

// c14Wide: records of 1..300 columns (header size varint of 1 and 2 bytes,
// header longer than the local part of the payload)
func c14Wide(r *ev.Run) {
	widths := []int{1, 2, 62, 63, 64, 125, 126, 127, 128, 129, 200, 300}
	for _, ps := range []int{512, 4096} {
		for _, n := range widths {
			var names []string
			for i := 0; i < n; i++ {
				names = append(names, fmt.Sprintf("c%d", i))
			}
			sql := "CREATE TABLE wide (" + strings.Join(names, ", ") + ")"
			t := dbgen.Table{Name: "wide", SQL: sql, NCols: n, ColNames: names, RowidAlias: -1, Defaults: make([]interface{}, n)}
			for rr := 0; rr < 3; rr++ {
				vals := make([]interface{}, n)
				for i := range vals {
					switch (i + rr) % 5 {
					case 0:
						vals[i] = int64(i * (rr + 1))
					case 1:
						vals[i] = fmt.Sprintf("s%d", i)
					case 2:
						vals[i] = nil
					case 3:
						vals[i] = float64(i) / 4
					default:
						vals[i] = c14Payload(70+i%10, true, i) // 2-byte serial types
					}
				}
				t.Rows = append(t.Rows, dbgen.Row{Rowid: int64(rr + 1), Vals: vals})
			}
			spec := &dbgen.Spec{PageSize: ps, Tables: []dbgen.Table{t}}
			img, err := dbgen.Build(spec)
			if err != nil {
				r.Harness("dbgen wide %d: %v", n, err)
				continue
			}
			if err := Conform(spec, img); err != nil {
				r.Harness("conformance wide n=%d ps=%d: %v", n, ps, err)
				continue
			}
			r.Validated(1)
			r.StateBytes(img.Bytes)
			c14ReadNamed(r, img.Bytes, spec, img, map[string]interface{}{"family": "wide", "page_size": ps, "columns": n, "builder": "dbgen"})
		}
	}
}

func c14ReadNamed(r *ev.Run, image []byte, spec *dbgen.Spec, img *dbgen.Image, desc map[string]interface{}) {
	t := &spec.Tables[0]
	h, _, _, err := vpager.OpenImage(image)
	if err != nil {
		r.Violation("C14:open", fmt.Sprintf("well-formed image refused: %v", err), desc)
		return
	}
	cols := append([]string{"rowid"}, t.ColNames...)
	want, _ := projectLogical(t, img.TableRows[t.Name], cols)
	got, err := SelectAll(h, t.Name, cols...)
	r.Eval(len(want))
	r.Trans(1)
	if t.NCols > 120 {
		r.NontrivialN(len(want))
	}
	if err != nil {
		r.Violation("C14:select-error", fmt.Sprintf("Select on a well-formed image: %v", err), desc)
		return
	}
	if !RowsEq(got, want, false) {
		r.Violation("C14:table-values:"+fmt.Sprint(desc["family"]), "Select decodes differently: "+firstDiff(got, want), desc)
	}
}

// c14Huge: values far beyond anything that fits a few pages: lengths around 2^16, 10^6, 2^20 and 2^24 (10^7 and 2^25
// thorough) as table rows and as index entries, written by SQLite, at the page sizes with the longest and the
// shortest overflow chains
func c14Huge(r *ev.Run) {
	lengths := []int{65535, 65536, 65537, 999999, 1000000, 1000001, 1048575, 1048576, 1048577, 16777217}
	sizes := []int{4096, 65536}
	if r.Thorough() {
		lengths = append(lengths, 10000001, 16777215, 16777216, 33554433)
		sizes = []int{512, 4096, 65536}
	}
	for _, ps := range sizes {
		l, err := lite.OpenMem()
		if err != nil {
			r.Harness("lite: %v", err)
			return
		}
		l.MustExec(fmt.Sprintf("PRAGMA page_size=%d", ps))
		l.MustExec("CREATE TABLE huge (id INTEGER PRIMARY KEY, v)")
		want := map[int64]int{}
		for i, L := range lengths {
			l.MustExec(fmt.Sprintf("INSERT INTO huge VALUES (%d, printf('%%.%dc', 'x') || '%d')", 2*i+1, L-len(fmt.Sprint(i)), i))
			want[int64(2*i+1)] = L
			if i%3 == 2 {
				l.MustExec(fmt.Sprintf("INSERT INTO huge VALUES (%d, zeroblob(%d))", 2*i+2, L))
				want[int64(2*i+2)] = L
			}
		}
		l.MustExec("CREATE INDEX huge_v ON huge (v)")
		img := l.Serialize()
		l.Close()
		r.Validated(1)
		desc := map[string]interface{}{"family": "huge", "page_size": ps, "lengths": lengths, "builder": "sqlite"}
		h, _, _, err := vpager.OpenImage(img)
		if err != nil {
			r.Violation("C14:open", fmt.Sprintf("database written by SQLite refused: %v", err), desc)
			continue
		}
		check := func(how string, rows [][]interface{}, err error, n int) {
			r.Eval(n)
			r.NontrivialN(n)
			r.Trans(1)
			if err != nil {
				r.Violation("C14:select-error", fmt.Sprintf("%s on a database written by SQLite with values of up to %d bytes (page size %d): %v", how, lengths[len(lengths)-1], ps, err), desc)
				return
			}
			if len(rows) != n {
				r.Violation("C14:table-values:huge", fmt.Sprintf("%s: %d rows, SQLite stored %d", how, len(rows), n), desc)
				return
			}
			for _, row := range rows {
				id, _ := row[0].(int64)
				L := want[id]
				ok := false
				switch v := row[1].(type) {
				case string:
					ok = id%2 == 1 && len(v) == L && strings.Count(v, "x") >= L-8 && strings.HasSuffix(v, fmt.Sprint((id-1)/2))
				case []byte:
					ok = id%2 == 0 && len(v) == L && len(bytes.Trim(v, "\x00")) == 0
				}
				if !ok {
					got := 0
					switch v := row[1].(type) {
					case string:
						got = len(v)
					case []byte:
						got = len(v)
					}
					r.Violation("C14:table-values:huge", fmt.Sprintf("%s: row %d decodes to a %T of %d bytes, SQLite stored %d bytes (or the content differs)", how, id, row[1], got, L), desc)
					return
				}
			}
		}
		rows, err := SelectAll(h, "huge", "id", "v")
		check("Select(huge)", rows, err, len(want))
		rows, err = IndexedAll(h, "huge", "huge_v", "id", "v")
		check("IndexedSelect(huge,huge_v)", rows, err, len(want))
		for id := range want {
			row, err := h.SelectRowid("huge", id, "id", "v")
			var rs [][]interface{}
			if row != nil {
				rs = append(rs, CopyRow(row))
			}
			check(fmt.Sprintf("SelectRowid(huge,%d)", id), rs, err, 1)
		}
		h.Close()
	}
}
