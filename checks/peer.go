package checks

// The peer process: `vcheck peer` is this same binary run as a child, holding
// a real SQLite connection and/or a sqlittle handle in ANOTHER process (POSIX
// record locks are per process), driven over a line protocol. Every command
// is one atomic step of a participant in the interleaving explorations.

import (
	"bufio"
	"encoding/json"
	"fmt"
	"os"
	"os/exec"
	"strconv"
	"strings"
	"sync"
	"syscall"

	"verif/internal/lite"

	"github.com/alicebob/sqlittle"
	sdb "github.com/alicebob/sqlittle/db"
)

func init() { Subcommands["peer"] = peerMain }

func peerMain(args []string) int {
	in := bufio.NewReaderSize(os.Stdin, 1<<20)
	out := bufio.NewWriter(os.Stdout)
	var l *lite.DB
	var h *sqlittle.DB
	var held *sdb.Database
	var raw *os.File
	var env *Env
	var eaten []int
	var savedLimit syscall.Rlimit
	reply := func(format string, a ...interface{}) {
		s := fmt.Sprintf(format, a...)
		s = strings.ReplaceAll(s, "\n", "\\n")
		out.WriteString(s + "\n")
		out.Flush()
	}
	for {
		line, err := in.ReadString('\n')
		if err != nil {
			return 0
		}
		line = strings.TrimRight(line, "\n")
		cmd, arg := line, ""
		if i := strings.IndexByte(line, ' '); i >= 0 {
			cmd, arg = line[:i], line[i+1:]
		}
		arg = strings.ReplaceAll(arg, "\\n", "\n")
		switch cmd {
		case "quit":
			return 0
		case "pid":
			reply("ok %d", os.Getpid())
		case "open":
			if l != nil {
				l.Close()
			}
			l, err = lite.Open(arg, "")
			if err != nil {
				reply("err %v", err)
				continue
			}
			l.BusyTimeout(0)
			reply("ok")
		case "legacy":
			// new databases of this connection use SQLite's legacy file format (DESC in index definitions ignored)
			if l == nil {
				reply("err no connection")
				continue
			}
			l.LegacyFormat(true)
			reply("ok")
		case "close":
			if l != nil {
				l.Close()
				l = nil
			}
			reply("ok")
		case "exec":
			if l == nil {
				reply("err no connection")
				continue
			}
			if err := l.Exec(arg); err != nil {
				if lite.IsBusy(err) {
					reply("busy %v", err)
				} else {
					reply("err %v", err)
				}
				continue
			}
			reply("ok")
		case "dump":
			if l == nil {
				reply("err no connection")
				continue
			}
			d, err := LiteDump(l)
			if err != nil {
				if lite.IsBusy(err) {
					reply("busy %v", err)
				} else {
					reply("err %v", err)
				}
				continue
			}
			reply("ok %s", d.String())
		case "query":
			if l == nil {
				reply("err no connection")
				continue
			}
			rows, err := l.Query(arg)
			if err != nil {
				reply("err %v", err)
				continue
			}
			b, _ := json.Marshal(RowsS(rows))
			reply("ok %s", b)
		// a sqlittle handle in this process
		case "lopen":
			if h != nil {
				h.Close()
			}
			h, err = sqlittle.Open(arg)
			if err != nil {
				reply("err %v", err)
				continue
			}
			reply("ok")
		case "lclose":
			if h != nil {
				h.Close()
				h = nil
			}
			reply("ok")
		// a low level sqlittle handle of this process that keeps its read lock until told to let go
		case "lhold":
			d, err := sdb.OpenFile(arg)
			if err != nil {
				reply("err %v", err)
				continue
			}
			if err := d.RLock(); err != nil {
				d.Close()
				reply("err %v", err)
				continue
			}
			held = d
			reply("ok")
		case "lrelease":
			if held != nil {
				held.RUnlock()
				held.Close()
				held = nil
			}
			reply("ok")
		// a bare fcntl write lock on SQLite's shared byte range WITHOUT the pending byte: what SQLite >= 3.41 holds while
		// it rolls a hot journal back, and what any other program using the locking protocol loosely may hold
		case "rawlock":
			if raw != nil {
				raw.Close()
				raw = nil
			}
			f, err := os.OpenFile(arg, os.O_RDWR, 0)
			if err != nil {
				reply("err %v", err)
				continue
			}
			lk := syscall.Flock_t{Type: syscall.F_WRLCK, Whence: 0, Start: 0x40000002, Len: 510}
			if err := syscall.FcntlFlock(f.Fd(), syscall.F_SETLK, &lk); err != nil {
				f.Close()
				if err == syscall.EAGAIN || err == syscall.EACCES {
					reply("busy")
				} else {
					reply("err %v", err)
				}
				continue
			}
			raw = f
			reply("ok")
		case "rawunlock":
			if raw != nil {
				raw.Close()
				raw = nil
			}
			reply("ok")
		// the working directory of this process (a handle opened by a relative name must not care)
		case "chdir":
			if err := os.Chdir(arg); err != nil {
				reply("err %v", err)
				continue
			}
			reply("ok")
		// use up every file descriptor this process may have (and give them back)
		case "eatfds":
			var lim syscall.Rlimit
			syscall.Getrlimit(syscall.RLIMIT_NOFILE, &lim)
			savedLimit = lim
			if lim.Cur > 256 {
				lim.Cur = 256
				syscall.Setrlimit(syscall.RLIMIT_NOFILE, &lim)
			}
			for {
				fd, err := syscall.Open("/dev/null", syscall.O_RDONLY, 0)
				if err != nil {
					break
				}
				eaten = append(eaten, fd)
			}
			reply("ok %d", len(eaten))
		case "freefds":
			for _, fd := range eaten {
				syscall.Close(fd)
			}
			eaten = nil
			if savedLimit.Cur > 0 {
				syscall.Setrlimit(syscall.RLIMIT_NOFILE, &savedLimit)
			}
			reply("ok")
		// a handle with both API levels, for whole dumps
		case "eopen":
			if env != nil {
				env.H.Close()
				env = nil
			}
			e, err := OpenEnv(arg)
			if err != nil {
				reply("err %v", err)
				continue
			}
			env = e
			reply("ok")
		case "edump":
			if env == nil {
				reply("err no handle")
				continue
			}
			d, err := LittleDump(env.H, env.D)
			if err != nil {
				reply("err %v", err)
				continue
			}
			reply("ok %s", d.String())
		case "etables":
			if env == nil {
				reply("err no handle")
				continue
			}
			if err := env.D.RLock(); err != nil {
				reply("err %v", err)
				continue
			}
			_, err := env.D.Tables()
			env.D.RUnlock()
			if err != nil {
				reply("err %v", err)
				continue
			}
			reply("ok")
		case "eclose":
			if env != nil {
				env.H.Close()
				env = nil
			}
			reply("ok")
		case "lselect":
			if h == nil {
				reply("err no handle")
				continue
			}
			n := 0
			err := h.Select(arg, func(sqlittle.Row) { n++ }, "rowid")
			if err != nil {
				reply("err %v", err)
				continue
			}
			reply("ok %d", n)
		default:
			reply("err unknown command %q", cmd)
		}
	}
}

// Peer is the parent's handle on a peer process
type Peer struct {
	cmd *exec.Cmd
	in  *bufio.Writer
	out *bufio.Reader
	Pid int
}

func StartPeer() (*Peer, error) {
	bin := os.Getenv("VCHECK_BIN")
	if bin == "" {
		bin, _ = os.Executable()
	}
	cmd := exec.Command(bin, "peer")
	cmd.Stderr = os.Stderr
	cmd.SysProcAttr = &syscall.SysProcAttr{Pdeathsig: syscall.SIGKILL}
	stdin, err := cmd.StdinPipe()
	if err != nil {
		return nil, err
	}
	stdout, err := cmd.StdoutPipe()
	if err != nil {
		return nil, err
	}
	if err := cmd.Start(); err != nil {
		return nil, err
	}
	p := &Peer{cmd: cmd, in: bufio.NewWriter(stdin), out: bufio.NewReaderSize(stdout, 1<<20)}
	st, rest := p.Do("pid")
	if st != "ok" {
		return nil, fmt.Errorf("peer: %s %s", st, rest)
	}
	p.Pid, _ = strconv.Atoi(rest)
	peerPids.Store(p.Pid, true)
	return p, nil
}

// the processes whose locks FileLocks reports: this one and every live peer
var peerPids sync.Map

// Do sends one command; returns status (ok | busy | err) and the rest
func (p *Peer) Do(cmd string) (string, string) {
	p.in.WriteString(strings.ReplaceAll(cmd, "\n", "\\n") + "\n")
	p.in.Flush()
	line, err := p.out.ReadString('\n')
	if err != nil {
		return "err", "peer died: " + err.Error()
	}
	line = strings.TrimRight(line, "\n")
	st, rest := line, ""
	if i := strings.IndexByte(line, ' '); i >= 0 {
		st, rest = line[:i], line[i+1:]
	}
	return st, strings.ReplaceAll(rest, "\\n", "\n")
}

func (p *Peer) MustOK(cmd string) string {
	st, rest := p.Do(cmd)
	if st != "ok" {
		panic(fmt.Sprintf("peer %q: %s %s", cmd, st, rest))
	}
	return rest
}

func (p *Peer) Stop() {
	if p == nil || p.cmd == nil {
		return
	}
	peerPids.Delete(p.Pid)
	p.in.WriteString("quit\n")
	p.in.Flush()
	p.cmd.Process.Kill()
	p.cmd.Wait()
}

// ---------------------------------------------------------------- the kernel's lock table

type KLock struct {
	Write      bool
	Pid        int
	Start, End int64 // End = -1 for EOF
}

const (
	sqPending  = 0x40000000
	sqReserved = sqPending + 1
	sqShared   = sqPending + 2
	sqSharedN  = 510
)

// FileLocks returns the POSIX locks that this process and its peers hold on the file. Source:
// /proc/<pid>/fdinfo/<fd> of every descriptor of those processes that refers to the file. The kernel
// writes the "lock:" lines of one descriptor while it holds the lock list of that one inode, so every
// descriptor's list is an exact snapshot and it is a handful of lines - unlike /proc/locks, the list of
// every lock on the machine, which comes in 4 KB chunks that continue by position: under heavy lock
// traffic from other programs an entry can be skipped by every one of many reads (seen as a false
// "process holds no lock" with 30 other checks running). /proc/locks remains the fallback for a process
// whose descriptors cannot be listed.
func FileLocks(path string) ([]KLock, error) {
	var st syscall.Stat_t
	if err := syscall.Stat(path, &st); err != nil {
		return nil, err
	}
	pids := []int{os.Getpid()}
	peerPids.Range(func(k, _ interface{}) bool { pids = append(pids, k.(int)); return true })
	var out []KLock
	for _, pid := range pids {
		ls, err := fdinfoLocks(pid, &st)
		if err != nil {
			if pid != os.Getpid() {
				continue // the peer is gone: it holds nothing
			}
			return fileLocksProc(path)
		}
		out = append(out, ls...)
	}
	return out, nil
}

// fdinfoLocks: the POSIX locks process pid holds on the inode, through any of its descriptors
func fdinfoLocks(pid int, st *syscall.Stat_t) ([]KLock, error) {
	dir := fmt.Sprintf("/proc/%d/fd", pid)
	ents, err := os.ReadDir(dir)
	if err != nil {
		return nil, err
	}
	var out []KLock
	for _, e := range ents {
		var fst syscall.Stat_t
		if err := syscall.Stat(dir+"/"+e.Name(), &fst); err != nil || fst.Ino != st.Ino || fst.Dev != st.Dev {
			continue
		}
		b, err := os.ReadFile(fmt.Sprintf("/proc/%d/fdinfo/%s", pid, e.Name()))
		if err != nil {
			continue // closed meanwhile
		}
		for _, line := range strings.Split(string(b), "\n") {
			// lock:	1: POSIX  ADVISORY  READ 6274 fe:00:15802453 1073741826 1073741835
			f := strings.Fields(line)
			if len(f) < 9 || f[0] != "lock:" || f[2] != "POSIX" {
				continue
			}
			s, _ := strconv.ParseInt(f[7], 10, 64)
			e := int64(-1)
			if f[8] != "EOF" {
				e, _ = strconv.ParseInt(f[8], 10, 64)
			}
			out = append(out, KLock{Write: f[4] == "WRITE", Pid: pid, Start: s, End: e})
		}
	}
	return out, nil
}

// fileLocksProc is the former source, /proc/locks: one read() system call is one traversal of the
// kernel's lock list under its lock, i.e. an atomic snapshot - but only for what fits the kernel's
// 4 KB chunk; a longer list continues by position in the next read() and can skip entries when other
// locks come and go meanwhile. A snapshot is exact when the whole list came in one chunk; otherwise
// the union of many reads is taken.
func fileLocksProc(path string) ([]KLock, error) {
	seen := map[KLock]bool{}
	var out []KLock
	quiet := 0
	for i := 0; i < 80; i++ {
		ls, atomic, err := fileLocksOnce(path)
		if err != nil {
			return nil, err
		}
		if atomic {
			return ls, nil
		}
		added := false
		for _, l := range ls {
			if !seen[l] {
				seen[l] = true
				out = append(out, l)
				added = true
			}
		}
		if added {
			quiet = 0
		} else if quiet++; quiet >= 10 {
			break
		}
	}
	return out, nil
}

var procLocksBuf = sync.Pool{New: func() interface{} { b := make([]byte, 1<<16); return &b }}

// readProcLocks reads /proc/locks; atomic is true when everything arrived in
// the first read() call
func readProcLocks() (string, bool, error) {
	fd, err := syscall.Open("/proc/locks", syscall.O_RDONLY, 0)
	if err != nil {
		return "", false, err
	}
	defer syscall.Close(fd)
	bp := procLocksBuf.Get().(*[]byte)
	defer procLocksBuf.Put(bp)
	buf := *bp
	var sb strings.Builder
	chunks := 0
	for {
		n, err := syscall.Read(fd, buf)
		if err != nil {
			if err == syscall.EINTR {
				continue
			}
			return "", false, err
		}
		if n == 0 {
			break
		}
		chunks++
		sb.Write(buf[:n])
	}
	return sb.String(), chunks <= 1, nil
}

func fileLocksOnce(path string) ([]KLock, bool, error) {
	var st syscall.Stat_t
	if err := syscall.Stat(path, &st); err != nil {
		return nil, false, err
	}
	b, atomic, err := readProcLocks()
	if err != nil {
		return nil, false, err
	}
	var out []KLock
	want := fmt.Sprintf(":%d", st.Ino)
	for _, line := range strings.Split(string(b), "\n") {
		f := strings.Fields(line)
		// 1: POSIX  ADVISORY  READ  pid maj:min:inode start end   (blocked waiters have "->" as 2nd field)
		if len(f) < 8 || f[1] != "POSIX" {
			continue
		}
		if !strings.HasSuffix(f[5], want) {
			continue
		}
		dev := strings.Split(f[5], ":")
		if len(dev) == 3 {
			maj, _ := strconv.ParseUint(dev[0], 16, 32)
			min, _ := strconv.ParseUint(dev[1], 16, 32)
			if uint64(st.Dev) != (maj<<8|min) && uint64(st.Dev) != mkdev(maj, min) {
				continue
			}
		}
		pid, _ := strconv.Atoi(f[4])
		s, _ := strconv.ParseInt(f[6], 10, 64)
		e := int64(-1)
		if f[7] != "EOF" {
			e, _ = strconv.ParseInt(f[7], 10, 64)
		}
		out = append(out, KLock{Write: f[3] == "WRITE", Pid: pid, Start: s, End: e})
	}
	return out, atomic, nil
}

func mkdev(maj, min uint64) uint64 {
	return (maj&0xfff)<<8 | (min & 0xff) | (maj&^0xfff)<<32 | (min&^0xff)<<12
}

func covers(l KLock, from, to int64) bool {
	return l.Start <= from && (l.End == -1 || l.End >= to)
}

func overlaps(l KLock, from, to int64) bool {
	return l.Start <= to && (l.End == -1 || l.End >= from)
}

// LockState classifies what a process holds on a SQLite database file
type LockState struct {
	SharedRead  bool // READ covering the whole shared range
	AnyShared   bool // any lock overlapping the shared range
	Reserved    bool // WRITE on the reserved byte
	PendingW    bool // WRITE on the pending byte
	PendingAny  bool // any lock on the pending byte
	ExclusiveW  bool // WRITE overlapping the shared range
	Description string
}

func StateOf(locks []KLock, pid int) LockState {
	var s LockState
	var d []string
	for _, l := range locks {
		if l.Pid != pid {
			continue
		}
		k := "READ"
		if l.Write {
			k = "WRITE"
		}
		d = append(d, fmt.Sprintf("%s +%d..+%d", k, l.Start-sqPending, l.End-sqPending))
		if overlaps(l, sqShared, sqShared+sqSharedN-1) {
			s.AnyShared = true
			if l.Write {
				s.ExclusiveW = true
			} else if covers(l, sqShared, sqShared+sqSharedN-1) {
				s.SharedRead = true
			}
		}
		if overlaps(l, sqReserved, sqReserved) && l.Write {
			s.Reserved = true
		}
		if overlaps(l, sqPending, sqPending) {
			s.PendingAny = true
			if l.Write {
				s.PendingW = true
			}
		}
	}
	s.Description = strings.Join(d, ", ")
	if s.Description == "" {
		s.Description = "none"
	}
	return s
}

// SQLiteLevel names the SQLite lock level of a writer from its kernel locks
func (s LockState) SQLiteLevel() string {
	switch {
	case s.ExclusiveW:
		return "EXCLUSIVE"
	case s.PendingW:
		return "PENDING"
	case s.Reserved:
		return "RESERVED"
	case s.SharedRead:
		return "SHARED"
	}
	return "UNLOCKED"
}
