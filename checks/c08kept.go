package checks

// C08, family "kept objects": the low level API hands out *Table / *Index / *NonRowidTable values. Nothing says
// they end with the read transaction, and as long as no commit moves or redefines the object they stay usable.
// A handle keeps the three objects of its first transaction; after every commit of a row change by a real SQLite
// connection in another process its NEXT read transaction starts with a scan (or a keyed read) on one of the kept
// objects - no call that looks at sqlite_master first. Kind H: every sequence of <=2 (3 thorough) writes out of 5 x
// every choice of the object read first; oracle: a freshly opened handle's scan of the same object. A write that
// changes sqlite_master (a root page moves) ends the history: the kept objects are void then.

import (
	"fmt"
	"os"
	"path/filepath"
	"strings"

	"verif/internal/ev"

	"github.com/alicebob/sqlittle"
	sdb "github.com/alicebob/sqlittle/db"
)

func c08KeptObjects(r *ev.Run) {
	dir := ev.TmpDir("c08k")
	defer os.RemoveAll(dir)
	p, err := StartPeer()
	if err != nil {
		r.Harness("peer: %v", err)
		return
	}
	defer p.Stop()
	basePath := filepath.Join(dir, "base.sqlite")
	p.MustOK("open " + basePath)
	p.MustOK("exec PRAGMA page_size=512; CREATE TABLE t (id INTEGER PRIMARY KEY, v, pad); CREATE INDEX t_v ON t (v); CREATE TABLE w (k PRIMARY KEY, x) WITHOUT ROWID; " +
		"WITH RECURSIVE n(i) AS (SELECT 1 UNION ALL SELECT i+1 FROM n WHERE i<40) INSERT INTO t SELECT i, 'v'||(i%7), 'old-'||i||'-pppppppppppppppppppppppppppppppppppppppppppppppp' FROM n; " +
		"WITH RECURSIVE n(i) AS (SELECT 1 UNION ALL SELECT i+1 FROM n WHERE i<40) INSERT INTO w SELECT 'k'||i, 'old-'||i||'-pppppppppppppppppppppppppppppppppppppppppppppppp' FROM n")
	p.MustOK("close")
	base, _ := os.ReadFile(basePath)
	writes := []string{
		"UPDATE t SET pad = 'new-' || id || substr(pad, 5); UPDATE w SET x = 'new-' || substr(x, 5)",
		"UPDATE t SET v = 'changed' WHERE id % 3 = 0",
		"DELETE FROM t WHERE id % 5 = 0; DELETE FROM w WHERE k > 'k3'",
		"INSERT OR REPLACE INTO t VALUES (1000, 'v1', 'inserted'); INSERT OR REPLACE INTO w VALUES ('k0', 'inserted')",
		"UPDATE t SET pad = 'second-' || id; UPDATE w SET x = 'second-' || k",
	}
	depth := 2
	if r.Thorough() {
		depth = 3
	}
	var seqs [][]int
	var rec func(cur []int)
	rec = func(cur []int) {
		if len(cur) > 0 {
			seqs = append(seqs, append([]int{}, cur...))
		}
		if len(cur) == depth {
			return
		}
		for w := range writes {
			rec(append(cur, w))
		}
	}
	rec(nil)
	objects := []string{"table t", "index t_v", "table w", "rowid lookup in t", "keyed scan in t_v"}
	r.Set("kept_object_histories", len(seqs)*len(objects))
	master := func() string {
		_, rest := p.Do("query SELECT type, name, rootpage, sql FROM sqlite_master ORDER BY name")
		return rest
	}
	type kept struct {
		t  *sdb.Table
		ix *sdb.Index
		w  *sdb.Index
	}
	read := func(k kept, which int) (string, error) {
		var b strings.Builder
		var err error
		switch which {
		case 0:
			err = k.t.Scan(func(id int64, rec sdb.Record) bool { fmt.Fprintf(&b, "%d %s\n", id, RowS(CopyRec(rec))); return false })
		case 1:
			err = k.ix.Scan(func(rec sdb.Record) bool { b.WriteString(RowS(CopyRec(rec)) + "\n"); return false })
		case 2:
			err = k.w.Scan(func(rec sdb.Record) bool { b.WriteString(RowS(CopyRec(rec)) + "\n"); return false })
		case 3:
			for _, id := range []int64{1, 3, 20, 40, 1000} {
				var rec sdb.Record
				if rec, err = k.t.Rowid(id); err != nil {
					break
				}
				fmt.Fprintf(&b, "%d %s\n", id, RowS(CopyRec(rec)))
			}
		case 4:
			err = k.ix.ScanMin(sdb.Key{{V: "v3"}}, func(rec sdb.Record) bool { b.WriteString(RowS(CopyRec(rec)) + "\n"); return false })
		}
		return b.String(), err
	}
	get := func(d *sdb.Database) (kept, error) {
		var k kept
		var err error
		if k.t, err = d.Table("t"); err != nil {
			return k, err
		}
		if k.ix, err = d.Index("t_v"); err != nil {
			return k, err
		}
		k.w, err = d.NonRowidTable("w")
		return k, err
	}
	n := 0
	for _, seq := range seqs {
		for first := range objects {
			n++
			path := filepath.Join(dir, fmt.Sprintf("k%d.sqlite", n))
			os.WriteFile(path, base, 0o644)
			var names []string
			for _, w := range seq {
				names = append(names, writes[w])
			}
			art := map[string]interface{}{"family": "kept-objects", "writes": names, "read_first": objects[first]}
			r.Eval(1)
			r.Trans(len(seq) * 2)
			r.NontrivialN(1)
			r.State(fmt.Sprint("kept", seq, first))
			d, err := sdb.OpenFile(path)
			if err != nil {
				r.Harness("kept objects: open: %v", err)
				return
			}
			func() {
				defer d.Close()
				if err := d.RLock(); err != nil {
					r.Harness("kept objects: %v", err)
					return
				}
				k, err := get(d)
				if err == nil {
					// the first transaction reads everything (warm page cache)
					for which := range objects {
						if _, err = read(k, which); err != nil {
							break
						}
					}
				}
				d.RUnlock()
				if err != nil {
					r.Harness("kept objects: first transaction: %v", err)
					return
				}
				p.MustOK("open " + path)
				defer p.Do("close")
				m0 := master()
				for step, w := range seq {
					if st, rest := p.Do("exec " + writes[w]); st != "ok" {
						r.Harness("kept objects: writer: %s %s", st, rest)
						return
					}
					if master() != m0 {
						return // a root moved: the kept objects are void from here on
					}
					fresh, err := sdb.OpenFile(path)
					if err != nil {
						r.Harness("kept objects: fresh open: %v", err)
						return
					}
					fresh.RLock()
					fk, ferr := get(fresh)
					if err := d.RLock(); err != nil {
						fresh.RUnlock()
						fresh.Close()
						r.Violation("C08:kept-objects:lock", fmt.Sprintf("after %v: RLock: %v", names[:step+1], err), art)
						return
					}
					order := []int{first}
					for which := range objects {
						if which != first {
							order = append(order, which)
						}
					}
					for _, which := range order {
						var got, want string
						var gerr, werr error
						if pv := Safely(func() { got, gerr = read(k, which) }); pv != nil {
							gerr = fmt.Errorf("panic: %v", pv)
						}
						if ferr == nil {
							want, werr = read(fk, which)
						}
						if ferr != nil || werr != nil {
							r.Harness("kept objects: fresh handle: %v %v", ferr, werr)
							break
						}
						if gerr != nil {
							r.Violation("C08:kept-objects:error", fmt.Sprintf("after %v: %s through the object kept from the first transaction (first read of this transaction: %s): %v", names[:step+1], objects[which], objects[first], gerr), art)
							break
						}
						if got != want {
							r.Violation("C08:kept-objects:stale", fmt.Sprintf("after %v: %s through the object kept from the first transaction (first read of this transaction: %s) differs from a fresh handle: %s", names[:step+1], objects[which], objects[first], firstLineDiff(got, want)), art)
							break
						}
					}
					d.RUnlock()
					fresh.RUnlock()
					fresh.Close()
				}
			}()
			os.Remove(path)
		}
	}
}

// stoppedThenCommit: histories "a read stopped by its callback after k rows; a commit by another process; a read
// (stopped or not)". Whatever a stopped read leaves behind on the handle (pages held, positions, flags) must not
// show in the next transaction: its rows are the first rows of the CURRENT result, as a fresh handle sees it.
// Kind H: first reads {SelectDone stopped at k, Table.Scan stopped at k, Index.Scan stopped at k, Index.ScanMin
// stopped at k} x k in {1, 2, last row of the first leaf, first row of the second leaf} x 3 writes x second reads.
func stoppedThenCommit(r *ev.Run, prop string) {
	dir := ev.TmpDir("stc")
	defer os.RemoveAll(dir)
	p, err := StartPeer()
	if err != nil {
		r.Harness("peer: %v", err)
		return
	}
	defer p.Stop()
	basePath := filepath.Join(dir, "base.sqlite")
	p.MustOK("open " + basePath)
	p.MustOK("exec PRAGMA page_size=512; CREATE TABLE t (id INTEGER PRIMARY KEY, v, pad); CREATE INDEX t_v ON t (v); " +
		"WITH RECURSIVE n(i) AS (SELECT 1 UNION ALL SELECT i+1 FROM n WHERE i<60) INSERT INTO t SELECT i, 'v'||(100+i), 'old-'||i||'-pppppppppppppppppppppppppppppppppppppppppppppppp' FROM n")
	p.MustOK("close")
	base, _ := os.ReadFile(basePath)
	writes := []string{
		"UPDATE t SET pad = 'new-' || id || substr(pad, 5)",
		"UPDATE t SET v = 'w' || (500 - id)",
		"DELETE FROM t WHERE id % 2 = 1",
	}
	type rd struct {
		name string
		run  func(e *Env, stop int) ([]string, error)
	}
	low := func(e *Env, f func(cb func(string) bool) error, stop int) ([]string, error) {
		var out []string
		if err := e.D.RLock(); err != nil {
			return nil, err
		}
		defer e.D.RUnlock()
		err := f(func(s string) bool {
			out = append(out, s)
			return stop > 0 && len(out) >= stop
		})
		return out, err
	}
	reads := []rd{
		{"SelectDone(t)", func(e *Env, stop int) ([]string, error) {
			var out []string
			err := e.H.SelectDone("t", func(row sqlittle.Row) bool {
				out = append(out, RowS(CopyRow(row)))
				return stop > 0 && len(out) >= stop
			}, "id", "v", "pad")
			return out, err
		}},
		{"Table.Scan(t)", func(e *Env, stop int) ([]string, error) {
			return low(e, func(cb func(string) bool) error {
				t, err := e.D.Table("t")
				if err != nil {
					return err
				}
				return t.Scan(func(id int64, rec sdb.Record) bool { return cb(fmt.Sprint(id, RowS(CopyRec(rec)))) })
			}, stop)
		}},
		{"Index.Scan(t_v)", func(e *Env, stop int) ([]string, error) {
			return low(e, func(cb func(string) bool) error {
				ix, err := e.D.Index("t_v")
				if err != nil {
					return err
				}
				return ix.Scan(func(rec sdb.Record) bool { return cb(RowS(CopyRec(rec))) })
			}, stop)
		}},
		{"Index.ScanMin(t_v, v110)", func(e *Env, stop int) ([]string, error) {
			return low(e, func(cb func(string) bool) error {
				ix, err := e.D.Index("t_v")
				if err != nil {
					return err
				}
				return ix.ScanMin(sdb.Key{{V: "v110"}}, func(rec sdb.Record) bool { return cb(RowS(CopyRec(rec))) })
			}, stop)
		}},
	}
	stops := []int{1, 2, 6, 7, 8, 13}
	if r.Thorough() {
		stops = nil
		for k := 1; k <= 30; k++ {
			stops = append(stops, k)
		}
	}
	r.Set("stopped_then_commit_histories", len(reads)*len(stops)*len(writes))
	n := 0
	for ri, first := range reads {
		for _, k := range stops {
			for wi, w := range writes {
				n++
				path := filepath.Join(dir, fmt.Sprintf("s%d.sqlite", n))
				os.WriteFile(path, base, 0o644)
				art := map[string]interface{}{"family": "stopped-then-commit", "first_read": first.name, "stopped_after": k, "write": w}
				r.Eval(1)
				r.Trans(2 + 2*len(reads))
				r.NontrivialN(1)
				r.State(fmt.Sprint("stc", ri, k, wi))
				e, err := OpenEnv(path)
				if err != nil {
					r.Harness("stopped-then-commit: open: %v", err)
					return
				}
				if rows, err := first.run(e, k); err != nil || len(rows) != k {
					r.Violation(prop+":stopped-then-commit:first-read", fmt.Sprintf("%s stopped after %d rows: %d rows, err=%v", first.name, k, len(rows), err), art)
					e.H.Close()
					os.Remove(path)
					continue
				}
				p.MustOK("open " + path)
				st, rest := p.Do("exec " + w)
				p.Do("close")
				if st != "ok" {
					r.Harness("stopped-then-commit: writer: %s %s", st, rest)
					e.H.Close()
					return
				}
				fresh, err := OpenEnv(path)
				if err != nil {
					r.Harness("stopped-then-commit: fresh open: %v", err)
					e.H.Close()
					return
				}
			second:
				for _, sec := range reads {
					for _, k2 := range []int{k, 0} {
						want, werr := sec.run(fresh, k2)
						got, gerr := sec.run(e, k2)
						if werr != nil {
							r.Harness("stopped-then-commit: fresh handle: %v", werr)
							break second
						}
						if gerr != nil || strings.Join(got, "\n") != strings.Join(want, "\n") {
							how := "run to its end"
							if k2 > 0 {
								how = fmt.Sprintf("stopped after %d rows", k2)
							}
							r.Violation(prop+":stopped-then-commit:stale", fmt.Sprintf("%s stopped after %d rows, then another process commits %q, then %s %s: err=%v, %s", first.name, k, w, sec.name, how, gerr, firstLineDiff(strings.Join(got, "\n"), strings.Join(want, "\n"))), art)
							break second
						}
					}
				}
				fresh.H.Close()
				e.H.Close()
				os.Remove(path)
			}
		}
	}
}
