package checks

// Read histories on one handle (kind H): nothing is written, so whatever a read leaves behind in the
// handle (page cache, schema cache, anything memoised) must not show in the next read. Every ordered pair
// (first operation, run to its end or stopped by its callback at row k; second operation, run to its end)
// on ONE handle: the second result is what a fresh handle returns. Called from C17 (a stopped scan leaves
// the handle as good as new) and C08 (a read reflects the file, not the handle's past).

import (
	"fmt"

	"verif/internal/ev"
	"verif/internal/vpager"
)

func readHistories(r *ev.Run, prop string) {
	images := c12Images(r)
	if len(images) > 2 {
		images = images[:2]
	}
	n := 0
	for ii := range images {
		im := &images[ii]
		// what a fresh handle returns
		base := make([]OpResult, len(im.ops))
		for i, op := range im.ops {
			h, d, err := vpager.Open(vpager.NewMem(im.img))
			if err != nil {
				r.Harness("%s read histories: open: %v", prop, err)
				return
			}
			base[i] = op.Run(&Env{H: h, D: d}, 0)
		}
		type first struct {
			op   int
			stop int
		}
		var firsts []first
		for i, op := range im.ops {
			if base[i].Err != nil {
				continue
			}
			firsts = append(firsts, first{i, 0})
			if op.CanStop {
				rows := len(base[i].Rows)
				seen := map[int]bool{}
				for _, k := range []int{1, 2, 3, rows / 2, rows - 1} {
					if k >= 1 && k < rows && !seen[k] {
						seen[k] = true
						firsts = append(firsts, first{i, k})
					}
				}
			}
		}
		ev.Parallel(len(firsts), func(fi int) {
			f := firsts[fi]
			for j, op2 := range im.ops {
				if base[j].Err != nil {
					continue
				}
				h, d, err := vpager.Open(vpager.NewMem(im.img))
				if err != nil {
					return
				}
				e := &Env{H: h, D: d}
				op1 := im.ops[f.op]
				var r1, r2 OpResult
				if p := Safely(func() { r1 = op1.Run(e, f.stop) }); p != nil {
					continue // judged elsewhere
				}
				_ = r1
				art := map[string]interface{}{"family": "read-histories", "image": im.desc, "first": op1.Name, "first_stopped_at_row": f.stop, "second": op2.Name}
				p := Safely(func() { r2 = op2.Run(e, 0) })
				r.Eval(1)
				r.Trans(2)
				if f.stop > 0 {
					r.NontrivialN(1)
				}
				first := op1.Name
				if f.stop > 0 {
					first = fmt.Sprintf("%s stopped at row %d", op1.Name, f.stop)
				}
				switch {
				case p != nil:
					r.Violation(prop+":read-history:panic:"+opKind(op2.Name), fmt.Sprintf("%s after %s on the same handle panics: %v", op2.Name, first, p), art)
				case r2.Err != nil:
					r.Violation(prop+":read-history:error:"+opKind(op2.Name), fmt.Sprintf("%s after %s on the same handle: %v (a fresh handle: %d rows, no error)", op2.Name, first, r2.Err, len(base[j].Rows)), art)
				case !RowsEq(r2.Rows, base[j].Rows, false):
					r.Violation(prop+":read-history:rows:"+opKind(op2.Name), fmt.Sprintf("%s after %s on the same handle delivers %d rows, a fresh handle %d: %s", op2.Name, first, len(r2.Rows), len(base[j].Rows), firstDiffSafe(r2.Rows, base[j].Rows)), art)
				}
			}
		})
		n += len(firsts) * len(im.ops)
	}
	r.Set("read_history_pairs", n)
}
