package checks

import "fmt"

func init() {
	Subcommands["setup"] = func(args []string) int {
		// vrun has already built vcheck (warming the build cache); further
		// warm-ups (race build, go1.26.8 build) are added by the checks that
		// need them via setupHooks.
		for _, h := range setupHooks {
			if err := h(); err != nil {
				fmt.Println("HARNESS: setup:", err)
				return 2
			}
		}
		fmt.Println("setup ok")
		return 0
	}
}

var setupHooks []func() error
