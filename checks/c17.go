package checks

// C17 — Stopping a scan early yields an exact prefix and ends the
// transaction. Kind E: the deviation is the callback answering "stop" at row
// k, enumerated for every k on every shape image and every stoppable scan.

import (
	"fmt"

	"verif/internal/ev"
	"verif/internal/vpager"

	"github.com/alicebob/sqlittle"
	sdb "github.com/alicebob/sqlittle/db"
)

func init() { Registry["C17"] = Check{Level: "model_checking", Fn: runC17} }

type stopScan struct {
	name string
	high bool
	run  func(h *sqlittle.DB, d *sdb.Database, cb func(row []interface{}) bool) error
}

func runC17(r *ev.Run) {
	r.Rule = "stopped-then-commit histories: a read stopped after k rows (4 kinds x k at and around the first leaf boundary), a commit by another process (3 kinds), then every kind of read, stopped at k and run to its end, delivers the first rows of the CURRENT result (a fresh handle's). every table and index b-tree shape image within bounds x every stoppable scan {SelectDone, driver result set closed after k rows, Table.Scan, Index.Scan, ScanMin/ScanEq/ScanRange with several keys} x every stop position k=1..result size: exactly the first k rows of the unstopped result, callback invoked exactly k times, nil error, pager lock released (lock/unlock balance of the in-memory pager); behind the stop point: on images with overflow rows, for every scan and every k, every page the unstopped scan first reads after row k is made unreadable: the scan stopped at k still delivers exactly its k rows and returns nil; non-trivial = stop positions on multi-level trees. read histories: every ordered pair (an operation run to its end or stopped at row k in {1, 2, 3, half, last-1}; any operation) on one handle over the T1+T2+T3 images: the second result is a fresh handle's"
	defer readHistories(r, "C17")
	defer stoppedThenCommit(r, "C17")
	r.Set("bounds", fmt.Sprintf("%+v", allBounds(r)))
	for _, b := range allBounds(r) {
		c17Shapes(r, b)
	}
	c17Later(r)
}

func c17Shapes(r *ev.Run, b shapeBounds) {
	forTableShapes(r, b, func(si *ShapeImage) {
		scans := []stopScan{
			{"SelectDone(t1)", true, func(h *sqlittle.DB, d *sdb.Database, cb func([]interface{}) bool) error {
				return h.SelectDone("t1", func(row sqlittle.Row) bool { return cb(CopyRow(row)) }, "rowid", "b", "c", "e")
			}},
			{"Table.Scan(t1)", false, func(h *sqlittle.DB, d *sdb.Database, cb func([]interface{}) bool) error {
				t, err := d.Table("t1")
				if err != nil {
					return err
				}
				return t.Scan(func(id int64, rec sdb.Record) bool { return cb(append([]interface{}{id}, CopyRec(rec)...)) })
			}},
			{"Driver(t1)", true, func(h *sqlittle.DB, d *sdb.Database, cb func([]interface{}) bool) error {
				c := &collector{}
				return driverQueryCB(h, "SELECT rowid, b, c FROM t1", cb, c)
			}},
		}
		c17Image(r, si, "t1", scans)
	})
	forIndexShapes(r, b, func(si *ShapeImage) {
		for _, u := range indexesOf(si) {
			u := u
			if u.name != si.Object {
				continue
			}
			open := func(d *sdb.Database) (*sdb.Index, error) { return openIndex(d, &u) }
			scans := []stopScan{
				{"Index.Scan(" + u.name + ")", false, func(h *sqlittle.DB, d *sdb.Database, cb func([]interface{}) bool) error {
					in, err := open(d)
					if err != nil {
						return err
					}
					return in.Scan(func(rec sdb.Record) bool { return cb(CopyRec(rec)) })
				}},
			}
			// keys: the first column of the entries at 1/4, 1/2 of the index
			for _, pos := range []int{0, len(u.logic) / 3, len(u.logic) / 2} {
				if pos >= len(u.logic) || len(u.logic[pos]) == 0 {
					continue
				}
				key := toDbKey(u.logic[pos][:1], u.cols)
				to := toDbKey(u.logic[len(u.logic)-1][:1], u.cols)
				ks := RowS(u.logic[pos][:1])
				scans = append(scans,
					stopScan{"ScanMin(" + u.name + "," + ks + ")", false, func(h *sqlittle.DB, d *sdb.Database, cb func([]interface{}) bool) error {
						in, err := open(d)
						if err != nil {
							return err
						}
						return in.ScanMin(key, func(rec sdb.Record) bool { return cb(CopyRec(rec)) })
					}},
					stopScan{"ScanEq(" + u.name + "," + ks + ")", false, func(h *sqlittle.DB, d *sdb.Database, cb func([]interface{}) bool) error {
						in, err := open(d)
						if err != nil {
							return err
						}
						return in.ScanEq(key, func(rec sdb.Record) bool { return cb(CopyRec(rec)) })
					}},
					stopScan{"ScanRange(" + u.name + "," + ks + ")", false, func(h *sqlittle.DB, d *sdb.Database, cb func([]interface{}) bool) error {
						in, err := open(d)
						if err != nil {
							return err
						}
						return in.ScanRange(key, to, func(rec sdb.Record) bool { return cb(CopyRec(rec)) })
					}},
				)
			}
			if u.wr {
				scans = append(scans, stopScan{"SelectDone(t2)", true, func(h *sqlittle.DB, d *sdb.Database, cb func([]interface{}) bool) error {
					return h.SelectDone("t2", func(row sqlittle.Row) bool { return cb(CopyRow(row)) }, "a", "b", "c", "d")
				}})
			}
			c17Image(r, si, u.name, scans)
		}
	})
}

func c17Image(r *ev.Run, si *ShapeImage, object string, scans []stopScan) {
	h, d, m, err := vpager.OpenImage(si.Img.Bytes)
	if err != nil {
		r.Violation("C17:open", fmt.Sprintf("well-formed image refused: %v", err), si.Desc)
		return
	}
	deep := si.Img.Depth[object] > 1
	for _, sc := range scans {
		run := func(stopAt int) (rows [][]interface{}, calls int, err error) {
			if !sc.high {
				if e := d.RLock(); e != nil {
					return nil, 0, e
				}
				defer d.RUnlock()
			}
			err = sc.run(h, d, func(row []interface{}) bool {
				calls++
				rows = append(rows, row)
				return stopAt > 0 && calls >= stopAt
			})
			return
		}
		full, _, err := run(0)
		if err != nil {
			r.Violation("C17:full-scan-error", fmt.Sprintf("%s: %v", sc.name, err), si.Desc)
			continue
		}
		r.Outcome(fmt.Sprintf("depth=%d rows>0=%v", si.Img.Depth[object], len(full) > 0))
		for k := 1; k <= len(full); k++ {
			art := map[string]interface{}{"image": si.Desc, "scan": sc.name, "stop_at": k, "result_size": len(full)}
			r.Eval(1)
			r.Trans(1)
			if deep {
				r.NontrivialN(1)
			}
			if k == 2 && si.Img.Depth[object] == 3 {
				r.Sample(art)
			}
			var rows [][]interface{}
			var calls int
			var err error
			if p := Safely(func() { rows, calls, err = run(k) }); p != nil {
				r.Violation("C17:panic", fmt.Sprintf("%s stop at %d panics: %v", sc.name, k, p), art)
				continue
			}
			kind := "low"
			if sc.high {
				kind = "high"
			}
			if calls != k {
				r.Violation("C17:callback-count:"+kind, fmt.Sprintf("%s: asked to stop at row %d of %d, callback invoked %d times", sc.name, k, len(full), calls), art)
				continue
			}
			if err != nil {
				r.Violation("C17:error:"+kind, fmt.Sprintf("%s: stopped at row %d: error %v", sc.name, k, err), art)
			}
			if !RowsEq(rows, full[:k], false) {
				r.Violation("C17:prefix:"+kind, fmt.Sprintf("%s: stopped at row %d: got %v, first rows of the full result %v", sc.name, k, clip(RowsS(rows)), clip(RowsS(full[:k]))), art)
			}
			if m.Locked != 0 || m.Locks != m.Unlocks {
				r.Violation("C17:lock-held:"+kind, fmt.Sprintf("%s: stopped at row %d: read lock still held after return (locks=%d unlocks=%d)", sc.name, k, m.Locks, m.Unlocks), art)
				m.Locked = 0
				m.Unlocks = m.Locks
			}
		}
	}
}
