package checks

// C19 — The database/sql driver returns the native API's rows and cleans up.
// Sequential part (kind S + E): every column list x tables through
// database/sql vs the native select; error paths; a fault at every page read;
// close / cancel after every row count k with goroutine and lock accounting.
// Interleaving part (kind I): the instrumented driver under a controlled
// goroutine scheduler (testing/synctest, go1.26.8), every schedule within a
// preemption bound (package verif/sched).

import (
	"context"
	"database/sql"
	"encoding/json"
	"fmt"
	"os"
	"os/exec"
	"path/filepath"
	"runtime"
	"strings"
	"time"

	"verif/internal/dbgen"
	"verif/internal/ev"
	"verif/internal/vpager"

	"github.com/alicebob/sqlittle"
)

func init() {
	Registry["C19"] = Check{Level: "model_checking", Fn: runC19}
	setupHooks = append(setupHooks, func() error {
		// warm the go1.26.8 build cache for the scheduler package
		dir := ev.TmpDir("c19setup")
		defer os.RemoveAll(dir)
		_, _, err := buildSched(dir)
		return err
	})
}

func schedImage() []byte {
	big := strings.Repeat("0123456789", 120)
	return MustMakeDB(512, `CREATE TABLE t (id INTEGER PRIMARY KEY, pad);
INSERT INTO t VALUES (1, '`+big+`'), (2, '`+big+`x'), (3, 'short');
CREATE TABLE s (id INTEGER PRIMARY KEY, pad);
INSERT INTO s VALUES (10, 'a'), (20, 'b');`)
}

func repoDir() string {
	if r := os.Getenv("REPO"); r != "" {
		return r
	}
	return "/repo"
}

// buildSched instruments the current driver.go and builds the scheduler test binary with go1.26.8
func buildSched(dir string) (bin string, points int, err error) {
	ov, n, err := InstrumentDriver(repoDir(), dir)
	if err != nil {
		return "", 0, fmt.Errorf("instrument driver.go: %v", err)
	}
	bin = filepath.Join(dir, "sched.test")
	gobin := "go1.26.8"
	if _, e := exec.LookPath(gobin); e != nil {
		gobin = "/opt/veriftools/go1.26.8/bin/go"
	}
	cmd := exec.Command(gobin, "test", "-c", "-tags", "verif", "-vet=off", "-overlay", ov, "-o", bin, "./sched")
	cmd.Dir = ev.Root
	if _, e := os.Stat(filepath.Join(ev.Root, "go.mod")); e != nil {
		cmd.Dir = "/verif"
	}
	cmd.Env = append(os.Environ(), "GOTOOLCHAIN=local", "GOFLAGS=-mod=mod", "GOPROXY=off", "GOSUMDB=off", "CGO_ENABLED=1")
	out, e := cmd.CombinedOutput()
	if e != nil {
		return "", n, fmt.Errorf("go1.26.8 test -c ./sched: %v\n%s", e, clipS(string(out), 1500))
	}
	return bin, n, nil
}

func runC19(r *ev.Run) {
	r.Rule = "sequential: every column list of length <=3 over {*, each column, rowid, an unknown name} on T1 (rowid alias, short rows, overflow) and T2 (WITHOUT ROWID) through database/sql vs the native Select; non-SELECT / unknown table / unknown column errors; a fault at every page read k of a query must surface through Next or Close, never as a short result; pool histories: every sequence of <=5 (6 thorough) database/sql operations on one pool (sequences one step shorter also on one pinned sql.Conn and inside one sql.Tx) over {open a result set on t1 / t2 (at most two open at once), read one row from open set i, drain+close set i, close set i, four kinds of failing query, Exec, Prepare+Close}: every result set delivers exactly the native rows (a prefix when closed early), failing statements fail; prepared-statement histories: every sequence of <=5 (6 thorough) steps over {prepare SELECT * / SELECT v, id; run a prepared statement; close it; another connection adds a column, inserts, drops a column, drops and recreates the table}: every run returns the columns and rows the native API returns at that moment; close after every k rows and cancel after every k rows: a 2 minute hang detector around Next/Close, goroutine count returns to the baseline and /proc/locks shows the lock gone. interleavings: driver.go instrumented with a scheduling point before every statement (and before every deferred call), run inside a testing/synctest bubble under a scheduler that resumes one goroutine at a time (enabled = parked at a scheduling point; blocked in a real channel operation or WaitGroup.Wait = disabled; a select with several clauses is rewritten so that the clause tried first is a choice of the explorer, costing one deviation when it is not source order); participants: consumer (Query, Next x j, Close), canceller, the producer goroutine; scenarios: close after every j, drain, cancel racing, fault at every page read; every schedule with <=2 preemptions (3 thorough); oracle per schedule: rows are a prefix of the native rows, a fault never turns into io.EOF, no deadlock, no goroutine left, after Close returns the producer neither holds the lock nor reads pages. non-trivial = schedules with at least one preemption / sequential cases that stop early or hit a fault"
	c19Sequential(r)
	zooRun(r, "C19")
	poolHistories(r, "C19")
	preparedHistories(r, "C19")
	c19Cleanup(r)
	// ---- interleavings
	dir := ev.TmpDir("c19")
	defer os.RemoveAll(dir)
	bin, points, err := buildSched(dir)
	if err != nil {
		// the instrumented driver does not build (e.g. the source no longer parses): the schedule part cannot run
		r.Harness("C19 scheduler build: %v", err)
		r.NotExhaustive("interleaving part not run: " + clipS(err.Error(), 200))
		return
	}
	r.Set("instrumented_statements", points)
	imgPath := filepath.Join(dir, "img.sqlite")
	os.WriteFile(imgPath, schedImage(), 0o644)
	outPath := filepath.Join(dir, "result.json")
	cmd := exec.Command(bin, "-test.run", "^TestExplore$", "-test.timeout", "60m")
	cmd.Env = append(os.Environ(), "VERIF_SCHED_IMG="+imgPath, "VERIF_SCHED_OUT="+outPath, "VERIF_TIER="+r.Tier)
	out, err := cmd.CombinedOutput()
	b, rerr := os.ReadFile(outPath)
	if rerr != nil {
		// the explorer process died: the code under test took it down (or the harness is broken)
		if err != nil && (strings.Contains(string(out), "panic:") || strings.Contains(string(out), "fatal error")) {
			r.Violation("C19:sched:process-died", "the scheduler process running the driver died: "+clipS(string(out), 600), map[string]interface{}{"output": clipS(string(out), 3000)})
		} else {
			r.Harness("C19 scheduler run: %v %s", err, clipS(string(out), 600))
		}
		return
	}
	var res struct {
		Executions  int            `json:"executions"`
		States      int            `json:"states"`
		Steps       int            `json:"steps"`
		Preempted   int            `json:"preempted"`
		Diverged    int            `json:"diverged"`
		Capped      []string       `json:"capped"`
		PerScenario map[string]int `json:"per_scenario"`
		Outcomes    map[string]int `json:"outcomes"`
		Sample      []string       `json:"sample"`
		Points      int            `json:"max_points"`
		Violations  []struct {
			Sig      string   `json:"sig"`
			What     string   `json:"what"`
			Scenario string   `json:"scenario"`
			Choices  []int    `json:"choices"`
			Trace    []string `json:"trace"`
		} `json:"violations"`
	}
	if err := json.Unmarshal(b, &res); err != nil {
		r.Harness("C19 scheduler result: %v", err)
		return
	}
	r.Eval(res.Executions)
	r.Trans(res.Steps)
	r.NontrivialN(res.Preempted)
	for i := 0; i < res.States; i++ {
		r.State(fmt.Sprintf("sched-state-%d", i))
	}
	r.Set("schedules", res.Executions)
	r.Set("schedules_per_scenario", res.PerScenario)
	r.Set("schedule_outcomes", res.Outcomes)
	r.Set("max_scheduling_points_in_one_execution", res.Points)
	r.Set("replay_divergences", res.Diverged)
	for k, v := range res.Outcomes {
		for i := 0; i < v && i < 1; i++ {
			r.Outcome("sched:" + k)
		}
	}
	for _, s := range res.Sample {
		r.Sample(map[string]interface{}{"schedule": s})
	}
	for _, c := range res.Capped {
		r.NotExhaustive("schedule cap hit in scenario " + c)
	}
	if res.Diverged > 0 {
		r.NotExhaustive(fmt.Sprintf("%d replays diverged (a select with two ready cases is the runtime's choice)", res.Diverged))
	}
	for _, v := range res.Violations {
		r.Violation(v.Sig, v.What, map[string]interface{}{"scenario": v.Scenario, "choices": v.Choices, "trace": v.Trace})
	}
}

// ---------------------------------------------------------------- sequential part

func c19Sequential(r *ev.Run) {
	dir := ev.TmpDir("c19s")
	defer os.RemoveAll(dir)
	spec := &dbgen.Spec{PageSize: 512, Tables: []dbgen.Table{T1(rowidSet(9, 1), 700), T2(7, 0)}}
	img, err := dbgen.Build(spec)
	if err != nil {
		r.Harness("dbgen: %v", err)
		return
	}
	if err := Conform(spec, img); err != nil {
		r.Harness("conformance: %v", err)
		return
	}
	r.Validated(1)
	path := filepath.Join(dir, "seq.sqlite")
	os.WriteFile(path, img.Bytes, 0o644)
	db, err := sql.Open("sqlittle", path)
	if err != nil {
		r.Harness("sql.Open: %v", err)
		return
	}
	defer db.Close()
	native, err := sqlittle.Open(path)
	if err != nil {
		r.Harness("open: %v", err)
		return
	}
	defer native.Close()
	for ti, tb := range []struct {
		name string
		cols []string
	}{{"t1", []string{"*", "a", "b", "c", "e", "rowid", "nosuch"}}, {"t2", []string{"*", "a", "b", "d", "nosuch"}}} {
		all := T1Cols
		if ti == 1 {
			all = T2Cols
		}
		for _, list := range columnLists(tb.cols, 3) {
			if len(list) == 0 {
				continue
			}
			// expected: * expanded in definition order
			var exp []string
			for _, c := range list {
				if c == "*" {
					exp = append(exp, all...)
				} else {
					exp = append(exp, c)
				}
			}
			want, werr := SelectAll(native, tb.name, exp...)
			q := "SELECT " + strings.Join(list, ", ") + " FROM " + tb.name
			art := map[string]interface{}{"query": q}
			r.Eval(1)
			r.Trans(1)
			rows, qerr := db.Query(q)
			var got [][]interface{}
			var serr error
			if qerr == nil {
				cols, _ := rows.Columns()
				for rows.Next() {
					vals := make([]interface{}, len(cols))
					ptrs := make([]interface{}, len(cols))
					for i := range vals {
						ptrs[i] = &vals[i]
					}
					if err := rows.Scan(ptrs...); err != nil {
						serr = err
						break
					}
					for i, v := range vals {
						if b, ok := v.([]byte); ok {
							vals[i] = append([]byte{}, b...)
						}
					}
					got = append(got, vals)
				}
				if serr == nil {
					serr = rows.Err()
				}
				rows.Close()
			}
			if werr != nil {
				// the native API rejects it (unknown column): the driver must report an error too
				if qerr == nil && serr == nil {
					r.Violation("C19:seq:error-lost", fmt.Sprintf("%s: native select fails (%v) but database/sql reports success with %d rows", q, werr, len(got)), art)
				}
				continue
			}
			if qerr != nil || serr != nil {
				r.Violation("C19:seq:error", fmt.Sprintf("%s: query err=%v rows err=%v; the native select works", q, qerr, serr), art)
				continue
			}
			if !RowsEq(got, want, false) {
				r.Violation("C19:seq:rows", fmt.Sprintf("%s: database/sql rows differ from the native select: %s", q, firstDiffSafe(got, want)), art)
			}
			if strings.Contains(q, "*") {
				r.Nontrivial(q)
			}
		}
	}
	r.Sample(map[string]interface{}{"query": "SELECT *, rowid, a FROM t1", "compared_with": "DB.Select(t1, a,b,c,d,e,rowid,a)"})
	// two result sets of one pool open at the same time, read alternately
	{
		want1, _ := SelectAll(native, "t1", "a", "b", "c")
		want2, _ := SelectAll(native, "t2", "a", "b", "d")
		for _, qs := range [][2]string{{"SELECT a, b, c FROM t1", "SELECT a, b, d FROM t2"}, {"SELECT a, b, c FROM t1", "SELECT a, b, c FROM t1"}} {
			rows1, e1 := db.Query(qs[0])
			rows2, e2 := db.Query(qs[1])
			if e1 != nil || e2 != nil {
				r.Violation("C19:seq:two-result-sets", fmt.Sprintf("two queries at once: %v / %v", e1, e2), nil)
				continue
			}
			read := func(rows *sql.Rows) ([]interface{}, bool) {
				if !rows.Next() {
					return nil, false
				}
				vals := make([]interface{}, 3)
				rows.Scan(&vals[0], &vals[1], &vals[2])
				for i, v := range vals {
					if b, ok := v.([]byte); ok {
						vals[i] = append([]byte{}, b...)
					}
				}
				return vals, true
			}
			var got1, got2 [][]interface{}
			for more1, more2 := true, true; more1 || more2; {
				if more1 {
					var v []interface{}
					if v, more1 = read(rows1); more1 {
						got1 = append(got1, v)
					}
				}
				if more2 {
					var v []interface{}
					if v, more2 = read(rows2); more2 {
						got2 = append(got2, v)
					}
				}
			}
			err1, err2 := rows1.Err(), rows2.Err()
			rows1.Close()
			rows2.Close()
			w2 := want2
			if qs[1] == qs[0] {
				w2 = want1
			}
			r.Eval(1)
			r.Trans(2)
			if err1 != nil || err2 != nil || !RowsEq(got1, want1, false) || !RowsEq(got2, w2, false) {
				r.Violation("C19:seq:two-result-sets", fmt.Sprintf("two result sets read alternately (%s | %s): err=%v/%v rows %d/%d want %d/%d", qs[0], qs[1], err1, err2, len(got1), len(got2), len(want1), len(w2)), map[string]interface{}{"queries": qs})
			}
		}
	}
	// error paths
	for _, q := range []string{"DELETE FROM t1", "CREATE TABLE x (a)", "SELECT a FROM nosuch", "SELECT", "garbage", "SELECT a FROM t1_bc", "INSERT INTO t1 VALUES (1)"} {
		rows, err := db.Query(q)
		r.Eval(1)
		if err == nil {
			n := 0
			for rows.Next() {
				n++
			}
			if rows.Err() == nil {
				r.Violation("C19:seq:bad-query-accepted", fmt.Sprintf("%q is answered with %d rows and no error", q, n), map[string]interface{}{"query": q})
			}
			rows.Close()
		}
		if _, err := db.Exec(q); err == nil {
			r.Violation("C19:seq:exec-accepted", fmt.Sprintf("Exec(%q) reports success on a read-only driver", q), map[string]interface{}{"query": q})
		}
	}
	// a fault at every page read of a query
	for _, tb := range []string{"t1", "t2"} {
		mem := vpager.NewMem(img.Bytes)
		fp := &vpager.FaultPager{P: mem}
		h, _, err := vpager.Open(fp)
		if err != nil {
			r.Harness("open: %v", err)
			return
		}
		full := &collector{}
		fp.Arm(0, vpager.FaultNone)
		if err := driverQuery(h, "SELECT * FROM "+tb, full); err != nil {
			r.Violation("C19:seq:error", fmt.Sprintf("SELECT * FROM %s on a handle with its own pager: %v", tb, err), nil)
			continue
		}
		reads := fp.N
		for k := 1; k <= reads; k++ {
			for _, kind := range []vpager.FaultKind{vpager.FaultError, vpager.FaultShort} {
				fp.Arm(k, kind)
				c := &collector{}
				err := driverQuery(h, "SELECT * FROM "+tb, c)
				r.Eval(1)
				r.Trans(1)
				r.NontrivialN(1)
				art := map[string]interface{}{"query": "SELECT * FROM " + tb, "fault_at_page_read": k, "of": reads}
				if fp.Hit == 0 {
					continue
				}
				if err == nil {
					r.Violation("C19:seq:fault-swallowed", fmt.Sprintf("SELECT * FROM %s with a fault at page read %d of %d: no error from Query/Next/Close, %d of %d rows", tb, k, reads, len(c.res.Rows), len(full.res.Rows)), art)
				} else if !isPrefix(c.res.Rows, full.res.Rows) {
					r.Violation("C19:seq:fault-rows", fmt.Sprintf("SELECT * FROM %s with a fault at page read %d: the rows delivered before the error are not a prefix", tb, k), art)
				}
			}
		}
		fp.Arm(0, vpager.FaultNone)
	}
}

// c19Cleanup: close / cancel after every k rows through database/sql on a real
// file; goroutines return to the baseline and the lock goes away.
func c19Cleanup(r *ev.Run) {
	dir := ev.TmpDir("c19c")
	defer os.RemoveAll(dir)
	path := filepath.Join(dir, "clean.sqlite")
	os.WriteFile(path, schedImage(), 0o644)
	mypid := os.Getpid()
	db, err := sql.Open("sqlittle", path)
	if err != nil {
		r.Harness("sql.Open: %v", err)
		return
	}
	hung := false
	defer func() {
		if !hung { // a pool with a blocked connection never closes
			db.Close()
		}
	}()
	// warm up database/sql's own goroutines
	if rows, err := db.Query("SELECT id FROM t"); err == nil {
		for rows.Next() {
		}
		rows.Close()
	}
	settle := func(base int) (int, bool) {
		// an eventual condition: wait (up to 30 s) for the goroutine count to come back
		// (counted in sleeps, not by the clock: a stopped machine or a stepping clock must not use the time up)
		n := runtime.NumGoroutine()
		for i := 0; n > base && i < 15000; i++ {
			time.Sleep(2 * time.Millisecond)
			n = runtime.NumGoroutine()
		}
		return n, n <= base
	}
	base := runtime.NumGoroutine()
	for _, mode := range []string{"close", "cancel", "cancel-then-close", "abandon-with-conn-close"} {
		for k := 0; k <= 3; k++ {
			ctx, cancel := context.WithCancel(context.Background())
			conn, err := db.Conn(ctx)
			if err != nil {
				cancel()
				continue
			}
			rows, err := conn.QueryContext(ctx, "SELECT id, pad FROM t")
			if err != nil {
				r.Violation("C19:clean:query", fmt.Sprintf("query: %v", err), nil)
				cancel()
				conn.Close()
				continue
			}
			art := map[string]interface{}{"mode": mode, "rows_read": k}
			// hang detector: the whole sequence takes well under a millisecond
			if !ev.Within(2*time.Minute, func() {
				for i := 0; i < k && rows.Next(); i++ {
				}
				switch mode {
				case "close":
					rows.Close()
				case "cancel":
					cancel()
				case "cancel-then-close":
					cancel()
					rows.Close()
				}
				cancel()
				rows.Close() // database/sql closes the driver rows on cancel as well; make it explicit so the wait below is about the driver
				conn.Close()
			}) {
				r.Violation("C19:clean:close-hangs", fmt.Sprintf("%s after %d rows: Next/Close/Conn.Close has not returned after 2 minutes", mode, k), art)
				hung = true
				return
			}
			r.Eval(1)
			r.Trans(2)
			r.NontrivialN(1)
			n, ok := settle(base)
			if !ok {
				r.Violation("C19:clean:goroutine-leak", fmt.Sprintf("%s after %d rows: %d goroutines, baseline %d (waited 30 s)", mode, k, n, base), art)
				base = n
			}
			locks, _ := FileLocks(path)
			me := StateOf(locks, mypid)
			if me.AnyShared || me.PendingAny {
				r.Violation("C19:clean:lock-leaked", fmt.Sprintf("%s after %d rows: the process still holds %s", mode, k, me.Description), art)
			}
		}
	}
}
