package checks

// C08 — Each read transaction reflects the latest committed database state.
// Kind H: every sequence up to a depth over an alphabet of write transactions
// committed by a real SQLite connection in another process; after every step
// every long-lived handle (opened at depth 0 and at every later depth) is read
// through the high level and the low level API, twice, and compared with
// SQLite's own view and with a freshly opened handle.

import (
	"encoding/binary"
	"fmt"
	"os"
	"path/filepath"
	"runtime"
	"runtime/debug"
	"strings"
	"sync"

	"verif/internal/ev"

	sdb "github.com/alicebob/sqlittle/db"
)

func init() { Registry["C08"] = Check{Level: "model_checking", Fn: runC08} }

type c08Write struct {
	name string
	sql  string
}

var c08Alphabet = []c08Write{
	{"insert", `INSERT INTO t (v, pad) VALUES ('ins', 'p')`},
	{"update", `UPDATE t SET v = v || 'u' WHERE id % 3 = 0`},
	{"delete", `DELETE FROM t WHERE id % 4 = 1`},
	{"grow", `WITH RECURSIVE n(i) AS (SELECT 1 UNION ALL SELECT i+1 FROM n WHERE i<260) INSERT INTO t (v, pad) SELECT 'g'||(i%11), 'padpadpadpadpadpadpadpadpadpadpadpadpadpadpadpadpadpadpadpadpadpadpadpadpadpadpadpadpadpadpadpadpadpadpadpadpadpadpadpadpadpadpadpadpadpadpadpadpadpadpadpadpadpadpadpadpadpadpadpadpadpadpadpadpadpadpadpadpadpadpadpadpadpadpadpadpadpadpadpadpadpadpadpadpadpadpadpadpadpadpadpadpadpadpadpadpadpadpadpad'||i FROM n`},
	{"shrink", `DELETE FROM t WHERE id > 4; VACUUM`},
	{"repage", `PRAGMA page_size=2048; VACUUM`},
	{"newtable", `CREATE TABLE IF NOT EXISTS x (a, b); INSERT INTO x VALUES (1, 'x')`},
	{"droptable", `DROP TABLE IF EXISTS x`},
	{"newindex", `CREATE INDEX IF NOT EXISTS t_pad ON t (pad)`},
	{"dropindex", `DROP INDEX IF EXISTS t_v`},
	{"addcolumn", `ALTER TABLE t ADD COLUMN extra DEFAULT 'd'`},
	{"recreate", `DROP TABLE t; CREATE TABLE t (id INTEGER PRIMARY KEY, v, pad); INSERT INTO t VALUES (1, 're', 'created'), (2, 're2', 'created2')`},
	{"recreate-other-definition", `DROP TABLE t; CREATE TABLE t (pad, v COLLATE NOCASE, id INTEGER PRIMARY KEY, n DEFAULT 5); CREATE INDEX t_v ON t (pad DESC); INSERT INTO t (pad, v, id) VALUES ('P', 'x', 3), ('Q', 'X', 1), ('R', 'y', 2)`},
	{"wr-change", `INSERT OR REPLACE INTO w VALUES ('k' || (SELECT count(*) FROM w), 1); DELETE FROM w WHERE k = 'b'`},
	{"incr-vacuum", `PRAGMA incremental_vacuum`},
}

type c08Base struct {
	name  string
	setup string
}

func c08Bases() []c08Base {
	small := `CREATE TABLE t (id INTEGER PRIMARY KEY, v, pad); CREATE INDEX t_v ON t (v);
CREATE TABLE w (k TEXT PRIMARY KEY, v) WITHOUT ROWID;
INSERT INTO t (v, pad) VALUES ('a', 'p1'), ('b', 'p2'), ('c', 'p3'), ('a', 'p4'), ('d', 'p5'), ('e', 'p6');
INSERT INTO w VALUES ('a', 1), ('b', 2);`
	large := small + `
WITH RECURSIVE n(i) AS (SELECT 1 UNION ALL SELECT i+1 FROM n WHERE i<500) INSERT INTO t (v, pad) SELECT 'L'||(i%17), 'largelargelargelargelargelargelargelargelargelargelargelargelargelargelargelargelargelargelargelargelargelargelargelargelargelargelargelargelargelargelargelargelargelargelargelargelargelargelargelargelargelargelargelarge'||i FROM n;`
	return []c08Base{
		{"small", "PRAGMA page_size=512;" + small},
		{"large-300-pages", "PRAGMA page_size=512;" + large},
		{"small-auto-vacuum", "PRAGMA page_size=512; PRAGMA auto_vacuum=INCREMENTAL;" + small},
		// written in SQLite's legacy file format (schema format 3): DESC is ignored until a VACUUM rewrites the
		// file as format 4, where the same definitions are stored descending
		{"legacy-format-desc", `PRAGMA page_size=512; CREATE TABLE t (id INTEGER PRIMARY KEY, v, pad); CREATE INDEX t_v ON t (v DESC, pad);
CREATE TABLE w (k TEXT, v, PRIMARY KEY (k DESC)) WITHOUT ROWID; CREATE INDEX w_v ON w (v);
INSERT INTO t (v, pad) VALUES ('a', 'p1'), ('b', 'p2'), ('c', 'p3'), ('a', 'p4'), ('d', 'p5'), ('e', 'p6');
INSERT INTO w VALUES ('a', 1), ('b', 2), ('c', 3), ('d', 4);
ALTER TABLE w ADD COLUMN lg DEFAULT 'legacy';`},
	}
}

// lowDump: everything the low level API says, inside one explicit read transaction
func lowDump(d *sdb.Database) (string, error) {
	if err := d.RLock(); err != nil {
		return "", err
	}
	defer d.RUnlock()
	var b strings.Builder
	tables, err := d.Tables()
	if err != nil {
		return "", err
	}
	for _, tn := range tables {
		fmt.Fprintf(&b, "T %s\n", tn)
		s, serr := d.Schema(tn)
		if serr == nil && s.WithoutRowid {
			t, err := d.NonRowidTable(tn)
			if err != nil {
				return "", err
			}
			if err := t.Scan(func(rec sdb.Record) bool { b.WriteString(" " + RowS(CopyRec(rec)) + "\n"); return false }); err != nil {
				return "", err
			}
			continue
		}
		t, err := d.Table(tn)
		if err != nil {
			return "", err
		}
		if err := t.Scan(func(id int64, rec sdb.Record) bool { fmt.Fprintf(&b, " %d %s\n", id, RowS(CopyRec(rec))); return false }); err != nil {
			return "", err
		}
	}
	idx, err := d.Indexes()
	if err != nil {
		return "", err
	}
	for _, in := range idx {
		fmt.Fprintf(&b, "I %s\n", in)
		ix, err := d.Index(in)
		if err != nil {
			return "", err
		}
		if err := ix.Scan(func(rec sdb.Record) bool { b.WriteString(" " + RowS(CopyRec(rec)) + "\n"); return false }); err != nil {
			return "", err
		}
	}
	return b.String(), nil
}

func runC08(r *ev.Run) {
	depth := 3
	if r.Thorough() {
		depth = 4
	}
	r.Rule = fmt.Sprintf("every sequence of length <=%d (quick tier: every sequence of length 2, and of length 3 over the 8 operations that move pages, roots or definitions) over an alphabet of %d write transactions committed by a real SQLite connection in another process (insert, update, delete, bulk insert growing the file past its size at Open, delete+VACUUM shrink, VACUUM to another page size, create/drop table, create/drop index, ALTER TABLE ADD COLUMN, drop+recreate a table under the same name, WITHOUT ROWID change, incremental_vacuum) from 4 base databases (8 pages; auto_vacuum; legacy file format with DESC indexes, which a VACUUM turns into format 4; 300+ pages > the 100 page cache with sequences one step shorter; the first base once more with a file change counter of 0xffffffff, which the first commit wraps to 0, for the sequences of <=2); handles opened at depth 0 and at every later depth, plus at every depth two handles whose first transaction comes only after the next commit (one starting with the high level API, one with RLock + low level reads) and one opened at depth 0 that is first read after the last commit; the sequences of length <=2 (all, thorough) are run again with a writer that uses synchronous=OFF and, after every commit, opens its next transaction at once and leaves it open while the handles read (RESERVED lock, journal header already complete); one handle whose first call after every commit is Columns() of every table (compared with a fresh handle; dropped tables must be unknown); after every step every awake handle is read through the high level API and through the low level API inside RLock/RUnlock, twice; oracle: equals SQLite's dump of the file at that moment and a freshly opened handle's dump. kept objects: a low level handle keeps its *Table / *Index / *NonRowidTable from its first transaction; after every commit of every sequence of <=2 (3 thorough) row changes out of 5 its next transaction starts with a scan, rowid lookup or keyed scan through a kept object (every choice of the first one) and must equal a fresh handle's (a write that changes sqlite_master ends the history). stopped-then-commit histories: a read stopped by its callback after k rows (4 kinds x k at and around the first leaf boundary), a commit by another process (3 kinds), then every kind of read stopped at k and run to its end equals a fresh handle's. read histories with no writer at all: every ordered pair of read operations (the first possibly stopped early) on one handle, the second result is a fresh handle's. interval family: every history of <=5 (6 thorough) steps over {the handle reads, the file becomes unusable (switched to WAL mode / a writer died with spilled pages and a journal), it comes back with a change, a plain commit}: reads fail while it is unusable and equal a fresh handle's whenever it is usable. window family: a handle that has read before reads again (Select, IndexedSelectEq, SelectRowid, PKSelect, Columns, RLock + low level scan) and another process commits {row changes, schema change, delete+VACUUM} at the k-th pager-call boundary of that read, for every k (before the lock request, the reserved probe and every page read, before and after lock and unlock): a commit that was complete before the lock request must be seen by that read, a refused one must not, anything else is the old or the new state as a whole, and the next read sees the final state. non-trivial = sequences containing a write that changes the file", depth, len(c08Alphabet))
	r.Set("depth", depth)
	c08Window(r)
	c08Intervals(r)
	c08KeptObjects(r)
	stoppedThenCommit(r, "C08")
	readHistories(r, "C08")
	dir := ev.TmpDir("c08")
	defer os.RemoveAll(dir)
	bases := c08Bases()
	// base images via the peer (real files)
	type job struct {
		base   int
		seq    []int
		openTx bool
	}
	var jobs []job
	// quick tier: full depth-2 enumeration plus depth 3 over the operations that move pages, roots or definitions
	core := map[string]bool{"update": true, "grow": true, "shrink": true, "repage": true, "dropindex": true, "newindex": true, "recreate": true, "recreate-other-definition": true}
	allowed := func(cur []int) bool {
		if r.Thorough() || len(cur) < 3 {
			return true
		}
		for _, o := range cur {
			if !core[c08Alphabet[o].name] {
				return false
			}
		}
		return true
	}
	var gen func(cur []int)
	gen = func(cur []int) {
		if !r.Thorough() && len(cur) == depth-1 {
			for b := range bases {
				if b != 1 {
					jobs = append(jobs, job{b, append([]int{}, cur...), false})
				}
			}
		}
		if !allowed(cur) {
			return
		}
		if len(cur) == depth-1 {
			// the 300 page base is 40x more expensive to dump: one step less
			jobs = append(jobs, job{1, append([]int{}, cur...), false})
		}
		if len(cur) == depth {
			for b := range bases {
				if b != 1 {
					jobs = append(jobs, job{b, append([]int{}, cur...), false})
				}
			}
			return
		}
		for i := range c08Alphabet {
			gen(append(cur, i))
		}
	}
	gen(nil)
	// the same sequences with a writer that keeps a transaction open between its commits
	for _, j := range append([]job{}, jobs...) {
		if j.base != 1 && (r.Thorough() || len(j.seq) <= 2) {
			jobs = append(jobs, job{j.base, j.seq, true})
		}
	}
	r.Set("sequences", len(jobs))
	baseImg := make([][]byte, len(bases))
	{
		p, err := StartPeer()
		if err != nil {
			r.Harness("peer: %v", err)
			return
		}
		for i, b := range bases {
			path := filepath.Join(dir, fmt.Sprintf("base%d.sqlite", i))
			p.MustOK("open " + path)
			if strings.HasPrefix(b.name, "legacy") {
				p.MustOK("legacy")
			}
			p.MustOK("exec " + b.setup)
			p.MustOK("close")
			baseImg[i], _ = os.ReadFile(path)
			r.StateBytes(baseImg[i])
		}
		p.Stop()
	}
	// the first base once more with a file change counter (and the version-valid-for field next to the in-header size)
	// of 0xffffffff: the first commit wraps it to 0, so "changed" must not mean "grew"
	if len(baseImg[0]) >= 100 {
		img := append([]byte{}, baseImg[0]...)
		binary.BigEndian.PutUint32(img[24:28], 0xffffffff)
		binary.BigEndian.PutUint32(img[92:96], 0xffffffff)
		bases = append(bases, c08Base{name: bases[0].name + " (file change counter 0xffffffff)"})
		baseImg = append(baseImg, img)
		r.StateBytes(img)
		for _, j := range append([]job{}, jobs...) {
			if j.base == 0 && len(j.seq) <= 2 && !j.openTx {
				jobs = append(jobs, job{len(bases) - 1, j.seq, false})
			}
		}
		r.Set("sequences", len(jobs))
	}
	nw := runtime.NumCPU()
	var mu sync.Mutex
	next := 0
	var wg sync.WaitGroup
	for w := 0; w < nw; w++ {
		wg.Add(1)
		go func(w int) {
			defer wg.Done()
			// a read through a stale page number can touch the mapping past the end of a shrunk file:
			// make that a recoverable panic of this goroutine instead of the death of the process
			debug.SetPanicOnFault(true)
			p, err := StartPeer()
			if err != nil {
				r.Harness("peer: %v", err)
				return
			}
			defer p.Stop()
			for {
				mu.Lock()
				i := next
				next++
				mu.Unlock()
				if i >= len(jobs) {
					return
				}
				c08Sequence(r, p, dir, w, i, bases[jobs[i].base].name, baseImg[jobs[i].base], jobs[i].seq, jobs[i].openTx)
			}
		}(w)
	}
	wg.Wait()
}

// openTx: the writer runs with synchronous=OFF and, after every commit, opens the next transaction at
// once and changes page 1 (RESERVED lock, a journal whose header is already complete) while the handles read
func c08Sequence(r *ev.Run, p *Peer, dir string, w, n int, baseName string, base []byte, seq []int, openTx bool) {
	path := filepath.Join(dir, fmt.Sprintf("w%d.sqlite", w))
	os.Remove(path)
	os.Remove(path + "-journal")
	if err := os.WriteFile(path, base, 0o644); err != nil {
		r.Harness("write: %v", err)
		return
	}
	p.MustOK("open " + path)
	defer p.Do("close")
	inTx := false
	if openTx {
		p.MustOK("exec PRAGMA synchronous=OFF")
		baseName += " (writer keeps a transaction open, synchronous=OFF)"
		defer func() {
			if inTx {
				p.Do("exec ROLLBACK")
			}
		}()
	}
	names := make([]string, len(seq))
	for i, s := range seq {
		names[i] = c08Alphabet[s].name
	}
	r.Eval(1)
	var handles []*Env
	var openedAt []int
	// wakeAt[i]: the first step at which handle i is read at all (a handle opened before a commit whose
	// first transaction comes after it); lowFirst[i]: its reads start with the low level API
	var wakeAt []int
	var lowFirst []bool
	defer func() {
		for _, h := range handles {
			h.H.Close()
		}
	}()
	openHandle := func(at int) bool {
		e, err := OpenEnv(path)
		if err != nil {
			r.Violation("C08:open", fmt.Sprintf("Open at depth %d of %v: %v", at, names, err), map[string]interface{}{"base": baseName, "sequence": names[:at]})
			return false
		}
		handles = append(handles, e)
		openedAt = append(openedAt, at)
		wakeAt = append(wakeAt, at)
		lowFirst = append(lowFirst, false)
		return true
	}
	openDormant := func(at, wake int, low bool) bool {
		if !openHandle(at) {
			return false
		}
		wakeAt[len(wakeAt)-1] = wake
		lowFirst[len(lowFirst)-1] = low
		return true
	}
	changed := false
	colsFirst, _ := OpenEnv(path)
	colsFirstKnew := map[string]bool{}
	if colsFirst != nil {
		defer colsFirst.H.Close()
	}
	for step := 0; step <= len(seq); step++ {
		if inTx {
			p.MustOK("exec ROLLBACK")
			inTx = false
		}
		if step > 0 {
			st, rest := p.Do("exec " + c08Alphabet[seq[step-1]].sql)
			if st != "ok" {
				// e.g. ADD COLUMN twice: the statement failed as a whole, nothing committed
				r.Outcome("write-rejected:" + names[step-1])
				_ = rest
			} else {
				changed = true
			}
		}
		if openTx {
			if st, _ := p.Do("exec BEGIN IMMEDIATE"); st == "ok" {
				inTx = true
				p.MustOK(fmt.Sprintf("exec PRAGMA user_version=%d", step+1))
			}
		}
		if !openHandle(step) {
			return
		}
		if step < len(seq) {
			// opened now, first transaction only after the next commit (and, from the start, after the last one)
			if !openDormant(step, step+1, false) || !openDormant(step, step+1, true) {
				return
			}
			if step == 0 && len(seq) >= 2 {
				if !openDormant(0, len(seq), false) {
					return
				}
			}
		}
		st, want := p.Do("dump")
		if st != "ok" {
			r.Harness("C08 sqlite dump after %v: %s", names[:step], want)
			return
		}
		r.Validated(1)
		r.State(want)
		art := map[string]interface{}{"base": baseName, "sequence": names[:step]}
		// a fresh handle for the differential low level dump
		fresh, err := OpenEnv(path)
		if err != nil {
			r.Violation("C08:open", fmt.Sprintf("fresh Open after %v: %v", names[:step], err), art)
			return
		}
		freshLow, err := lowDump(fresh.D)
		// a handle whose FIRST call after every commit is Columns(): the call must not answer from what the
		// handle remembered (differential: the fresh handle's answer; tables that are gone must be unknown)
		if colsFirst != nil {
			fresh.D.RLock()
			names, _ := fresh.D.Tables()
			fresh.D.RUnlock()
			now := map[string]bool{}
			for _, n := range names {
				now[n] = true
				wantCols, werr := fresh.H.Columns(n)
				gotCols, gerr := colsFirst.H.Columns(n)
				r.Trans(1)
				if (werr == nil) != (gerr == nil) || strings.Join(gotCols, ",") != strings.Join(wantCols, ",") {
					r.Violation("C08:columns-first:"+c08Last(names2(names, seq, step), step), fmt.Sprintf("Columns(%s) as the first call after %v: %v (err=%v); a fresh handle: %v (err=%v)", n, names2(nil, seq, step), gotCols, gerr, wantCols, werr), art)
					break
				}
			}
			for n := range colsFirstKnew {
				if !now[n] {
					if c, err := colsFirst.H.Columns(n); err == nil {
						r.Violation("C08:columns-first:gone", fmt.Sprintf("Columns(%s) as the first call after %v still answers %v; the table is gone", n, names2(nil, seq, step), c), art)
					}
				}
			}
			colsFirstKnew = now
			LittleDump(colsFirst.H, colsFirst.D) // load everything again for the next round
		}
		fresh.H.Close()
		if err != nil {
			r.Violation("C08:fresh-low-read-error", fmt.Sprintf("fresh handle, low level read after %v: %v", names[:step], err), art)
			return
		}
		for hi, h := range handles {
			if wakeAt[hi] > step {
				continue
			}
			a2 := map[string]interface{}{"base": baseName, "sequence": names[:step], "handle_opened_after_step": openedAt[hi], "first_read_at_step": wakeAt[hi], "low_level_first": lowFirst[hi]}
			age := "long-lived"
			if openedAt[hi] == step {
				age = "fresh"
			} else if wakeAt[hi] == step {
				age = "first-read"
			}
			for rep := 0; rep < 2; rep++ {
				r.Trans(2)
				var got *Dump
				var err error
				var low string
				var lerr error
				if p := Safely(func() {
					if lowFirst[hi] && rep == 0 {
						low, lerr = lowDump(h.D)
						got, err = LittleDump(h.H, h.D)
						return
					}
					got, err = LittleDump(h.H, h.D)
					if err == nil {
						low, lerr = lowDump(h.D)
					}
				}); p != nil {
					r.Violation("C08:read-crashes:"+age+":"+c08Last(names, step), fmt.Sprintf("handle opened after step %d, read after %v crashes: %v", openedAt[hi], names[:step], p), a2)
					return
				}
				if err != nil {
					r.Violation("C08:read-error:"+age+":"+c08Last(names, step), fmt.Sprintf("handle opened after step %d, read after %v: %v", openedAt[hi], names[:step], err), a2)
					break
				}
				if gs := got.String(); gs != want {
					r.Violation("C08:stale-or-wrong:"+age+":"+c08Last(names, step), fmt.Sprintf("handle opened after step %d, read #%d after %v differs from SQLite: %s", openedAt[hi], rep+1, names[:step], firstLineDiff(gs, want)), a2)
					break
				}
				if err = lerr; err != nil {
					r.Violation("C08:low-read-error:"+age+":"+c08Last(names, step), fmt.Sprintf("handle opened after step %d, low level read after %v: %v", openedAt[hi], names[:step], err), a2)
					break
				}
				if low != freshLow {
					r.Violation("C08:low-stale:"+age+":"+c08Last(names, step), fmt.Sprintf("handle opened after step %d, low level read #%d after %v differs from a fresh handle: %s", openedAt[hi], rep+1, names[:step], firstLineDiff(low, freshLow)), a2)
					break
				}
			}
		}
	}
	if changed {
		r.NontrivialN(1)
	}
	if n == 1234 {
		r.Sample(map[string]interface{}{"base": baseName, "sequence": names})
	}
}

func c08Last(names []string, step int) string {
	if step == 0 {
		return "initial"
	}
	return names[step-1]
}

// names2: the operation names of seq[:step] (first argument unused; kept for call-site symmetry)
func names2(_ []string, seq []int, step int) []string {
	out := make([]string, 0, step)
	for _, o := range seq[:step] {
		out = append(out, c08Alphabet[o].name)
	}
	return out
}
