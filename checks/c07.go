package checks

// C07 — Readers yield to writers and only ever see committed data. Kind I
// (sequential product): a real SQLite writer in another process is parked
// after every statement of its transaction; in every parked state (its actual
// lock level read from the kernel's lock table) every read operation runs.

import (
	"database/sql"
	"fmt"
	"os"
	"path/filepath"
	"strings"

	"verif/internal/ev"

	"github.com/alicebob/sqlittle"
	sdb "github.com/alicebob/sqlittle/db"
)

func init() { Registry["C07"] = Check{Level: "model_checking", Fn: runC07} }

const c07Setup = `
CREATE TABLE t (id INTEGER PRIMARY KEY, v, pad);
CREATE INDEX t_v ON t (v);
CREATE TABLE w (k TEXT PRIMARY KEY, v) WITHOUT ROWID;
WITH RECURSIVE n(i) AS (SELECT 1 UNION ALL SELECT i+1 FROM n WHERE i<700)
INSERT INTO t SELECT i, 'v'||(i%9), substr('ppppppppppppppppppppppppppppppppppppppppppppppppppppppppppppppp', 1, i%50) FROM n;
INSERT INTO w VALUES ('a', 1), ('b', 2), ('c', 3);
CREATE TABLE x01 (a, b); CREATE TABLE x02 (a, b); CREATE TABLE x03 (a, b); CREATE TABLE x04 (a, b); CREATE TABLE x05 (a, b); CREATE TABLE x06 (a, b);
CREATE TABLE x07 (a, b); CREATE TABLE x08 (a, b); CREATE TABLE x09 (a, b); CREATE TABLE x10 (a, b); CREATE TABLE x11 (a, b); CREATE TABLE x12 (a, b);
`

func c07Ops() []Op {
	ops := StdOps(OpSpec{Table: "t", Cols: []string{"id", "v"}, Index: "t_v", Key: keyOf("v3"), DbKey: dbKeyOf("v3"), DbKeyTo: dbKeyOf("v5"), PKKey: keyOf(int64(7)), Rowid: 7})
	ops = append(ops, StdOps(OpSpec{Table: "w", Cols: []string{"k", "v"}, WR: true, PKKey: keyOf("b")})...)
	// operations whose result does not depend on the data (definitions) stay in: they must also fail under PENDING/EXCLUSIVE
	return ops
}

type c07Step struct {
	who  string // W | R3
	cmd  string
	note string
}

type c07Scenario struct {
	name   string
	pragma string // journal mode etc, run once by W before the transaction
	steps  []c07Step
}

func c07Scenarios(thorough bool) []c07Scenario {
	manyInserts := `WITH RECURSIVE n(i) AS (SELECT 1000 UNION ALL SELECT i+1 FROM n WHERE i<1400) INSERT INTO t SELECT i, 'spill'||i, 'xxxxxxxxxxxxxxxxxxxxxxxxxxxxxxxxxxxxxxxxxxxxxxxxxxxxxxxxxxxxxxxxxxxxxxxxxxxxxxxxxxxxxxxxxxxxxxxxxxxxxxxxxxxxxx' FROM n`
	modes := []string{"DELETE"}
	if thorough {
		modes = []string{"DELETE", "TRUNCATE", "PERSIST"}
	}
	var out []c07Scenario
	for _, m := range modes {
		pr := "PRAGMA journal_mode=" + m
		out = append(out,
			c07Scenario{"small-commit/" + m, pr, []c07Step{
				{"W", "BEGIN", "transaction open, no lock"},
				{"W", "SELECT count(*) FROM t", "SHARED"},
				{"W", "INSERT INTO t VALUES (500, 'uncommitted', 'p')", "RESERVED, journal on disk, nothing in the db file"},
				{"W", "UPDATE t SET v = 'changed' WHERE id = 7", "RESERVED"},
				{"W", "DELETE FROM w WHERE k = 'b'", "RESERVED"},
				{"W", "COMMIT", "committed"},
			}},
			c07Scenario{"rollback/" + m, pr, []c07Step{
				{"W", "BEGIN IMMEDIATE", "RESERVED"},
				{"W", "INSERT INTO t VALUES (501, 'uncommitted', 'p')", "RESERVED"},
				{"W", "ROLLBACK", "rolled back"},
			}},
			c07Scenario{"spill/" + m, pr + "; PRAGMA cache_size=1", []c07Step{
				{"W", "BEGIN", ""},
				{"W", "INSERT INTO t VALUES (502, 'first', 'p')", "RESERVED"},
				{"W", manyInserts, "EXCLUSIVE: dirty pages spilled into the db file, hot-looking journal"},
				{"W", "UPDATE t SET v = 'x' WHERE id < 30", "EXCLUSIVE"},
				{"W", "COMMIT", "committed"},
			}},
			// the same with a database file that carries no write permission bit when sqlittle opens it (the writer
			// opened it before, or is root): permission bits say nothing about writers
			c07Scenario{"spill-on-a-read-only-file/" + m, pr + "; PRAGMA cache_size=1", []c07Step{
				{"W", "BEGIN", ""},
				{"W", "INSERT INTO t VALUES (502, 'first', 'p')", "RESERVED"},
				{"W", manyInserts, "EXCLUSIVE: dirty pages spilled into the db file"},
				{"W", "COMMIT", "committed"},
			}},
			c07Scenario{"spill-rollback/" + m, pr + "; PRAGMA cache_size=1", []c07Step{
				{"W", "BEGIN", ""},
				{"W", manyInserts, "EXCLUSIVE with spilled pages"},
				{"W", "ROLLBACK", "rolled back: the db file is restored from the journal"},
			}},
			c07Scenario{"pending/" + m, pr, []c07Step{
				{"R3", "BEGIN; SELECT count(*) FROM t", "a third connection holds SHARED"},
				{"W", "BEGIN IMMEDIATE", "RESERVED"},
				{"W", "INSERT INTO t VALUES (503, 'uncommitted', 'p')", "RESERVED"},
				{"W", "COMMIT", "BUSY: stays PENDING"},
				{"W", "COMMIT", "BUSY again: still PENDING"},
				{"R3", "COMMIT", "reader gone"},
				{"W", "COMMIT", "committed"},
			}},
			c07Scenario{"two-transactions/" + m, pr, []c07Step{
				{"W", "BEGIN", ""},
				{"W", "UPDATE t SET v = 'second' WHERE id = 1", "RESERVED"},
				{"W", "COMMIT", "committed"},
				{"W", "BEGIN", ""},
				{"W", "UPDATE t SET v = 'third' WHERE id = 1", "RESERVED again, right after a commit"},
				{"W", "INSERT INTO w VALUES ('q', 9)", "RESERVED"},
				{"W", "COMMIT", "committed"},
			}},
			c07Scenario{"two-transactions-sync-off/" + m, pr + "; PRAGMA synchronous=OFF", []c07Step{
				{"W", "BEGIN", ""},
				{"W", "UPDATE t SET v = 'second' WHERE id = 1", "RESERVED, the journal header is complete at once (no sync)"},
				{"W", "COMMIT", "committed"},
				{"W", "BEGIN", ""},
				{"W", "UPDATE t SET v = 'third' WHERE id = 1", "RESERVED again with a hot-looking journal"},
				{"W", "INSERT INTO w VALUES ('q', 9)", "RESERVED"},
				{"W", "COMMIT", "committed"},
			}},
			c07Scenario{"schema-change-spilled-then-rolled-back/" + m, pr + "; PRAGMA cache_size=1", []c07Step{
				{"W", "BEGIN", ""},
				{"W", "ALTER TABLE t ADD COLUMN extra DEFAULT 'never committed'", "RESERVED: sqlite_master (several pages) changed in the cache"},
				{"W", "CREATE TABLE uncommitted_table (a)", "RESERVED"},
				{"W", manyInserts, "EXCLUSIVE: dirty pages, sqlite_master leaves included, spilled into the db file"},
				{"W", "ROLLBACK", "rolled back: change counter and schema cookie are what they were"},
				{"W", "BEGIN IMMEDIATE", "RESERVED"},
				{"W", "INSERT INTO w VALUES ('z', 26)", "RESERVED"},
				{"W", "COMMIT", "committed"},
			}},
			c07Scenario{"schema-changes-committed/" + m, pr, []c07Step{
				{"W", "BEGIN", ""},
				{"W", "CREATE TABLE fresh_table (a, b); INSERT INTO fresh_table VALUES (1, 'x'); CREATE TABLE w_new (k TEXT PRIMARY KEY, v) WITHOUT ROWID; INSERT INTO w_new SELECT k, v + 1000 FROM w; DROP TABLE w; ALTER TABLE w_new RENAME TO w", "RESERVED: a new table, and w rebuilt under its old name (other root page, other values)"},
				{"W", "COMMIT", "committed (schema cookie changed)"},
				{"W", "BEGIN IMMEDIATE", "RESERVED right after the schema change"},
				{"W", "INSERT INTO w VALUES ('uncommitted', 1)", "RESERVED"},
				{"W", "ROLLBACK", "rolled back"},
				{"W", "DROP INDEX t_v; CREATE INDEX t_v ON t (v DESC)", "committed: the index rebuilt under its old name, other order"},
			}},
			c07Scenario{"exclusive-mode/" + m, pr + "; PRAGMA locking_mode=EXCLUSIVE", []c07Step{
				{"W", "BEGIN EXCLUSIVE", "EXCLUSIVE"},
				{"W", "INSERT INTO t VALUES (504, 'uncommitted', 'p')", "EXCLUSIVE"},
				{"W", "COMMIT", "committed but the lock is kept (locking_mode=EXCLUSIVE)"},
				{"W", "PRAGMA locking_mode=NORMAL; SELECT count(*) FROM t", "lock released at the next access"},
			}},
		)
	}
	return out
}

func runC07(r *ev.Run) {
	r.Rule = "writer scripts of a real SQLite connection in another process (small commit, two transactions back to back with synchronous FULL and OFF, rollback, spilling bulk insert with cache_size=1, a schema change spilled with a multi-page sqlite_master and then rolled back, commit blocked by a third reader = PENDING, locking_mode=EXCLUSIVE), journal modes DELETE (+TRUNCATE, PERSIST thorough), parked after EVERY statement; the table scanned by the long-lived handles spans more pages than the handle's page cache holds (so its older cache generation is in use); in every parked state every read operation (all low level and high level calls, the driver) runs on a fresh handle and on a long-lived handle; in addition one long-lived handle per SUBSET of the steps reads (Select on both tables, IndexedSelect) only at the steps of its subset and starting with each of the three operations in turn, so every read schedule of a long-lived handle is covered; a spilling writer on a database file without write permission bits; a script that commits schema changes (new table, a table and an index rebuilt under their old names with other content); and one handle OPENED in every parked state, read at every later step; and one database/sql prepared statement per step, executed for the first time at that step and at every later one; the writer's lock level is read from /proc/locks; oracle: PENDING or EXCLUSIVE => error and zero rows; RESERVED/SHARED/UNLOCKED => success and exactly the last committed content (dumped by a separate SQLite reader). second family (mid-read): a Select / IndexedSelect parked in its row callback, on a fresh handle and on a handle opened before another process grew the file threefold; the writer (one page cache: it wants to spill) begins and updates every row at row j and tries COMMIT or ROLLBACK at row k, for every j <= k (and, for a third of them, with a select-like call made from the first row's callback on the same handle): no row of the unfinished transaction is delivered, the result equals the state committed when the read started, the writer never holds EXCLUSIVE and never commits while the read is in progress, and can finish after it returned. non-trivial = states in which the writer holds RESERVED or more"
	defer c07MidRead(r)
	dir := ev.TmpDir("c07")
	defer os.RemoveAll(dir)
	scen := c07Scenarios(r.Thorough())
	ops := c07Ops()
	// each scenario gets its own file and peers; scenarios run in parallel
	ev.Parallel(len(scen), func(si int) {
		sc := scen[si]
		path := filepath.Join(dir, fmt.Sprintf("s%d.sqlite", si))
		W, err := StartPeer()
		if err != nil {
			r.Harness("peer: %v", err)
			return
		}
		defer W.Stop()
		R3, err := StartPeer()
		if err != nil {
			r.Harness("peer: %v", err)
			return
		}
		defer R3.Stop()
		W.MustOK("open " + path)
		W.MustOK("exec PRAGMA page_size=512")
		W.MustOK("exec " + c07Setup)
		for _, p := range strings.Split(sc.pragma, ";") {
			if st, rest := W.Do("exec " + strings.TrimSpace(p)); st != "ok" {
				r.Harness("pragma %q: %s", p, rest)
				return
			}
		}
		R3.MustOK("open " + path)
		if strings.Contains(sc.name, "read-only-file") {
			if os.Geteuid() != 0 {
				return // the writer could not write it either
			}
			os.Chmod(path, 0o444)
		}
		long, err := OpenEnv(path)
		if err != nil {
			r.Harness("open: %v", err)
			return
		}
		defer long.H.Close()
		// the committed content, by op, from sqlittle itself when nobody writes (cross-checked with SQLite's dump)
		committed := c07Committed(r, path, ops, R3)
		if committed == nil {
			return
		}
		// one long-lived handle per subset of the steps (every read schedule); each reads once now (warm cache)
		subset := map[int]*Env{}
		if len(sc.steps) <= 8 {
			for mask := 3; mask < 3<<uint(len(sc.steps)); mask++ { // mask/3: the steps it reads at, mask%3: which operation it starts with
				le, err := OpenEnv(path)
				if err != nil {
					r.Harness("open: %v", err)
					return
				}
				defer le.H.Close()
				for _, op := range ops {
					if op.Name == "Select(t)" || op.Name == "Select(w)" || op.Name == "IndexedSelect(t,t_v)" {
						op.Run(le, 0)
					}
				}
				subset[mask] = le
			}
		}
		// one prepared statement per step (see below)
		var prepared []*sql.Stmt
		if pool, err := sql.Open("sqlittle", path); err == nil {
			defer pool.Close()
			if len(sc.steps) <= 8 {
				for range sc.steps {
					st, err := pool.Prepare("SELECT id, v FROM t")
					if err != nil {
						r.Harness("prepare: %v", err)
						return
					}
					defer st.Close()
					prepared = append(prepared, st)
				}
			}
		}
		openedAt := map[int]*Env{}
		openedLevel := map[int]string{}
		for k, st := range sc.steps {
			who := W
			if st.who == "R3" {
				who = R3
			}
			status, rest := who.Do("exec " + st.cmd)
			locks, err := FileLocks(path)
			if err != nil {
				r.Harness("proc locks: %v", err)
				return
			}
			ws := StateOf(locks, W.Pid)
			level := ws.SQLiteLevel()
			_, jerr := os.Stat(path + "-journal")
			art := map[string]interface{}{"scenario": sc.name, "after_step": k, "step": st.who + ": " + clipS(st.cmd, 80), "step_result": status + " " + clipS(rest, 60), "writer_locks": ws.Description, "writer_level": level, "journal_on_disk": jerr == nil, "steps": stepsS(sc.steps[:k+1])}
			r.State(fmt.Sprintf("%s/%d/%s", sc.name, k, level))
			r.Outcome("writer=" + level)
			if level == "EXCLUSIVE" && k == 2 {
				r.Sample(art)
			}
			// after a commit the committed content changes: re-derive it when nobody holds more than SHARED
			if level == "UNLOCKED" || level == "SHARED" {
				if st.who == "W" && status == "ok" { // a COMMIT, a ROLLBACK, or statements outside a transaction
					committed = c07Committed(r, path, ops, R3)
					if committed == nil {
						return
					}
				}
			}
			mustFail := level == "PENDING" || level == "EXCLUSIVE"
			// prepared statements of the database/sql driver: statement f is prepared before the writer starts and
			// executed for the first time at step f, then at every later step - whatever its earlier executions met
			// (a refusal, a spilled transaction) must not stick to it
			if prepared != nil {
				di := -1
				for oi, op := range ops {
					if op.Name == "Driver(t)" {
						di = oi
					}
				}
				for f := 0; f <= k && f < len(prepared) && di >= 0; f++ {
					var got [][]interface{}
					rows, qerr := prepared[f].Query()
					if qerr == nil {
						for rows.Next() {
							var a, b interface{}
							if qerr = rows.Scan(&a, &b); qerr != nil {
								break
							}
							got = append(got, []interface{}{a, b})
						}
						if qerr == nil {
							qerr = rows.Err()
						}
						rows.Close()
					}
					r.Eval(1)
					r.Trans(1)
					a2 := map[string]interface{}{"op": "prepared SELECT id, v FROM t", "handle": "a database/sql prepared statement", "first_executed_at_step": f}
					for kk, v := range art {
						a2[kk] = v
					}
					switch {
					case mustFail && (qerr == nil || len(got) > 0):
						r.Violation("C07:read-under-"+strings.ToLower(level)+":PreparedStatement", fmt.Sprintf("a prepared statement (first executed at step %d) while the writer holds %s: err=%v, %d rows", f, level, qerr, len(got)), a2)
					case !mustFail && qerr != nil:
						r.Violation("C07:refused-under-"+strings.ToLower(level)+":PreparedStatement", fmt.Sprintf("a prepared statement (first executed at step %d) fails (%v) although the writer holds only %s", f, qerr, level), a2)
					case !mustFail && !RowsEq(got, committed[di].Rows, false):
						r.Violation("C07:stale-or-uncommitted:PreparedStatement", fmt.Sprintf("a prepared statement (first executed at step %d), now at step %d with the writer %s: %d rows, the last committed state has %d: %s", f, k, level, len(got), len(committed[di].Rows), firstDiffSafe(got, committed[di].Rows)), a2)
					}
				}
			}
			// handles OPENED in an earlier writer state (whatever Open saw then) and not used since: their first and
			// every later read must obey the same rules
			for ok, le := range openedAt {
				for oi, op := range ops {
					if op.Name != "Select(t)" && op.Name != "Columns(t)" && op.Name != "Tables" && op.Name != "IndexedSelect(t,t_v)" && op.Name != "Select(w)" {
						continue
					}
					var res OpResult
					p := Safely(func() { res = op.Run(le, 0) })
					r.Eval(1)
					r.Trans(1)
					a2 := map[string]interface{}{"op": op.Name, "handle": fmt.Sprintf("opened after step %d (writer then: %s)", ok, openedLevel[ok])}
					for kk, v := range art {
						a2[kk] = v
					}
					switch {
					case p != nil:
						r.Violation("C07:panic", fmt.Sprintf("%s panics while the writer is %s: %v", op.Name, level, p), a2)
					case mustFail && (res.Err == nil || len(res.Rows) > 0):
						r.Violation("C07:read-under-"+strings.ToLower(level)+":"+opKind(op.Name), fmt.Sprintf("%s (handle opened after step %d) while the writer holds %s: err=%v, %d rows", op.Name, ok, level, res.Err, len(res.Rows)), a2)
					case !mustFail && res.Err != nil:
						r.Violation("C07:refused-under-"+strings.ToLower(level)+":"+opKind(op.Name), fmt.Sprintf("%s (handle opened after step %d) fails (%v) although the writer holds only %s", op.Name, ok, res.Err, level), a2)
					case !mustFail && !RowsEq(res.Rows, committed[oi].Rows, false):
						r.Violation("C07:stale-or-uncommitted:"+opKind(op.Name), fmt.Sprintf("%s on a handle opened after step %d (writer then %s), now at step %d with the writer %s: %d rows, the last committed state has %d: %s", op.Name, ok, openedLevel[ok], k, level, len(res.Rows), len(committed[oi].Rows), firstDiffSafe(res.Rows, committed[oi].Rows)), a2)
					}
				}
			}
			if le, err := OpenEnv(path); err == nil {
				openedAt[k] = le
				openedLevel[k] = level
				defer le.H.Close()
			}
			// handles that read only at SOME steps: handle s (a bit mask over the steps) reads now iff bit k is set
			for key, le := range subset {
				mask, rot := key/3, key%3
				if mask&(1<<uint(k)) == 0 {
					continue
				}
				// the operation a handle starts with after a commit decides which of its caches is consulted first:
				// every one of the three goes first on one handle of each read schedule
				var order []int
				for oi, op := range ops {
					if op.Name == "Select(t)" || op.Name == "Select(w)" || op.Name == "IndexedSelect(t,t_v)" {
						order = append(order, oi)
					}
				}
				if len(order) > 0 {
					order = append(order[rot%len(order):], order[:rot%len(order)]...)
				}
				for _, oi := range order {
					op := ops[oi]
					var res OpResult
					p := Safely(func() { res = op.Run(le, 0) })
					r.Eval(1)
					r.Trans(1)
					a2 := map[string]interface{}{"op": op.Name, "handle": "long-lived, reads only at the steps of the mask", "read_mask": mask, "starts_with_operation": rot}
					for kk, v := range art {
						a2[kk] = v
					}
					switch {
					case p != nil:
						r.Violation("C07:panic", fmt.Sprintf("%s panics while the writer is %s: %v", op.Name, level, p), a2)
					case mustFail && (res.Err == nil || len(res.Rows) > 0):
						r.Violation("C07:read-under-"+strings.ToLower(level)+":"+opKind(op.Name), fmt.Sprintf("%s (handle reading at steps %b) while the writer holds %s: err=%v, %d rows", op.Name, mask, level, res.Err, len(res.Rows)), a2)
					case !mustFail && res.Err != nil:
						r.Violation("C07:refused-under-"+strings.ToLower(level)+":"+opKind(op.Name), fmt.Sprintf("%s (handle reading at steps %b) fails (%v) although the writer holds only %s", op.Name, mask, res.Err, level), a2)
					case !mustFail && !RowsEq(res.Rows, committed[oi].Rows, false):
						r.Violation("C07:stale-or-uncommitted:"+opKind(op.Name), fmt.Sprintf("%s on a long-lived handle that reads only at steps %b (bit k = step k), now at step %d with the writer %s: %d rows, the last committed state has %d: %s", op.Name, mask, k, level, len(res.Rows), len(committed[oi].Rows), firstDiffSafe(res.Rows, committed[oi].Rows)), a2)
					}
				}
			}
			for hi, hname := range []string{"fresh", "long-lived"} {
				for oi, op := range ops {
					var e *Env
					var fresh *Env
					if hi == 0 {
						var err error
						fresh, err = OpenEnv(path)
						if err != nil {
							// Open itself reads the header without a lock; a failure here is acceptable only when it must fail
							if !mustFail {
								r.Violation("C07:open-fails:"+level, fmt.Sprintf("Open fails (%v) although the writer holds only %s", err, level), art)
							}
							continue
						}
						e = fresh
					} else {
						e = long
					}
					var res OpResult
					p := Safely(func() { res = op.Run(e, 0) })
					if fresh != nil {
						fresh.H.Close()
					}
					r.Eval(1)
					r.Trans(1)
					if level != "UNLOCKED" && level != "SHARED" {
						r.NontrivialN(1)
					}
					a2 := map[string]interface{}{"op": op.Name, "handle": hname}
					for kk, v := range art {
						a2[kk] = v
					}
					if p != nil {
						r.Violation("C07:panic", fmt.Sprintf("%s panics while the writer is %s: %v", op.Name, level, p), a2)
						continue
					}
					if mustFail {
						if !op.High {
							// the low level API takes the lock in RLock(); our wrapper returns its error as the op's error
						}
						if res.Err == nil || len(res.Rows) > 0 {
							r.Violation("C07:read-under-"+strings.ToLower(level)+":"+opKind(op.Name), fmt.Sprintf("%s (%s handle) while the writer holds %s (%s): err=%v, %d rows delivered", op.Name, hname, level, ws.Description, res.Err, len(res.Rows)), a2)
						}
						continue
					}
					if res.Err != nil {
						r.Violation("C07:refused-under-"+strings.ToLower(level)+":"+opKind(op.Name), fmt.Sprintf("%s (%s handle) fails (%v) although the writer holds only %s (journal on disk: %v)", op.Name, hname, res.Err, level, jerr == nil), a2)
						continue
					}
					if !RowsEq(res.Rows, committed[oi].Rows, false) {
						r.Violation("C07:uncommitted-data:"+opKind(op.Name), fmt.Sprintf("%s (%s handle) while the writer is %s: %d rows, the last committed state has %d: %s", op.Name, hname, level, len(res.Rows), len(committed[oi].Rows), firstDiffSafe(res.Rows, committed[oi].Rows)), a2)
					}
				}
			}
		}
	})
}

func stepsS(steps []c07Step) []string {
	var out []string
	for _, s := range steps {
		out = append(out, s.who+": "+clipS(s.cmd, 70))
	}
	return out
}

// OpenEnv opens a real file the way sqlittle.Open does, keeping the low level
// Database at hand as well
func OpenEnv(path string) (*Env, error) {
	d, err := sdb.OpenFile(path)
	if err != nil {
		return nil, err
	}
	return &Env{H: sqlittle.VerifWrap(d), D: d}, nil
}

// c07Committed: the result of every op on the committed state, from a fresh
// sqlittle handle while nobody writes, cross-checked against SQLite's dump.
func c07Committed(r *ev.Run, path string, ops []Op, reader *Peer) []OpResult {
	st, dump := reader.Do("dump")
	if st != "ok" {
		r.Harness("reader dump: %s %s", st, dump)
		return nil
	}
	e, err := OpenEnv(path)
	if err != nil {
		r.Violation("C07:open-committed", fmt.Sprintf("Open on a quiescent database: %v", err), nil)
		return nil
	}
	defer e.H.Close()
	h, d := e.H, e.D
	got, err := LittleDump(h, d)
	if err != nil {
		r.Violation("C07:read-committed", fmt.Sprintf("reading a quiescent database: %v", err), nil)
		return nil
	}
	// compare table rows with SQLite's dump text (same canonical rendering)
	for _, t := range got.Tables {
		t.Idx = map[string][][]interface{}{}
	}
	gs := got.String()
	ws := stripIndexes(dump)
	r.Validated(1)
	if gs != ws {
		r.Violation("C07:committed-differs", "quiescent database read differently from SQLite: "+firstLineDiff(gs, ws), nil)
		return nil
	}
	out := make([]OpResult, len(ops))
	for i, op := range ops {
		out[i] = op.Run(e, 0)
		if out[i].Err != nil {
			r.Harness("baseline op %s: %v", op.Name, out[i].Err)
			return nil
		}
	}
	return out
}

func stripIndexes(dump string) string {
	var out []string
	skip := false
	for _, l := range strings.Split(dump, "\n") {
		if strings.HasPrefix(l, " I ") {
			skip = true
			continue
		}
		if strings.HasPrefix(l, "T ") {
			skip = false
		}
		if skip && strings.HasPrefix(l, "  ") {
			continue
		}
		if strings.HasPrefix(l, " ") && !strings.HasPrefix(l, "  ") {
			skip = false
		}
		out = append(out, l)
	}
	return strings.Join(out, "\n")
}

func firstLineDiff(a, b string) string {
	la, lb := strings.Split(a, "\n"), strings.Split(b, "\n")
	for i := 0; i < len(la) && i < len(lb); i++ {
		if la[i] != lb[i] {
			return fmt.Sprintf("line %d: %q vs %q", i, clipS(la[i], 100), clipS(lb[i], 100))
		}
	}
	return fmt.Sprintf("%d vs %d lines", len(la), len(lb))
}
