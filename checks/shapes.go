package checks

import (
	"fmt"
	"math"

	"verif/internal/dbgen"
	"verif/internal/ev"
)

// ShapeImage is one enumerated image plus what it is
type ShapeImage struct {
	Spec *dbgen.Spec
	Img  *dbgen.Image
	Desc map[string]interface{}
	// which object's tree was enumerated
	Object string
}

var boundaryRowids = []int64{math.MinInt64, math.MinInt64 + 1, -(1 << 40), -129, -2, -1, 0, 1, 2, 127, 128, 16383, 16384, 1 << 21, 1<<28 - 1, 1 << 35, 1<<42 - 1, 1 << 49, 1<<56 - 1, 1 << 56, math.MaxInt64 - 1, math.MaxInt64}

// rowidSet picks n rowids: variant 0 = 1..n, variant 1 = spread over the
// boundary list (every varint length, negatives, extremes), variant 2 =
// gapped (2,4,6..) so that separators in gaps exist
func rowidSet(n, variant int) []int64 {
	out := make([]int64, n)
	switch variant {
	case 0:
		for i := range out {
			out[i] = int64(i + 1)
		}
	case 1:
		if n == 1 {
			out[0] = math.MinInt64
			break
		}
		for i := range out {
			out[i] = boundaryRowids[i*(len(boundaryRowids)-1)/(n-1)]
		}
	default:
		for i := range out {
			out[i] = int64(i+1) * 10
		}
	}
	return out
}

var layoutVariants = []dbgen.Layout{
	{},
	{SepGap: true, ShuffleCells: true, ScatterOverflow: true, ReversePages: true},
}

type shapeBounds struct {
	MaxN      int   // table rows: every shape up to this many
	MaxNIndex int   // index entries: every shape up to this many
	DeepTable []int // additional row counts for which only depth-4 table shapes are enumerated
	DeepIndex []int // same for index trees
	PageSize  int
}

// forTableShapes enumerates every T1 image whose table b-tree has every shape
// within bounds, x rowid sets x layouts. big: payload size for overflow rows.
func forTableShapes(r *ev.Run, b shapeBounds, fn func(si *ShapeImage)) {
	type job struct {
		n, rv, lv int
		tree      *dbgen.Tree
		big       int
	}
	var jobs []job
	ns := []int{}
	for n := 0; n <= b.MaxN; n++ {
		ns = append(ns, n)
	}
	ns = append(ns, b.DeepTable...)
	for _, n := range ns {
		trees := dbgen.EnumTableTrees(n, 3, 2, 3, 4)
		for _, t := range trees {
			if n > b.MaxN && t.Depth() < 4 {
				continue
			}
			for rv := 0; rv < 3; rv++ {
				if n == 0 && rv > 0 {
					continue
				}
				for lv := range layoutVariants {
					big := 0
					if (rv+lv)%2 == 1 {
						big = b.PageSize + 300 // a 2-3 page overflow chain on some rows
					}
					jobs = append(jobs, job{n, rv, lv, t, big})
				}
			}
		}
	}
	ev.Parallel(len(jobs), func(i int) {
		j := jobs[i]
		t1 := T1(rowidSet(j.n, j.rv), j.big)
		t1.Tree = j.tree
		t1.Layout = layoutVariants[j.lv]
		spec := &dbgen.Spec{PageSize: b.PageSize, Tables: []dbgen.Table{t1}}
		spec.LegacyHeader = j.lv * (1 + j.n%2) // the second layout also carries the header of a legacy writer (size field 0 / stale)
		img, err := dbgen.Build(spec)
		if err != nil {
			r.Harness("dbgen table shape %s n=%d: %v", j.tree, j.n, err)
			return
		}
		if !replayMatches(map[string]interface{}{"family": "table-shape", "page_size": b.PageSize, "n": j.n, "tree": j.tree.String(), "rowids": fmt.Sprint(rowidSet(j.n, j.rv)), "layout": fmt.Sprintf("%+v", layoutVariants[j.lv]), "big": j.big}) {
			return
		}
		if !r.StateBytes(img.Bytes) {
			return
		}
		if err := Conform(spec, img); err != nil {
			r.Harness("conformance: table shape %s n=%d rv=%d lv=%d: %v", j.tree, j.n, j.rv, j.lv, err)
			return
		}
		r.Validated(1)
		fn(&ShapeImage{Spec: spec, Img: img, Object: "t1", Desc: map[string]interface{}{
			"family": "table-shape", "page_size": b.PageSize, "n": j.n, "tree": j.tree.String(), "rowids": fmt.Sprint(rowidSet(j.n, j.rv)), "layout": fmt.Sprintf("%+v", layoutVariants[j.lv]), "big": j.big}})
	})
}

// forIndexShapes enumerates every shape of (a) T1's index t1_bc, (b) T2's own
// WITHOUT ROWID tree, (c) T2's secondary index t2_c.
func forIndexShapes(r *ev.Run, b shapeBounds, fn func(si *ShapeImage)) {
	type job struct {
		n, lv  int
		tree   *dbgen.Tree
		object string
		big    int
	}
	var jobs []job
	ns := []int{}
	for n := 0; n <= b.MaxN; n++ {
		ns = append(ns, n)
	}
	for n := b.MaxN + 1; n <= b.MaxNIndex; n++ {
		ns = append(ns, n)
	}
	ns = append(ns, b.DeepIndex...)
	for _, n := range ns {
		for _, t := range dbgen.EnumIndexTrees(n, 3, 2, 3, 4) {
			if n > b.MaxNIndex && t.Depth() < 4 {
				continue
			}
			for lv := range layoutVariants {
				for oi, obj := range []string{"t1_bc", "t2", "t2_c", "t1_c_rt"} {
					big := 0
					if (oi+lv)%2 == 1 {
						big = b.PageSize + 300
					}
					jobs = append(jobs, job{n, lv, t, obj, big})
				}
			}
		}
	}
	ev.Parallel(len(jobs), func(i int) {
		j := jobs[i]
		var spec *dbgen.Spec
		switch j.object {
		case "t1_bc", "t1_c_rt":
			t1 := T1(rowidSet(j.n, 2), j.big)
			for k := range t1.Indexes {
				if t1.Indexes[k].Name == j.object {
					t1.Indexes[k].Tree = j.tree
					t1.Indexes[k].Layout = layoutVariants[j.lv]
				}
			}
			spec = &dbgen.Spec{PageSize: b.PageSize, Tables: []dbgen.Table{t1}}
		case "t2":
			t2 := T2(j.n, j.big)
			t2.Tree = j.tree
			t2.Layout = layoutVariants[j.lv]
			spec = &dbgen.Spec{PageSize: b.PageSize, Tables: []dbgen.Table{t2}}
		case "t2_c":
			t2 := T2(j.n, j.big)
			t2.Indexes[0].Tree = j.tree
			t2.Indexes[0].Layout = layoutVariants[j.lv]
			spec = &dbgen.Spec{PageSize: b.PageSize, Tables: []dbgen.Table{t2}}
		}
		spec.LegacyHeader = j.lv * (1 + j.n%2)
		img, err := dbgen.Build(spec)
		if err != nil {
			r.Harness("dbgen index shape %s %s n=%d: %v", j.object, j.tree, j.n, err)
			return
		}
		if !replayMatches(map[string]interface{}{"family": "index-shape", "object": j.object, "page_size": b.PageSize, "n": j.n, "tree": j.tree.String(), "layout": fmt.Sprintf("%+v", layoutVariants[j.lv]), "big": j.big}) {
			return
		}
		if !r.StateBytes(img.Bytes) {
			return
		}
		if err := Conform(spec, img); err != nil {
			r.Harness("conformance: index shape %s %s n=%d lv=%d: %v", j.object, j.tree, j.n, j.lv, err)
			return
		}
		r.Validated(1)
		fn(&ShapeImage{Spec: spec, Img: img, Object: j.object, Desc: map[string]interface{}{
			"family": "index-shape", "object": j.object, "page_size": b.PageSize, "n": j.n, "tree": j.tree.String(), "layout": fmt.Sprintf("%+v", layoutVariants[j.lv]), "big": j.big}})
	})
}

func quickBounds(r *ev.Run) shapeBounds {
	if r.Thorough() {
		return shapeBounds{MaxN: 10, MaxNIndex: 15, DeepTable: []int{11}, DeepIndex: []int{16, 17}, PageSize: 512}
	}
	return shapeBounds{MaxN: 7, MaxNIndex: 10, DeepTable: []int{8, 9}, DeepIndex: []int{15}, PageSize: 512}
}

// allBounds: the thorough tier repeats the enumeration (with the quick tier's
// sizes) at page size 1024
func allBounds(r *ev.Run) []shapeBounds {
	if r.Thorough() {
		return []shapeBounds{quickBounds(r), {MaxN: 7, MaxNIndex: 10, DeepTable: []int{8, 9}, DeepIndex: []int{15}, PageSize: 1024}}
	}
	return []shapeBounds{quickBounds(r)}
}

// project the logical rows of a table on a column list (names resolved like
// SQLite: a column named rowid wins over the rowid)
func projectLogical(t *dbgen.Table, rows []dbgen.Row, cols []string) ([][]interface{}, bool) {
	idx := make([]int, len(cols))
	for i, c := range cols {
		idx[i] = -2
		for j, n := range t.ColNames {
			if equalFold(n, c) {
				idx[i] = j
			}
		}
		if idx[i] == -2 {
			if !t.WithoutRowid && (equalFold(c, "rowid") || equalFold(c, "oid") || equalFold(c, "_rowid_")) {
				idx[i] = -1
			} else {
				return nil, false
			}
		}
	}
	out := make([][]interface{}, len(rows))
	for k, r := range rows {
		full := LogicalRow(t, r)
		row := make([]interface{}, len(cols))
		for i, j := range idx {
			if j == -1 {
				row[i] = r.Rowid
			} else {
				row[i] = full[j]
			}
		}
		out[k] = row
	}
	return out, true
}

func equalFold(a, b string) bool {
	if len(a) != len(b) {
		return false
	}
	for i := 0; i < len(a); i++ {
		x, y := a[i], b[i]
		if x >= 'A' && x <= 'Z' {
			x += 32
		}
		if y >= 'A' && y <= 'Z' {
			y += 32
		}
		if x != y {
			return false
		}
	}
	return true
}

// columnLists: every ordered list of length 0..maxLen over names
func columnLists(names []string, maxLen int) [][]string {
	out := [][]string{{}}
	prev := [][]string{{}}
	for l := 1; l <= maxLen; l++ {
		var next [][]string
		for _, p := range prev {
			for _, n := range names {
				next = append(next, append(append([]string{}, p...), n))
			}
		}
		out = append(out, next...)
		prev = next
	}
	return out
}
