package checks

// C13 — Low-level range scans agree with the full scan and the comparison
// order. Kind S: every index tree shape x every cut point.
// C17 — Stopping a scan early yields an exact prefix (same images, every k).

import (
	"fmt"
	"math"

	"verif/internal/dbgen"
	"verif/internal/ev"
	"verif/internal/ref"
	"verif/internal/vpager"

	sdb "github.com/alicebob/sqlittle/db"
)

func init() { Registry["C13"] = Check{Level: "model_checking", Fn: runC13} }

// cmpKeyRec orders a (prefix) key against a record in index order; a record
// that lacks a key column sorts before the key.
func cmpKeyRec(key []interface{}, rec []interface{}, cols []ref.KeyCol) int {
	for i := range key {
		if i >= len(rec) {
			return 1
		}
		c := ref.KeyCol{}
		if i < len(cols) {
			c = cols[i]
		}
		x := ref.Compare(key[i], rec[i], c.Coll)
		if x != 0 {
			if c.Desc {
				return -x
			}
			return x
		}
	}
	return 0
}

func toDbKey(vals []interface{}, cols []ref.KeyCol) sdb.Key {
	k := make(sdb.Key, len(vals))
	for i, v := range vals {
		k[i].V = v
		if i < len(cols) {
			k[i].Collate = cols[i].Coll
			k[i].Desc = cols[i].Desc
		}
	}
	return k
}

// neighbours of a value: values just below/above and of other classes
func neighbours(v interface{}) []interface{} {
	switch t := v.(type) {
	case nil:
		return []interface{}{int64(math.MinInt64)}
	case int64:
		out := []interface{}{float64(t), float64(t) + 0.5, float64(t) - 0.5}
		if t > math.MinInt64 {
			out = append(out, t-1)
		}
		if t < math.MaxInt64 {
			out = append(out, t+1)
		}
		return out
	case float64:
		return []interface{}{math.Nextafter(t, math.Inf(1)), math.Nextafter(t, math.Inf(-1)), int64(t), int64(t) + 1}
	case string:
		out := []interface{}{t + " ", t + "\x01", swapCase(t)}
		if len(t) > 0 {
			out = append(out, t[:len(t)-1], t[:len(t)-1]+string(t[len(t)-1]+1))
		}
		return out
	case []byte:
		out := []interface{}{append(append([]byte{}, t...), 0)}
		if len(t) > 0 {
			out = append(out, t[:len(t)-1])
		}
		return out
	}
	return nil
}

func swapCase(s string) string {
	b := []byte(s)
	for i, c := range b {
		if c >= 'a' && c <= 'z' {
			b[i] = c - 32
		} else if c >= 'A' && c <= 'Z' {
			b[i] = c + 32
		}
	}
	return string(b)
}

// cutKeys: every prefix of every stored entry, the same with the last column
// replaced by each neighbour, below the first, above the last, and keys one
// column longer than the records. full=false keeps only the first neighbour.
func cutKeys(entries [][]interface{}, ncols int, full bool) [][]interface{} {
	seen := map[string]bool{}
	var out [][]interface{}
	add := func(k []interface{}) {
		s := RowS(k)
		if !seen[s] {
			seen[s] = true
			out = append(out, append([]interface{}{}, k...))
		}
	}
	add([]interface{}{})
	add([]interface{}{nil})
	add([]interface{}{[]byte{0xff, 0xff, 0xff}})
	add([]interface{}{""})
	for _, e := range entries {
		for p := 1; p <= len(e); p++ {
			add(e[:p])
			nb := neighbours(e[p-1])
			if !full && len(nb) > 2 {
				nb = nb[:2]
			}
			for _, n := range nb {
				k := append(append([]interface{}{}, e[:p-1]...), n)
				add(k)
			}
		}
		// one column longer than the record
		add(append(append([]interface{}{}, e...), int64(0)))
		add(append(append([]interface{}{}, e...), nil))
	}
	return out
}

type indexUnderTest struct {
	name   string
	wr     bool // open with NonRowidTable
	cols   []ref.KeyCol
	logic  [][]interface{} // logical entries in index order
	si     *ShapeImage
	table  *dbgen.Table
	ixSpec *dbgen.Index
}

// indexesOf lists the index b-trees of an image with their column flags
func indexesOf(si *ShapeImage) []indexUnderTest {
	var out []indexUnderTest
	for ti := range si.Spec.Tables {
		t := &si.Spec.Tables[ti]
		if t.WithoutRowid {
			// the table itself: pk columns then the rest
			var kc []ref.KeyCol
			seen := map[int]bool{}
			for _, c := range t.PK {
				if !seen[c.Col] {
					seen[c.Col] = true
					kc = append(kc, ref.KeyCol{Coll: c.Coll, Desc: c.Desc})
				}
			}
			order := dbgen.WRStoreOrder(t)
			var logic [][]interface{}
			for _, row := range si.Img.TableRows[t.Name] {
				rec := make([]interface{}, len(order))
				for j, c := range order {
					rec[j] = ref.Plain(row.Vals[c])
				}
				logic = append(logic, rec)
			}
			out = append(out, indexUnderTest{name: t.Name, wr: true, cols: kc, logic: logic, si: si, table: t})
		}
		for ii := range t.Indexes {
			ix := &t.Indexes[ii]
			cols := dbgen.IndexKeyCols(t, ix)
			kc := make([]ref.KeyCol, len(cols))
			for i, c := range cols {
				kc[i] = ref.KeyCol{Coll: c.Coll, Desc: c.Desc}
			}
			out = append(out, indexUnderTest{name: ix.Name, cols: kc, logic: si.Img.IndexRows[ix.Name], si: si, table: t, ixSpec: ix})
		}
	}
	return out
}

func openIndex(d *sdb.Database, u *indexUnderTest) (*sdb.Index, error) {
	if u.wr {
		return d.NonRowidTable(u.name)
	}
	return d.Index(u.name)
}

func scanAll(fn func(cb sdb.RecordCB) error) ([][]interface{}, error) {
	var out [][]interface{}
	err := fn(func(rec sdb.Record) bool { out = append(out, CopyRec(rec)); return false })
	return out, err
}

func runC13(r *ev.Run) {
	r.Rule = "every index b-tree shape within bounds (T1 indexes with DESC/NOCASE/RTRIM columns, T2 WITHOUT ROWID table and its secondary index; entries in interior pages, duplicates across pages, spilled payloads) x every cut key {every prefix of every entry, last column replaced by neighbours (+-1, next float, case swap, trailing space, shorter/longer), below first, above last, one column longer than the records}: ScanMin = suffix, ScanEq = equal run, ScanRange over every ordered pair of cut keys = filtered slice of the same handle's full Scan, judged by the independent comparator; plus, on a second handle, keyed scans first and the full scan last (the page cache after a keyed scan); non-trivial = keys on multi-level trees"
	r.Set("bounds", fmt.Sprintf("%+v", allBounds(r)))
	for _, b := range allBounds(r) {
		forIndexShapes(r, b, func(si *ShapeImage) { c13Image(r, si) })
	}
	// every index of the T1..T5 family (T5: the C11 value grid as indexed values) at the smallest page sizes
	forIndexFamily(r, func(si *ShapeImage) {
		if ps, _ := si.Desc["page_size"].(int); ps > 1024 && !r.Thorough() {
			return
		}
		c13Image(r, si)
	})
}

func c13Image(r *ev.Run, si *ShapeImage) {
	func() {
		_, d, _, err := vpager.OpenImage(si.Img.Bytes)
		if err != nil {
			r.Violation("C13:open", fmt.Sprintf("well-formed image refused: %v", err), si.Desc)
			return
		}
		d.RLock()
		defer d.RUnlock()
		for _, u := range indexesOf(si) {
			u := u
			if si.Object != "*" && u.name != si.Object && !(si.Object == "t2" && u.name == "t2_c") {
				// indexes with default shape are covered when they are the enumerated object
				continue
			}
			in, err := openIndex(d, &u)
			if err != nil {
				r.Violation("C13:openindex", fmt.Sprintf("%s: %v", u.name, err), si.Desc)
				continue
			}
			full, err := scanAll(in.Scan)
			if err != nil {
				r.Violation("C13:scan-error", fmt.Sprintf("Index.Scan(%s): %v", u.name, err), si.Desc)
				continue
			}
			// the full scan is the logical entry list (C02's business too, but the oracle below needs it sorted)
			if !RowsEq(full, u.logic, false) {
				r.Violation("C13:fullscan:"+u.name, fmt.Sprintf("Index.Scan(%s) = %v, stored entries %v", u.name, clip(RowsS(full)), clip(RowsS(u.logic))), si.Desc)
				continue
			}
			deep := si.Img.Depth[u.name] > 1
			keys := cutKeys(full, len(u.cols), r.Thorough())
			r.Outcome(fmt.Sprintf("%s depth=%d", u.name, si.Img.Depth[u.name]))
			if si.Img.Depth[u.name] == 3 {
				r.Sample(map[string]interface{}{"image": si.Desc, "index": u.name, "cut_keys": len(keys), "example_key": RowS(keys[len(keys)/2])})
			}
			// a second handle on which the keyed scans come FIRST (nothing has walked the pages yet) and the full
			// scan last: what a keyed scan leaves in the page cache must not change what a later scan returns
			if _, d2, _, err := vpager.OpenImage(si.Img.Bytes); err == nil {
				func() {
					if d2.RLock() != nil {
						return
					}
					defer d2.RUnlock()
					in2, err := openIndex(d2, &u)
					if err != nil {
						return
					}
					for ki := len(keys) - 1; ki >= 0; ki -= 1 + len(keys)/12 {
						dk := toDbKey(keys[ki], u.cols)
						scanAll(func(cb sdb.RecordCB) error { return in2.ScanMin(dk, cb) })
						scanAll(func(cb sdb.RecordCB) error { return in2.ScanEq(dk, cb) })
					}
					again, err := scanAll(in2.Scan)
					r.Trans(1)
					if err != nil || !RowsEq(again, u.logic, false) {
						r.Violation("C13:scan-after-keyed-scans:"+diffClass(again, u.logic), fmt.Sprintf("Index.Scan(%s) on a handle that did keyed scans first: err=%v got %v, stored entries %v", u.name, err, clip(RowsS(again)), clip(RowsS(u.logic))), map[string]interface{}{"image": si.Desc, "index": u.name})
					}
				}()
			}
			for ki := 0; ki < 2*len(keys); ki++ {
				key := keys[ki%len(keys)]
				dk := toDbKey(key, u.cols)
				extraDesc := ki >= len(keys)
				if extraDesc {
					// a key column past the index's columns, flagged DESC
					width := 0
					if len(full) > 0 {
						width = len(full[0])
					}
					if width == 0 || len(key) <= width {
						continue
					}
					for x := width; x < len(dk); x++ {
						dk[x].Desc = true
					}
				}
				art := map[string]interface{}{"image": si.Desc, "index": u.name, "key": RowS(key), "extra_columns_desc": extraDesc}
				r.Eval(1)
				if deep {
					r.NontrivialN(1)
				}
				// ScanMin
				first := len(full)
				for i, e := range full {
					if cmpKeyRec(key, e, u.cols) <= 0 {
						first = i
						break
					}
				}
				var got [][]interface{}
				var err error
				if p := Safely(func() { got, err = scanAll(func(cb sdb.RecordCB) error { return in.ScanMin(dk, cb) }) }); p != nil {
					r.Violation("C13:panic", fmt.Sprintf("ScanMin(%s, %s) panics: %v", u.name, RowS(key), p), art)
					continue
				}
				r.Trans(1)
				if err != nil || !RowsEq(got, full[first:], false) {
					r.Violation("C13:ScanMin:"+diffClass(got, full[first:]), fmt.Sprintf("ScanMin(%s, %s): err=%v got %d entries %v, want the %d-entry suffix %v", u.name, RowS(key), err, len(got), clip(RowsS(got)), len(full)-first, clip(RowsS(full[first:]))), art)
				}
				// ScanEq
				var eq [][]interface{}
				for _, e := range full {
					if cmpKeyRec(key, e, u.cols) == 0 {
						eq = append(eq, e)
					}
				}
				got, err = scanAll(func(cb sdb.RecordCB) error { return in.ScanEq(dk, cb) })
				r.Trans(1)
				if err != nil || !RowsEq(got, eq, false) {
					r.Violation("C13:ScanEq:"+diffClass(got, eq), fmt.Sprintf("ScanEq(%s, %s): err=%v got %v want %v", u.name, RowS(key), err, clip(RowsS(got)), clip(RowsS(eq))), art)
				}
			}
			// ranges: every ordered pair of cut keys (quick: a thinned list)
			rk := keys
			max := 40
			if r.Thorough() {
				max = 90
			}
			if len(rk) > max {
				step := (len(rk) + max - 1) / max
				var th [][]interface{}
				for i := 0; i < len(rk); i += step {
					th = append(th, rk[i])
				}
				rk = th
			}
			for _, from := range rk {
				for _, to := range rk {
					var want [][]interface{}
					for _, e := range full {
						if cmpKeyRec(from, e, u.cols) <= 0 && cmpKeyRec(to, e, u.cols) > 0 {
							want = append(want, e)
						}
					}
					got, err := scanAll(func(cb sdb.RecordCB) error {
						return in.ScanRange(toDbKey(from, u.cols), toDbKey(to, u.cols), cb)
					})
					r.Eval(1)
					r.Trans(1)
					if err != nil || !RowsEq(got, want, false) {
						r.Violation("C13:ScanRange:"+diffClass(got, want), fmt.Sprintf("ScanRange(%s, %s, %s): err=%v got %v want %v", u.name, RowS(from), RowS(to), err, clip(RowsS(got)), clip(RowsS(want))),
							map[string]interface{}{"image": si.Desc, "index": u.name, "from": RowS(from), "to": RowS(to)})
					}
				}
			}
		}
	}()
}

func diffClass(got, want [][]interface{}) string {
	switch {
	case len(got) < len(want):
		return "missing"
	case len(got) > len(want):
		return "extra"
	}
	return "different"
}
