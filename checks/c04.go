package checks

// C04 — Rowid lookup finds a row iff it exists. Kind S: every table b-tree
// shape x every interesting rowid, through SelectRowid, PKSelect on the
// alias primary key, and the low level Table.Rowid.

import (
	"fmt"
	"math"
	"sort"

	"verif/internal/dbgen"
	"verif/internal/ev"
	"verif/internal/lite"
	"verif/internal/vpager"

	"github.com/alicebob/sqlittle"
	sdb "github.com/alicebob/sqlittle/db"
)

func init() { Registry["C04"] = Check{Level: "model_checking", Fn: runC04} }

var c04Extra func(r *ev.Run)

// column lists of the second pass; positions refer to the full list a, b, c, d, e, rowid
var c04Lists = [][]string{{"rowid"}, {"a"}, {"oid", "_rowid_", "a"}, {}, {"c"}}
var c04ColPos = map[string]int{"a": 0, "b": 1, "c": 2, "d": 3, "e": 4, "rowid": 5, "oid": 5, "_rowid_": 5}

func c04Probes(rows []dbgen.Row) []int64 {
	set := map[int64]bool{math.MinInt64: true, math.MaxInt64: true, 0: true, -1: true, 1: true}
	for i, r := range rows {
		set[r.Rowid] = true
		if r.Rowid > math.MinInt64 {
			set[r.Rowid-1] = true
		}
		if r.Rowid < math.MaxInt64 {
			set[r.Rowid+1] = true
		}
		if i+1 < len(rows) {
			// a value in the gap and the last value of the gap (the separator styles)
			n := rows[i+1].Rowid
			mid := r.Rowid/2 + n/2
			set[mid] = true
			set[n-1] = true
		}
	}
	out := make([]int64, 0, len(set))
	for k := range set {
		out = append(out, k)
	}
	sort.Slice(out, func(i, j int) bool { return out[i] < out[j] })
	return out
}

func runC04(r *ev.Run) {
	r.Rule = "every T1 table b-tree shape within bounds x 3 rowid sets x 2 layouts (separator = max of left / value in the gap) x every probe rowid {present, both neighbours, gap middle, last of gap (= separator), min64, max64, 0, -1, 1} through SelectRowid, PKSelect(alias pk) and Table.Rowid, each lookup also with the column lists {rowid}, {alias}, {oid, _rowid_, alias}, {} and {one stored column}, lookups made from the callback of a scan of the same table (multi-level images); then every probe again in descending order on the same handle; plus brim-full leaves at page sizes 512/1024/4096 (a row with one partly filled overflow page at the lowest address of a page that is full to the last byte); every legal page size 512..65536 x SQLite-written tables with no row (never filled / emptied), one row, a few rows incl. int64 min/max, neighbouring rowids 2^63 or more apart; oracle = the builder's logical rows / SQLite's rows; non-trivial = probes on images with interior pages"
	r.Set("bounds", fmt.Sprintf("%+v", allBounds(r)))
	cols := []string{"a", "b", "c", "d", "e", "rowid"}
	defer func() {
		if c04Extra != nil {
			c04Extra(r)
		}
	}()
	for _, b := range allBounds(r) {
		c04Shapes(r, b, cols)
	}
	// brim-full leaves: the row with a partly filled single overflow page at the lowest address of a full page
	for _, ps := range []int{512, 1024, 4096} {
		si, err := brimImage(ps)
		if err != nil {
			r.Harness("C04 brim image: %v", err)
			continue
		}
		if err := Conform(si.Spec, si.Img); err != nil {
			r.Harness("C04 brim image conformance: %v", err)
			continue
		}
		r.Validated(1)
		c04Image(r, si, cols)
	}
}

func c04Shapes(r *ev.Run, b shapeBounds, cols []string) {
	forTableShapes(r, b, func(si *ShapeImage) { c04Image(r, si, cols) })
}

func c04Image(r *ev.Run, si *ShapeImage, cols []string) {
	func() {
		t := &si.Spec.Tables[0]
		rows := si.Img.TableRows["t1"]
		byID := map[int64][]interface{}{}
		for _, row := range rows {
			byID[row.Rowid] = append(LogicalRow(t, row), row.Rowid)
		}
		h, d, _, err := vpager.OpenImage(si.Img.Bytes)
		if err != nil {
			r.Violation("C04:open", fmt.Sprintf("well-formed image refused: %v", err), si.Desc)
			return
		}
		deep := si.Img.Depth["t1"] > 1
		r.Outcome(fmt.Sprintf("depth=%d", si.Img.Depth["t1"]))
		if si.Img.Depth["t1"] == 3 {
			r.Sample(map[string]interface{}{"image": si.Desc, "probes": fmt.Sprint(c04Probes(rows))})
		}
		for _, id := range c04Probes(rows) {
			want, present := byID[id]
			art := map[string]interface{}{"image": si.Desc, "rowid": id, "present": present}
			r.Eval(1)
			if deep {
				r.NontrivialN(1)
			}
			class := "absent"
			if present {
				class = "present"
			}
			// SelectRowid
			var row sqlittle.Row
			var err error
			if p := Safely(func() { row, err = h.SelectRowid("t1", id, cols...) }); p != nil {
				r.Violation("C04:panic", fmt.Sprintf("SelectRowid(%d) panics: %v", id, p), art)
				continue
			}
			r.Trans(1)
			c04Judge(r, "SelectRowid", class, id, CopyRowOrNil(row), err, want, present, art)
			// PKSelect
			var got [][]interface{}
			err = h.PKSelect("t1", sqlittle.Key{id}, func(rw sqlittle.Row) { got = append(got, CopyRow(rw)) }, cols...)
			r.Trans(1)
			var one []interface{}
			if len(got) == 1 {
				one = got[0]
			}
			if len(got) > 1 {
				r.Violation("C04:PKSelect:multiple", fmt.Sprintf("PKSelect(%d) delivers %d rows", id, len(got)), art)
			}
			c04Judge(r, "PKSelect", class, id, one, err, want, present, art)
			// other column lists: what is asked for must not decide whether the row is found (rowid-only lists,
			// the alias alone, the empty list, one stored column)
			for _, list := range c04Lists {
				var lw []interface{}
				if present {
					lw = make([]interface{}, len(list))
					for i, c := range list {
						lw[i] = want[c04ColPos[c]]
					}
				}
				var lrow sqlittle.Row
				var lerr error
				if p := Safely(func() { lrow, lerr = h.SelectRowid("t1", id, list...) }); p != nil {
					r.Violation("C04:panic", fmt.Sprintf("SelectRowid(%d, %v) panics: %v", id, list, p), art)
					continue
				}
				r.Trans(1)
				lart := map[string]interface{}{"image": si.Desc, "rowid": id, "present": present, "columns": fmt.Sprint(list)}
				if (lrow != nil) != present && lerr == nil {
					r.Violation("C04:SelectRowid:column-list:"+class, fmt.Sprintf("SelectRowid(%d) with columns %v: row returned=%v, rowid present=%v", id, list, lrow != nil, present), lart)
				} else {
					c04Judge(r, "SelectRowid:column-list", class, id, CopyRowOrNil(lrow), lerr, lw, present, lart)
				}
				n := 0
				var first []interface{}
				lerr = h.PKSelect("t1", sqlittle.Key{id}, func(rw sqlittle.Row) {
					if n == 0 {
						first = CopyRow(rw)
					}
					n++
				}, list...)
				r.Trans(1)
				if lerr == nil && (n == 1) != present {
					r.Violation("C04:PKSelect:column-list:"+class, fmt.Sprintf("PKSelect(%d) with columns %v: %d rows delivered, rowid present=%v", id, list, n, present), lart)
				} else if n == 1 {
					c04Judge(r, "PKSelect:column-list", class, id, first, lerr, lw, present, lart)
				} else if lerr != nil {
					c04Judge(r, "PKSelect:column-list", class, id, nil, lerr, lw, present, lart)
				}
			}
			// low level
			d.RLock()
			tb, err := d.Table("t1")
			var rec []interface{}
			if err == nil {
				rc, e := tb.Rowid(id)
				err = e
				if rc != nil {
					rec = CopyRec(rc)
				}
			}
			d.RUnlock()
			r.Trans(1)
			if err != nil || (rec != nil) != present {
				r.Violation("C04:Table.Rowid:"+class, fmt.Sprintf("Table.Rowid(%d): record=%v err=%v, row present=%v", id, rec != nil, err, present), art)
			}
		}
		// lookups made from inside a scan of the SAME table (low level API, one read lock): the scan in progress must
		// not change what a lookup finds (a walk of its own)
		if deep {
			d.RLock()
			if tb, err := d.Table("t1"); err == nil {
				n := 0
				probes := c04Probes(rows)
				serr := tb.Scan(func(rowid int64, rec sdb.Record) bool {
					n++
					if n != 1 && n != len(rows)/2+1 && n != len(rows) {
						return false
					}
					for pi, id := range probes {
						if pi%3 != n%3 {
							continue
						}
						_, present := byID[id]
						rc, e := tb.Rowid(id)
						r.Trans(1)
						if e != nil || (rc != nil) != present {
							r.Violation("C04:Table.Rowid:nested-in-scan", fmt.Sprintf("Table.Rowid(%d) from the callback of row %d of a scan of the same table: record=%v err=%v, row present=%v", id, n, rc != nil, e, present), map[string]interface{}{"image": si.Desc, "rowid": id, "present": present, "scan_row": n})
							return true
						}
					}
					return false
				})
				if serr != nil {
					r.Violation("C04:scan-with-nested-lookups", fmt.Sprintf("Table.Scan with lookups made from its callback: %v", serr), si.Desc)
				}
			}
			d.RUnlock()
		}
		// the same handle once more in descending order: what an earlier lookup left in the page cache must not
		// change what a later one returns
		probes := c04Probes(rows)
		for i := len(probes) - 1; i >= 0; i-- {
			id := probes[i]
			want, present := byID[id]
			var row sqlittle.Row
			var err error
			if p := Safely(func() { row, err = h.SelectRowid("t1", id, cols...) }); p != nil {
				r.Violation("C04:panic", fmt.Sprintf("SelectRowid(%d) panics: %v", id, p), si.Desc)
				continue
			}
			r.Trans(1)
			class := "absent"
			if present {
				class = "present"
			}
			c04Judge(r, "SelectRowid(second pass, descending)", class, id, CopyRowOrNil(row), err, want, present, map[string]interface{}{"image": si.Desc, "rowid": id, "present": present, "pass": "second, descending"})
		}
	}()
}

func init() {
	c04Extra = func(r *ev.Run) { zooRun(r, "C04"); c04PageSizes(r); c04LeafSizes(r) }
}

// c04PageSizes: every legal page size x tables with no row (never filled / emptied again), one row and a few
// rows, written by SQLite: every probe through the three lookups. (A page of a 65536-byte-page file that holds
// no cell stores its content offset as 0.)
func c04PageSizes(r *ev.Run) {
	for _, ps := range []int{512, 1024, 2048, 4096, 8192, 16384, 32768, 65536} {
		l, err := lite.OpenMem()
		if err != nil {
			r.Harness("lite: %v", err)
			return
		}
		l.MustExec(fmt.Sprintf("PRAGMA page_size=%d", ps))
		l.MustExec("CREATE TABLE fresh (id INTEGER PRIMARY KEY, v); CREATE TABLE emptied (id INTEGER PRIMARY KEY, v); CREATE TABLE one (id INTEGER PRIMARY KEY, v); CREATE TABLE few (id INTEGER PRIMARY KEY, v); CREATE TABLE plain (v)")
		// neighbouring rowids 2^63 or more apart (their difference does not fit an int64)
		l.MustExec("CREATE TABLE ends (id INTEGER PRIMARY KEY, v); INSERT INTO ends VALUES (-9223372036854775808, 'min'), (9223372036854775807, 'max'); CREATE TABLE minzero (id INTEGER PRIMARY KEY, v); INSERT INTO minzero VALUES (-9223372036854775808, 'min'), (0, 'zero'), (1, 'one'); CREATE TABLE negmax (id INTEGER PRIMARY KEY, v); INSERT INTO negmax VALUES (-5, 'm5'), (-1, 'm1'), (9223372036854775807, 'max')")
		l.MustExec("INSERT INTO emptied VALUES (1, 'a'), (2, 'b'), (-5, 'c'); DELETE FROM emptied; INSERT INTO one VALUES (7, 'seven'); INSERT INTO few VALUES (-9223372036854775808, 'min'), (-1, 'm1'), (0, 'zero'), (3, 'three'), (9223372036854775807, 'max'); INSERT INTO plain VALUES ('p1'), ('p2'); DELETE FROM plain WHERE rowid = 1")
		img := l.Serialize()
		r.Validated(1)
		r.StateBytes(img)
		h, d, _, err := vpager.OpenImage(img)
		desc := map[string]interface{}{"family": "page-sizes-and-empty-tables", "page_size": ps, "builder": "sqlite"}
		if err != nil {
			r.Violation("C04:open", fmt.Sprintf("database written by SQLite refused: %v", err), desc)
			l.Close()
			continue
		}
		for _, tn := range []string{"fresh", "emptied", "one", "few", "plain", "ends", "minzero", "negmax"} {
			present := map[int64][]interface{}{}
			rows, err := l.Query("SELECT rowid, v FROM " + tn)
			if err != nil {
				r.Harness("C04 page sizes oracle: %v", err)
				continue
			}
			for _, row := range rows {
				present[row[0].(int64)] = row
			}
			for _, id := range []int64{math.MinInt64, math.MinInt64 + 1, -5, -1, 0, 1, 2, 3, 4, 7, 8, math.MaxInt64 - 1, math.MaxInt64} {
				want, ok := present[id]
				art := map[string]interface{}{"image": desc, "table": tn, "rowid": id, "present": ok}
				class := "absent"
				if ok {
					class = "present"
				}
				r.Eval(1)
				r.NontrivialN(1)
				row, err := h.SelectRowid(tn, id, "rowid", "v")
				r.Trans(1)
				c04Judge(r, "SelectRowid", class, id, CopyRowOrNil(row), err, want, ok, art)
				if tn != "plain" {
					var got [][]interface{}
					err = h.PKSelect(tn, sqlittle.Key{id}, func(rw sqlittle.Row) { got = append(got, CopyRow(rw)) }, "rowid", "v")
					r.Trans(1)
					var one []interface{}
					if len(got) == 1 {
						one = got[0]
					}
					c04Judge(r, "PKSelect", class, id, one, err, want, ok, art)
				}
				d.RLock()
				tb, err := d.Table(tn)
				found := false
				if err == nil {
					rec, e := tb.Rowid(id)
					err = e
					found = rec != nil
				}
				d.RUnlock()
				r.Trans(1)
				if err != nil || found != ok {
					r.Violation("C04:Table.Rowid:"+class, fmt.Sprintf("Table.Rowid(%d) on %s: record=%v err=%v, row present=%v", id, tn, found, err, ok), art)
				}
			}
		}
		l.Close()
	}
}

func CopyRowOrNil(r sqlittle.Row) []interface{} {
	if r == nil {
		return nil
	}
	return CopyRow(r)
}

func c04Judge(r *ev.Run, op, class string, id int64, got []interface{}, err error, want []interface{}, present bool, art map[string]interface{}) {
	if err != nil {
		r.Violation("C04:"+op+":error", fmt.Sprintf("%s(%d) on a well-formed table: %v", op, id, err), art)
		return
	}
	if !present {
		if got != nil {
			r.Violation("C04:"+op+":phantom", fmt.Sprintf("%s(%d): rowid absent but a row is returned: %s", op, id, RowS(got)), art)
		}
		return
	}
	if got == nil {
		r.Violation("C04:"+op+":notfound", fmt.Sprintf("%s(%d): row exists but is not found", op, id), art)
		return
	}
	if !RowEq(got, want, true) {
		r.Violation("C04:"+op+":values", fmt.Sprintf("%s(%d): got %s want %s", op, id, RowS(got), RowS(want)), art)
	}
}

// c04LeafSizes: a leaf page with EVERY number of cells from 1 to 260 (400 thorough): whatever a search inside a leaf
// does with the cell count (bisection, galloping, sentinels) meets every count, and every cell position is looked up
func c04LeafSizes(r *ev.Run) {
	max := 260
	if r.Thorough() {
		max = 400
	}
	for lo := 1; lo <= max; lo += 40 {
		l, err := lite.OpenMem()
		if err != nil {
			r.Harness("lite: %v", err)
			return
		}
		l.MustExec("PRAGMA page_size=4096")
		hi := lo + 39
		if hi > max {
			hi = max
		}
		for n := lo; n <= hi; n++ {
			l.MustExec(fmt.Sprintf("CREATE TABLE n%d (id INTEGER PRIMARY KEY, v); WITH RECURSIVE c(i) AS (SELECT 1 UNION ALL SELECT i+1 FROM c WHERE i<%d) INSERT INTO n%d SELECT i*10, i%%7 FROM c", n, n, n))
		}
		img := l.Serialize()
		l.Close()
		r.Validated(1)
		h, d, _, err := vpager.OpenImage(img)
		desc := map[string]interface{}{"family": "leaf-sizes", "page_size": 4096, "cells_per_leaf": fmt.Sprintf("%d..%d", lo, hi), "builder": "sqlite"}
		if err != nil {
			r.Violation("C04:open", fmt.Sprintf("database written by SQLite refused: %v", err), desc)
			continue
		}
		for n := lo; n <= hi; n++ {
			tn := fmt.Sprintf("n%d", n)
			d.RLock()
			tb, terr := d.Table(tn)
			d.RUnlock()
			if terr != nil {
				r.Violation("C04:Table.Rowid:present", fmt.Sprintf("Table(%s): %v", tn, terr), desc)
				continue
			}
			for i := 1; i <= n; i++ {
				for _, id := range []int64{int64(i * 10), int64(i*10 - 1), int64(i*10 + 1)} {
					ok := id%10 == 0
					var want []interface{}
					class := "absent"
					if ok {
						class = "present"
						want = []interface{}{id, int64(i % 7)}
					}
					art := map[string]interface{}{"image": desc, "table": tn, "rowid": id, "present": ok}
					r.Eval(1)
					r.NontrivialN(1)
					r.Trans(2)
					row, err := h.SelectRowid(tn, id, "rowid", "v")
					c04Judge(r, "SelectRowid", class, id, CopyRowOrNil(row), err, want, ok, art)
					d.RLock()
					rec, err := tb.Rowid(id)
					d.RUnlock()
					if err != nil || (rec != nil) != ok {
						r.Violation("C04:Table.Rowid:"+class, fmt.Sprintf("Table.Rowid(%d) on %s (a leaf of %d cells): record=%v err=%v, row present=%v", id, tn, n, rec != nil, err, ok), art)
					}
				}
			}
		}
		h.Close()
	}
}
