package checks

// C10 — Table and index definitions are interpreted the way SQLite
// interprets them. Kind S over programs: a grammar-directed enumeration of
// CREATE TABLE / CREATE INDEX statements within bounds; only statements real
// SQLite accepts are judged; oracle = SQLite's own PRAGMA table_xinfo /
// index_list / index_xinfo and a behavioural rowid-alias probe on the same
// database.

import (
	"fmt"
	"os"
	"runtime"
	"sort"
	"strings"
	"sync"
	"sync/atomic"

	"verif/internal/ev"
	"verif/internal/lite"
	"verif/internal/vpager"

	sdb "github.com/alicebob/sqlittle/db"
	"github.com/alicebob/sqlittle/sql"
)

func init() { Registry["C10"] = Check{Level: "model_checking", Fn: runC10} }

var c10ColCons = []string{"PRIMARY KEY", "PRIMARY KEY ASC", "PRIMARY KEY DESC", "PRIMARY KEY AUTOINCREMENT", "UNIQUE", "NOT NULL", "NULL",
	"COLLATE NOCASE", "COLLATE RTRIM", "COLLATE BINARY", "DEFAULT 1", "DEFAULT 'x'", "DEFAULT NULL", "CHECK (1 > 0)", "REFERENCES o (x)"}

var c10Types = []string{"", "INTEGER", "integer", "INT", "TEXT", "INTEGER(5)"}

// ordered lists of <= k constraints
func c10ConsLists(k int) []string {
	out := []string{""}
	prev := []string{""}
	for l := 1; l <= k; l++ {
		var next []string
		for _, p := range prev {
			for _, c := range c10ColCons {
				s := strings.TrimSpace(p + " " + c)
				next = append(next, s)
			}
		}
		out = append(out, next...)
		prev = next
	}
	return out
}

type c10Case struct {
	family string
	stmts  []string // executed in order; the first is the CREATE TABLE
	table  string   // name of the table ("" = t)
}

func (c *c10Case) tname() string {
	if c.table == "" {
		return "t"
	}
	return c.table
}

func c10Generate(thorough bool) []c10Case {
	var cases []c10Case
	add := func(family string, stmts ...string) { cases = append(cases, c10Case{family: family, stmts: stmts}) }
	wr := []string{"", " WITHOUT ROWID"}
	// F1: one column under test (every type x every constraint list) + a plain column
	k := 2
	if thorough {
		k = 3
	}
	names := []string{"a", `"a"`, "[a]", "`a`", "é", "A", "'a'"}
	for _, cl := range c10ConsLists(k) {
		for ti, ty := range c10Types {
			if ti > 0 && !strings.Contains(cl, "PRIMARY KEY") && ti != 4 && ti != 1 {
				continue // the type only matters for the rowid alias rule and affinity-free comparison
			}
			for _, w := range wr {
				if w != "" && !strings.Contains(cl, "PRIMARY KEY") {
					continue
				}
				for ni, n := range names {
					if ni > 0 && (ti > 1 || len(cl) > 24) {
						continue
					}
					col := strings.TrimSpace(n + " " + ty + " " + cl)
					add("one-column", "CREATE TABLE t ("+col+", b)"+w)
					add("one-column-last", "CREATE TABLE t (b, "+col+")"+w)
				}
			}
		}
	}
	// F2: two / three columns from a reduced alphabet x table constraints
	red := []string{"", "INTEGER", "TEXT COLLATE NOCASE", "INTEGER PRIMARY KEY", "PRIMARY KEY", "UNIQUE", "COLLATE RTRIM UNIQUE", "TEXT PRIMARY KEY DESC", "NOT NULL DEFAULT 'x'", "INT UNIQUE COLLATE NOCASE", "REFERENCES o (x) DEFERRABLE"}
	tcs := []string{"PRIMARY KEY (a)", "PRIMARY KEY (b)", "PRIMARY KEY (a DESC)", "PRIMARY KEY (b, a)", "PRIMARY KEY (a, b DESC)", "PRIMARY KEY (a COLLATE NOCASE)", "PRIMARY KEY (a, a)", "PRIMARY KEY (b COLLATE RTRIM DESC, a)",
		"UNIQUE (a)", "UNIQUE (b)", "UNIQUE (a DESC)", "UNIQUE (a, b)", "UNIQUE (b, a)", "UNIQUE (a COLLATE NOCASE)", "UNIQUE (a COLLATE BINARY)", "UNIQUE (A)", "UNIQUE (b COLLATE RTRIM, a DESC)", "CONSTRAINT cn UNIQUE (a)", "CONSTRAINT cn PRIMARY KEY (a)",
		"FOREIGN KEY (a) REFERENCES o (x)", "UNIQUE (a) ON CONFLICT REPLACE", "UNIQUE ('a')", "PRIMARY KEY ('b', \"a\" DESC)"}
	tcLists := [][]string{{}}
	for _, t := range tcs {
		tcLists = append(tcLists, []string{t})
	}
	for _, t1 := range tcs {
		for _, t2 := range tcs {
			tcLists = append(tcLists, []string{t1, t2})
		}
	}
	for _, ca := range red {
		for _, cb := range red {
			for _, tl := range tcLists {
				parts := []string{strings.TrimSpace("a " + ca), strings.TrimSpace("b " + cb)}
				parts = append(parts, tl...)
				for _, w := range wr {
					add("two-columns", "CREATE TABLE t ("+strings.Join(parts, ", ")+")"+w)
				}
			}
		}
	}
	red3 := []string{"", "INTEGER", "COLLATE NOCASE", "INTEGER PRIMARY KEY", "UNIQUE", "PRIMARY KEY DESC", "REFERENCES o (x) DEFERRABLE"}
	tc3 := []string{"PRIMARY KEY (c, a)", "PRIMARY KEY (b)", "UNIQUE (c)", "UNIQUE (a, c DESC)", "UNIQUE (c, b, a)", "UNIQUE (a)", "PRIMARY KEY (a)",
		// a key column named again with other columns in between
		"PRIMARY KEY (a, b, a)", "PRIMARY KEY (c, a, c, b)", "UNIQUE (a, b, a)", "PRIMARY KEY (a, b, a COLLATE NOCASE)"}
	tc3Lists := [][]string{{}}
	for _, t := range tc3 {
		tc3Lists = append(tc3Lists, []string{t})
	}
	if thorough {
		for _, t1 := range tc3 {
			for _, t2 := range tc3 {
				tc3Lists = append(tc3Lists, []string{t1, t2})
			}
		}
	} else {
		// the pair behind F39 in the quick tier too
		tc3Lists = append(tc3Lists, []string{"PRIMARY KEY (a, b, a)", "UNIQUE (a, b, a)"}, []string{"UNIQUE (a, b, a)", "PRIMARY KEY (a, b, a)"})
	}
	for _, ca := range red3 {
		for _, cb := range red3 {
			for _, cc := range red3 {
				for _, tl := range tc3Lists {
					parts := []string{strings.TrimSpace("a " + ca), strings.TrimSpace("b " + cb), strings.TrimSpace("c " + cc)}
					parts = append(parts, tl...)
					for _, w := range wr {
						add("three-columns", "CREATE TABLE t ("+strings.Join(parts, ", ")+")"+w)
					}
				}
			}
		}
	}
	// F3: CREATE INDEX on base tables
	bases := []string{
		"CREATE TABLE t (a, b COLLATE NOCASE, c)",
		"CREATE TABLE t (a INTEGER PRIMARY KEY, b COLLATE NOCASE, c UNIQUE)",
		"CREATE TABLE t (a, b COLLATE NOCASE, c, PRIMARY KEY (b DESC, a)) WITHOUT ROWID",
		"CREATE TABLE t (a TEXT PRIMARY KEY, b COLLATE NOCASE, c) WITHOUT ROWID",
		"CREATE TABLE t (a PRIMARY KEY, b COLLATE NOCASE UNIQUE, c, UNIQUE (c, a))",
	}
	mods := []string{"", " COLLATE NOCASE", " DESC", " COLLATE RTRIM DESC", " COLLATE BINARY ASC"}
	colsets := [][]string{{"a"}, {"b"}, {"c"}, {"a", "b"}, {"b", "a"}, {"c", "b"}, {"a", "b", "c"}, {"c", "a", "b"}, {"b", "b"}, {"A"}, {`"b"`}, {"'a'"}, {"'b'", "[a]"}, {"a + 1"}, {"b", "lower(c)"}, {"rowid"},
		// a column behind an operator that does nothing (or little) is an expression for SQLite, a column in parentheses is a column
		{"+b"}, {"-b"}, {"(b)"}, {"+(b)"}, {"b || ''"}, {"CAST(b AS TEXT)"}, {"~a"}, {"NOT a"}, {"b IS NULL"}, {"+b", "a"}, {"a", "-c"}, {"(b)", "(a)"}}
	var ixdefs []string
	for _, cs := range colsets {
		var rec func(i int, cur []string)
		rec = func(i int, cur []string) {
			if i == len(cs) {
				ixdefs = append(ixdefs, strings.Join(cur, ", "))
				return
			}
			for _, m := range mods {
				if len(cs) == 3 && m != "" && m != " DESC" {
					continue
				}
				rec(i+1, append(cur, cs[i]+m))
			}
		}
		rec(0, nil)
	}
	for _, b := range bases {
		for _, d := range ixdefs {
			for _, u := range []string{"", "UNIQUE "} {
				for _, wh := range []string{"", " WHERE a > 3"} {
					add("one-index", b, "CREATE "+u+"INDEX i1 ON t ("+d+")"+wh)
				}
			}
		}
		// two indexes
		short := []string{"a", "b DESC", "b COLLATE RTRIM", "c, a", "a + 1"}
		for _, d1 := range short {
			for _, d2 := range short {
				add("two-indexes", b, "CREATE INDEX i1 ON t ("+d1+")", "CREATE UNIQUE INDEX I2 ON t ("+d2+")")
			}
		}
	}
	// F4: identifiers and keywords that differ only in NON-ASCII case. SQLite folds ASCII letters only:
	// "é"/"É", "k"/Kelvin sign, "s"/long s, "i"/dotless i are different names, and a word that only
	// becomes a keyword under Unicode case mapping (unıque, prımary, ıNTEGER) is a plain identifier.
	pairs := [][2]string{{"é", "É"}, {"k", "\u212a"}, {"s", "ſ"}, {"i", "ı"}, {"ǆ", "ǅ"}}
	for _, pr := range pairs {
		for _, xy := range [][2]string{{pr[0], pr[1]}, {pr[1], pr[0]}} {
			x, y := xy[0], xy[1]
			for _, w := range wr {
				add("unicode-case", "CREATE TABLE t ("+x+", "+y+", PRIMARY KEY ("+y+"))"+w)
				add("unicode-case", "CREATE TABLE t ("+x+", "+y+", PRIMARY KEY ("+y+", "+x+" DESC))"+w)
			}
			add("unicode-case", "CREATE TABLE t ("+x+", "+y+" UNIQUE)")
			add("unicode-case", "CREATE TABLE t ("+x+" COLLATE NOCASE, "+y+", UNIQUE ("+x+"), UNIQUE ("+y+"))")
			add("unicode-case", "CREATE TABLE t ("+x+" INTEGER PRIMARY KEY, "+y+" UNIQUE)")
			add("unicode-case", "CREATE TABLE t ("+x+" TEXT COLLATE RTRIM, "+y+")", "CREATE INDEX i1 ON t ("+y+")")
			add("unicode-case", "CREATE TABLE t ("+x+" TEXT COLLATE RTRIM, "+y+")", "CREATE INDEX i1 ON t ("+x+")", "CREATE INDEX "+x+" ON t ("+y+")", "CREATE INDEX "+y+" ON t ("+x+" DESC)")
		}
	}
	for _, ty := range []string{"ıNTEGER", "ınteger", "INTEGEɌ", "İNTEGER", "ıNT"} {
		for _, w := range wr {
			add("unicode-case", "CREATE TABLE t (a "+ty+" PRIMARY KEY, b)"+w)
			add("unicode-case", "CREATE TABLE t (b, a "+ty+", PRIMARY KEY (a))"+w)
		}
	}
	for _, kw := range []string{"unıque", "UNIQUE", "prımary key", "deſc", "aſc", "ıs", "collate nocaſe", "not null", "not nulL", "ındex", "conſtraint", "wıthout rowıd", "default nulL", "autoıncrement", "referenceſ"} {
		// as a type name (legal: a type is any run of identifiers) and as a column name
		add("unicode-case", "CREATE TABLE t (a "+kw+", b)")
		add("unicode-case", "CREATE TABLE t (a INTEGER PRIMARY KEY "+kw+", b)")
		add("unicode-case", "CREATE TABLE t (a, "+kw+")")
		add("unicode-case", "CREATE TABLE t (a PRIMARY KEY, b) "+kw)
	}
	// F5: characters that are white space for Unicode but not for SQLite (which knows blank, \t, \n, \f, \r
	// only; every byte >= 0x80 is an identifier character): they are part of the name
	for _, sp := range []string{"\u00a0", "\u0085", "\u2003", "\u3000", "\u2028", "\u1680", "\ufeff", "\v"} {
		add("unicode-space", "CREATE TABLE t (a"+sp+"INTEGER PRIMARY KEY, b)")
		add("unicode-space", "CREATE TABLE t (a"+sp+"UNIQUE, b)")
		add("unicode-space", "CREATE TABLE t (a"+sp+"b, c, PRIMARY KEY (c))")
		add("unicode-space", "CREATE TABLE t (a, b"+sp+"COLLATE"+sp+"NOCASE UNIQUE)")
		add("unicode-space", "CREATE TABLE t (a, b, UNIQUE (a,"+sp+"b))")
		add("unicode-space", "CREATE TABLE t (a, b)", "CREATE INDEX i1 ON t (b"+sp+"DESC)")
		add("unicode-space", "CREATE TABLE t (a, b)", "CREATE INDEX i1 ON t (b)"+sp+"WHERE a > 1")
	}
	// F8: comments. A comment between two tokens changes nothing, a token inside a comment is not there. The
	// forms include the corner cases of SQLite's tokenizer: /*/ only OPENS a comment, an unterminated /* runs
	// to the end, -- ends at the newline, quotes inside comments are not quotes. (A reader that rejects every
	// definition with a comment satisfies this family trivially.)
	for _, base := range [][]string{
		{"CREATE", "TABLE", "t", "(", "a", "INTEGER", "PRIMARY KEY", ",", "b", "TEXT", "COLLATE NOCASE", "UNIQUE", ",", "c", ")"},
		{"CREATE", "TABLE", "t", "(", "a", ",", "b", "TEXT", ",", "PRIMARY KEY", "(", "b", "DESC", ",", "a", ")", ")", "WITHOUT ROWID"},
		{"CREATE", "TABLE", "t", "(", "a", "INTEGER", ",", "b", "UNIQUE", ",", "UNIQUE", "(", "a", "COLLATE RTRIM", "DESC", ")", ")"},
	} {
		join := func(toks []string) string { return strings.Join(toks, " ") }
		for g := 1; g <= len(base); g++ {
			for _, cm := range []string{"/* c */", "/**/", "/*/ x /*/", "-- c\n", "/* ' */", "/* \" -- */", "--'\n", "/***/", "/* */ /* */"} {
				toks := append(append(append([]string{}, base[:g]...), cm), base[g:]...)
				add("comments", join(toks))
			}
			if g == len(base) {
				add("comments", join(base)+" /* open", join(base)+" --", join(base)+"/*/")
			}
		}
		// tokens i..j commented out (SQLite decides whether what is left is a definition)
		for i := 4; i < len(base); i++ {
			for j := i; j < len(base) && j < i+3; j++ {
				for _, pair := range [][2]string{{"/*", "*/"}, {"/*/", "/*/"}, {"/*/", "*/"}, {"--", "\n"}} {
					toks := append([]string{}, base[:i]...)
					toks = append(toks, pair[0]+" "+join(base[i:j+1])+" "+pair[1])
					toks = append(toks, base[j+1:]...)
					add("comments", join(toks))
				}
			}
		}
	}
	for _, cm := range []string{"/* c */", "/*/ DESC /*/", "-- DESC\n", "/*/ COLLATE NOCASE */"} {
		add("comments", "CREATE TABLE t (a, b)", "CREATE INDEX i1 ON t (b "+cm+" , a)")
		add("comments", "CREATE TABLE t (a, b)", "CREATE UNIQUE INDEX i1 ON t "+cm+" (b "+cm+" DESC)")
	}
	// F9: names that carry their own quote character (doubled inside), next to names in every other quoting
	// style: how one name is quoted must not change how the next one is read
	for _, n1 := range []string{"[x]", `"x"`, "`x`", "'x'", "x", `"x""y"`} {
		for _, n2 := range []string{`"a""b"`, "`a``b`", `"a""b""c"`, "`a``b``c`", "'a''b'", `"a b"`, "`a[b`", `"a]b"`, `[a"b]`, "`n``INTEGER`", `"n""INTEGER"`, `""""`, "````"} {
			add("quoted-names", "CREATE TABLE t ("+n1+" INT, "+n2+", c)")
			add("quoted-names", "CREATE TABLE t ("+n1+", "+n2+" PRIMARY KEY, c)")
			add("quoted-names", "CREATE TABLE t ("+n1+", "+n2+" UNIQUE)")
			add("quoted-names", "CREATE TABLE t ("+n2+" PRIMARY KEY, "+n1+") WITHOUT ROWID")
			add("quoted-names", "CREATE TABLE t ("+n1+", "+n2+" TEXT, UNIQUE ("+n2+" DESC, "+n1+"))")
			add("quoted-names", "CREATE TABLE t ("+n1+", "+n2+", c)", "CREATE INDEX i1 ON t ("+n2+", "+n1+")")
		}
	}
	// F10: a double-quoted word that names no column is a string for SQLite (an expression key column), and a
	// column may have the empty name
	for _, ic := range []string{`"nosuch"`, `"nosuch", a`, `a, "nosuch" DESC`, `"nosuch" COLLATE NOCASE`, `"A"`, `"b", "nosuch"`} {
		add("quoted-non-columns", "CREATE TABLE t (a, b COLLATE NOCASE, c)", "CREATE INDEX i1 ON t ("+ic+")")
		add("quoted-non-columns", "CREATE TABLE t (a INTEGER PRIMARY KEY, b COLLATE NOCASE, c)", "CREATE UNIQUE INDEX i1 ON t ("+ic+")")
	}
	for _, def := range []string{`("" , b)`, `(a, "" COLLATE NOCASE)`, `(a, "" UNIQUE)`, `(a, "", UNIQUE (""))`, `("" PRIMARY KEY, b) WITHOUT ROWID`, `(a, [])`, "(a, ``)"} {
		add("quoted-non-columns", "CREATE TABLE t "+def)
		add("quoted-non-columns", "CREATE TABLE t "+def, `CREATE INDEX i1 ON t ("")`)
	}
	// F7: table options after the closing parenthesis (STRICT exists since 3.37; a definition sqlittle cannot
	// interpret must be rejected, not read as if the options were not there)
	for _, opt := range []string{" STRICT", " WITHOUT ROWID, STRICT", " STRICT, WITHOUT ROWID", " strict , without rowid"} {
		for _, def := range []string{"(a INTEGER PRIMARY KEY, b TEXT)", "(a TEXT PRIMARY KEY, b INT UNIQUE)", "(a INT, b TEXT, PRIMARY KEY (b DESC, a))", "(a ANY PRIMARY KEY DESC, b BLOB) "} {
			add("table-options", "CREATE TABLE t "+def+opt)
			add("table-options", "CREATE TABLE t "+def+opt, "CREATE INDEX i1 ON t (b DESC)")
		}
	}
	// F6: table names that need quoting: automatic index names are built from the table name
	for _, tn := range []string{"growth_%", "%s", "100%d", "a b", `q"r`, "T", "sqlite", "t.u", "naïve", "x'y"} {
		q := QI(tn)
		for _, def := range []string{"(a UNIQUE, b, PRIMARY KEY (b))", "(a PRIMARY KEY, b UNIQUE, c) WITHOUT ROWID", "(a INTEGER PRIMARY KEY, b, UNIQUE (b, a))"} {
			cases = append(cases, c10Case{family: "table-names", stmts: []string{"CREATE TABLE " + q + " " + def, "CREATE INDEX i1 ON " + q + " (b DESC, a)"}, table: tn})
		}
	}
	return cases
}

func normColl(s string) string {
	if s == "" {
		return "BINARY"
	}
	return strings.ToUpper(s)
}

// what C10 compares, from either side
type c10Index struct {
	Name string
	Cols []string // "name|COLL|dir" or "<expr>|COLL|dir"
}

type c10View struct {
	Cols    []string
	WR      bool
	Alias   string // lower-case name of the rowid alias column, "" if none
	PK      []string
	PKIndex string // name of the index backing the pk of a rowid table ("" if alias or none)
	Indexes map[string]c10Index
}

func c10Lite(l *lite.DB, table string) (*c10View, error) {
	ts, err := LiteSchema(l)
	if err != nil {
		return nil, err
	}
	var t *LiteTable
	for i := range ts {
		if ts[i].Name == table {
			t = &ts[i]
		}
	}
	if t == nil {
		return nil, fmt.Errorf("no table t")
	}
	v := &c10View{Cols: t.Cols, WR: t.WithoutRowid, Indexes: map[string]c10Index{}}
	for i := range t.Indexes {
		ix := &t.Indexes[i]
		ci := c10Index{Name: FoldID(ix.Name)}
		for _, c := range ix.Cols {
			if !c.Key {
				continue
			}
			name := FoldID(c.Name)
			if c.Cid == -2 {
				name = "<expr>"
			}
			if c.Cid == -1 {
				name = "rowid"
			}
			dir := "ASC"
			if c.Desc {
				dir = "DESC"
			}
			ci.Cols = append(ci.Cols, name+"|"+normColl(c.Coll)+"|"+dir)
		}
		if ix.Origin == "pk" {
			if t.WithoutRowid {
				v.PK = ci.Cols
				continue
			}
			v.PKIndex = ci.Name
			v.PK = ci.Cols
		}
		v.Indexes[ci.Name] = ci
	}
	// behavioural alias probe (rowid tables): distinct integers in every column
	if !t.WithoutRowid {
		vals := make([]string, len(t.Cols))
		for i := range vals {
			vals[i] = fmt.Sprint(70 + i)
		}
		if err := l.Exec("INSERT INTO " + QI(table) + " VALUES (" + strings.Join(vals, ", ") + ")"); err != nil {
			return nil, fmt.Errorf("probe insert: %v", err)
		}
		rows, err := l.Query("SELECT rowid FROM " + QI(table))
		if err != nil || len(rows) != 1 {
			return nil, fmt.Errorf("probe select: %v", err)
		}
		id := rows[0][0].(int64)
		for i := range t.Cols {
			if id == int64(70+i) {
				v.Alias = FoldID(t.Cols[i])
			}
		}
	} else {
		vals := make([]string, len(t.Cols))
		for i := range vals {
			vals[i] = fmt.Sprint(70 + i)
		}
		if err := l.Exec("INSERT INTO " + QI(table) + " VALUES (" + strings.Join(vals, ", ") + ")"); err != nil {
			return nil, fmt.Errorf("probe insert: %v", err)
		}
	}
	return v, nil
}

func c10Little(s *sdb.Schema) *c10View {
	v := &c10View{WR: s.WithoutRowid, Indexes: map[string]c10Index{}}
	for _, c := range s.Columns {
		v.Cols = append(v.Cols, c.Column)
		if c.Rowid {
			v.Alias = FoldID(c.Column)
		}
	}
	conv := func(cols []sdb.IndexColumn) []string {
		var out []string
		for _, c := range cols {
			name := FoldID(c.Column)
			if c.Column == "" {
				name = "<expr>"
			}
			if s.Column(c.Column) < 0 && (name == "rowid" || name == "oid" || name == "_rowid_") {
				name = "rowid"
			}
			dir := "ASC"
			if c.SortOrder == sql.Desc {
				dir = "DESC"
			}
			out = append(out, name+"|"+normColl(c.Collate)+"|"+dir)
		}
		return out
	}
	for _, ix := range s.Indexes {
		v.Indexes[FoldID(ix.Index)] = c10Index{Name: FoldID(ix.Index), Cols: conv(ix.Columns)}
	}
	if s.WithoutRowid {
		v.PK = conv(s.PK)
	} else if s.PrimaryKey != "" {
		v.PKIndex = FoldID(s.PrimaryKey)
	}
	return v
}

func runC10(r *ev.Run) {
	r.Rule = "grammar-directed enumeration of CREATE TABLE statements (1-3 columns; types {none, INTEGER, integer, INT, TEXT, INTEGER(5)}; every ordered list of <=2 (3 thorough) column constraints from 15; 0-2 table constraints from 20 incl. duplicate/overlapping/re-ordered/collated/DESC ones and CONSTRAINT names; WITHOUT ROWID; 7 identifier spellings incl. the string literal SQLite accepts where a name is expected; identifiers, type names and keywords that differ only in non-ASCII case - SQLite folds ASCII only) and CREATE INDEX statements (UNIQUE, column permutations, per-column COLLATE/DESC, partial, expression columns, one or two indexes) on 5 base tables; names with doubled quote characters inside, in every quoting style, next to names of every other style; comments between any two tokens and around any 1-3 tokens in 9 forms (/*/ opens a comment, open comments, -- to the newline, quotes inside comments); the index families and a quarter of the DESC-bearing table definitions once more in a legacy-format database (schema format 3: DESC is ignored); only statements real SQLite accepts are judged; oracle: PRAGMA table_xinfo/index_list/index_xinfo + a behavioural rowid-alias probe + reading the probe row back, through the table and through every listed index. A definition sqlittle rejects is fine; an explicit index it leaves out is fine; every index it reports must match SQLite's index of that name; every automatic index must be reported. non-trivial = statements with at least one index or a primary key"
	cases := c10Generate(r.Thorough())
	r.Set("generated_statements", len(cases))
	// one SQLite connection per worker, reused (the table is dropped between cases)
	var next int64 = -1
	var wg sync.WaitGroup
	for w := 0; w < runtime.NumCPU(); w++ {
		wg.Add(1)
		go func() {
			defer wg.Done()
			l, err := lite.OpenMem()
			if err != nil {
				r.Harness("lite: %v", err)
				return
			}
			defer l.Close()
			l.MustExec("PRAGMA page_size=512; CREATE TABLE o (x PRIMARY KEY);")
			// a second database in SQLite's legacy file format (schema format 3 after the ADD COLUMN): DESC in
			// index and primary key definitions is ignored there, and SQLite's PRAGMAs say so
			ll, err := lite.OpenMem()
			if err != nil {
				r.Harness("lite: %v", err)
				return
			}
			defer ll.Close()
			ll.LegacyFormat(true)
			ll.MustExec("PRAGMA page_size=512; CREATE TABLE o (x PRIMARY KEY); ALTER TABLE o ADD COLUMN y DEFAULT 1;")
			for {
				i := int(atomic.AddInt64(&next, 1))
				if i >= len(cases) {
					return
				}
				c10One(r, l, &cases[i])
				if f := cases[i].family; f == "one-index" || f == "two-indexes" || (f == "two-columns" && strings.Contains(cases[i].stmts[0], "DESC") && i%4 == 0) {
					lc := c10Case{family: f + " (legacy file format)", stmts: cases[i].stmts}
					c10One(r, ll, &lc)
				}
			}
		}()
	}
	wg.Wait()
}

// c10Class names the special construct of a statement list for which a
// discrepancy is a separately tracked finding; "" for everything else.
func c10Class(stmts []string) string {
	all := strings.Join(stmts, "; ")
	up := strings.ToUpper(all)
	if strings.Contains(up, "INTEGER(5)") && strings.Contains(up, "PRIMARY KEY") {
		return ":integer(n)-primary-key"
	}
	if strings.Contains(up, "PRIMARY KEY (A, A)") {
		return ":duplicate-pk-column"
	}
	if strings.Contains(up, "WITHOUT ROWID") {
		// F39: a key that names a column again, next to a UNIQUE constraint over the very same written list
		plain := up
		if strings.Contains(up, "(A COLLATE NOCASE,") {
			plain = strings.ReplaceAll(up, "A COLLATE NOCASE)", "A)") // the same list where column a is declared NOCASE
		}
		for _, list := range []string{"(A, B, A)", "(C, A, C, B)"} {
			if strings.Contains(plain, "PRIMARY KEY "+list) && strings.Contains(plain, "UNIQUE "+list) {
				return ":repeated-key-column-and-same-unique"
			}
		}
	}
	if strings.Contains(up, "+ 1 COLLATE") || strings.Contains(up, "|| '' COLLATE") {
		// COLLATE directly behind the right operand of a binary operator (F18)
		return ":binary-op-collate"
	}
	for _, empty := range []string{`"" `, `"")`, `"",`, "[]", "``)", "`` "} {
		if strings.Contains(all, empty) && !strings.Contains(all, `"""`) && !strings.Contains(all, "```") {
			return ":empty-column-name"
		}
	}
	body := stmts[0]
	if i := strings.Index(body, "("); i >= 0 {
		body = body[i+1:]
	}
	for _, piece := range strings.Split(body, ", ") {
		pu := strings.ToUpper(piece)
		tp := strings.TrimSpace(pu)
		if strings.HasPrefix(tp, "PRIMARY KEY") || strings.HasPrefix(tp, "UNIQUE") || strings.HasPrefix(tp, "CONSTRAINT") || strings.HasPrefix(tp, "FOREIGN") {
			continue // a table constraint, not a column definition
		}
		if strings.Contains(pu, "UNIQUE") && strings.Contains(pu, "PRIMARY KEY DESC") {
			return ":unique+primary-key-desc-on-one-column"
		}
	}
	return ""
}

var c10DumpSig = os.Getenv("VERIF_C10_DUMP")

var (
	c10NamedMu   sync.Mutex
	c10NamedLeft = map[*lite.DB]bool{}
)

func c10One(r *ev.Run, l *lite.DB, c *c10Case) {
	if c10DumpSig != "" {
		before := r.HasViolation(c10DumpSig)
		defer func() {
			_ = before
		}()
	}
	c10NamedMu.Lock()
	left := c10NamedLeft[l]
	c10NamedMu.Unlock()
	if c.table != "" || left {
		// tables of other names left behind by an earlier case (their index i1 would be in the way)
		if rows, err := l.Query("SELECT name FROM sqlite_master WHERE type='table' AND name <> 'o' AND name NOT LIKE 'sqlite_%'"); err == nil {
			for _, row := range rows {
				if n, ok := row[0].(string); ok {
					l.Exec("DROP TABLE IF EXISTS " + QI(n))
				}
			}
		}
		c10NamedMu.Lock()
		c10NamedLeft[l] = c.table != ""
		c10NamedMu.Unlock()
	}
	if err := l.Exec("DROP TABLE IF EXISTS " + QI(c.tname())); err != nil {
		r.Harness("drop: %v", err)
		return
	}
	for _, st := range c.stmts {
		if err := l.Exec(st); err != nil {
			r.Outcome("sqlite-rejects")
			return
		}
	}
	r.Eval(1)
	art := map[string]interface{}{"family": c.family, "statements": c.stmts}
	want, err := c10Lite(l, c.tname())
	if err != nil {
		r.Outcome("probe-failed")
		return
	}
	r.Validated(1)
	img := l.Serialize()
	r.StateBytes([]byte(strings.Join(c.stmts, ";")))
	h, d, _, err := vpager.OpenImage(img)
	if err != nil {
		r.Violation("C10:open", fmt.Sprintf("database written by SQLite refused: %v", err), art)
		return
	}
	d.RLock()
	var s *sdb.Schema
	p := Safely(func() { s, err = d.Schema(c.tname()) })
	d.RUnlock()
	r.Trans(1)
	if p != nil {
		r.Violation("C10:panic", fmt.Sprintf("Schema panics on %q: %v", c.stmts, p), art)
		return
	}
	if err != nil {
		r.Outcome("sqlittle-rejects")
		return
	}
	got := c10Little(s)
	cls := c10Class(c.stmts)
	if len(want.Indexes) > 0 || len(want.PK) > 0 || want.Alias != "" {
		r.NontrivialN(1)
	}
	r.Outcome(fmt.Sprintf("%s indexes=%d alias=%v wr=%v", c.family, len(want.Indexes), want.Alias != "", want.WR))
	if len(want.Indexes) == 3 {
		r.Sample(art)
	}
	stmt := strings.Join(c.stmts, "; ")
	if !SameID(strings.Join(got.Cols, ","), strings.Join(want.Cols, ",")) {
		r.Violation("C10:columns"+cls, fmt.Sprintf("%s: columns %v, SQLite %v", stmt, got.Cols, want.Cols), art)
		return
	}
	if got.WR != want.WR {
		r.Violation("C10:withoutrowid"+cls, fmt.Sprintf("%s: WithoutRowid=%v, SQLite %v", stmt, got.WR, want.WR), art)
		return
	}
	if got.Alias != want.Alias {
		r.Violation("C10:rowid-alias:"+c10AliasClass(stmt)+cls, fmt.Sprintf("%s: rowid alias column %q, SQLite's behaviour says %q", stmt, got.Alias, want.Alias), art)
	}
	if want.WR {
		if strings.Join(got.PK, ",") != strings.Join(want.PK, ",") {
			r.Violation("C10:wr-pk:"+c10PKClass(got.PK, want.PK)+cls, fmt.Sprintf("%s: primary key %v, SQLite %v", stmt, got.PK, want.PK), art)
		}
	} else if want.Alias == "" && got.Alias == "" {
		if got.PKIndex != want.PKIndex {
			r.Violation("C10:pk-index"+cls, fmt.Sprintf("%s: primary key backed by %q, SQLite %q", stmt, got.PKIndex, want.PKIndex), art)
		}
	}
	// every reported index must match SQLite's index of that name
	var names []string
	for n := range got.Indexes {
		names = append(names, n)
	}
	sort.Strings(names)
	for _, n := range names {
		gi := got.Indexes[n]
		wi, ok := want.Indexes[n]
		if !ok {
			r.Violation("C10:phantom-index:"+c10NameClass(n)+cls, fmt.Sprintf("%s: reports index %q which SQLite does not have (SQLite: %v)", stmt, n, keysOf(want.Indexes)), art)
			continue
		}
		if strings.Join(gi.Cols, ",") != strings.Join(wi.Cols, ",") {
			r.Violation("C10:index-columns:"+c10NameClass(n)+":"+c10ColDiff(gi.Cols, wi.Cols)+cls, fmt.Sprintf("%s: index %q reported as %v, SQLite %v", stmt, n, gi.Cols, wi.Cols), art)
		}
	}
	// every automatic index must be reported
	for n := range want.Indexes {
		if strings.HasPrefix(n, "sqlite_autoindex_") {
			if _, ok := got.Indexes[n]; !ok {
				r.Violation("C10:autoindex-missing"+cls, fmt.Sprintf("%s: automatic index %q not reported (reported: %v)", stmt, n, keysOf(got.Indexes)), art)
			}
		}
	}
	// end to end: the probe row reads back the same
	wantRows, err := l.Query("SELECT * FROM " + QI(c.tname()))
	if err == nil {
		gotRows, gerr := SelectAll(h, c.tname(), want.Cols...)
		r.Trans(1)
		if gerr != nil || !RowsEq(gotRows, wantRows, true) {
			r.Violation("C10:probe-row:"+c10AliasClass(stmt)+cls, fmt.Sprintf("%s: the row (70, 71, ..) reads back as %v (err=%v), SQLite %v", stmt, RowsS(gotRows), gerr, RowsS(wantRows)), art)
		} else {
			// ... and through every index the schema lists (the key columns SQLite appends - rowid, primary key
			// columns - decide how the table row is found): partial indexes may leave the probe row out
			for n, gi := range got.Indexes {
				wi, ok := want.Indexes[n]
				if !ok || strings.Join(gi.Cols, ",") != strings.Join(wi.Cols, ",") {
					continue // reported above
				}
				var viaIdx [][]interface{}
				var ierr error
				if p := Safely(func() { viaIdx, ierr = IndexedAll(h, c.tname(), n, want.Cols...) }); p != nil {
					r.Violation("C10:probe-index:panic"+cls, fmt.Sprintf("%s: IndexedSelect through %q panics: %v", stmt, n, p), art)
					continue
				}
				r.Trans(1)
				if ierr != nil || (len(viaIdx) > 0 && !RowsEq(viaIdx, wantRows, true)) || (len(viaIdx) == 0 && !strings.Contains(strings.ToUpper(stmt), " WHERE ")) {
					r.Violation("C10:probe-index:"+c10NameClass(n)+cls, fmt.Sprintf("%s: the probe row through index %q: %v (err=%v), SQLite %v", stmt, n, RowsS(viaIdx), ierr, RowsS(wantRows)), art)
				}
			}
		}
	}
}

func keysOf(m map[string]c10Index) []string {
	var k []string
	for n := range m {
		k = append(k, n)
	}
	sort.Strings(k)
	return k
}

func c10NameClass(n string) string {
	if strings.HasPrefix(n, "sqlite_autoindex_") {
		return "auto"
	}
	return "explicit"
}

func c10ColDiff(got, want []string) string {
	if len(got) != len(want) {
		return "count"
	}
	var d []string
	seen := map[string]bool{}
	for i := range got {
		g, w := strings.Split(got[i], "|"), strings.Split(want[i], "|")
		for k, what := range []string{"column", "collation", "direction"} {
			if g[k] != w[k] && !seen[what] {
				seen[what] = true
				d = append(d, what)
			}
		}
	}
	return strings.Join(d, "+")
}

func c10PKClass(got, want []string) string {
	if len(got) != len(want) {
		return "count"
	}
	return c10ColDiff(got, want)
}

func c10AliasClass(stmt string) string {
	u := strings.ToUpper(stmt)
	switch {
	case strings.Contains(u, "INTEGER(5)"):
		return "integer(n)"
	case strings.Contains(u, "PRIMARY KEY DESC"):
		return "column-desc"
	case strings.Contains(u, "PRIMARY KEY ("):
		return "table-constraint"
	}
	return "column"
}
