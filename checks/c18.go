package checks

// C18 — Row.Scan conversions are total, documented, and yield independent
// copies. Kind S (value grid x destination types x argument counts) + kind H
// (histories scan -> mutate / close / overwrite -> re-read, breadth first).

import (
	"bytes"
	"fmt"
	"math"
	"os"
	"path/filepath"
	"reflect"
	"strconv"
	"strings"
	"time"

	"verif/internal/ev"

	"github.com/alicebob/sqlittle"
)

func init() { Registry["C18"] = Check{Level: "model_checking", Fn: runC18} }

func c18Grid() []interface{} {
	g := []interface{}{nil}
	for _, i := range []int64{0, 1, -1, 2, 127, -128, 1 << 31, 1<<31 - 1, -(1 << 31), -(1 << 31) - 1, 1 << 32, 1 << 53, math.MaxInt64, math.MinInt64, 1136214245} {
		g = append(g, i)
	}
	for _, f := range []float64{0, math.Copysign(0, -1), 0.5, -0.5, 1, 1.9, -1.9, 3.0, 1e10, 1e300, -1e300, math.Inf(1), math.Inf(-1), math.MaxInt64, math.SmallestNonzeroFloat64, 2147483648.5, 9223372036854775808} {
		g = append(g, f)
	}
	for _, s := range []string{"", "0", "1", "-1", "+1", "12", " 12", "12 ", "012", "1.5", "1.", ".5", "1e3", "1E3", "1e", "0x10", "123test", "test", "true", "false", "NaN", "Inf", "-inf", "1_000",
		"9223372036854775807", "9223372036854775808", "-9223372036854775808", "-9223372036854775809", "1e400", "99999999999999999999",
		"2006-01-02 15:04:05", "2006-01-02 15:04:05.000", "2006-01-02 15:04:05.123", "2006-01-02T15:04:05", "2006-01-02", "2006-13-02 15:04:05", "2006-01-02 15:04:05.12", "é", "a\x00b",
		// text that is not well-formed UTF-8 is stored and returned byte for byte
		"a\xffb", "\xc3", "caf\xe9", "\xed\xa0\x80", "12\xff", "\xff\xfe"} {
		g = append(g, s)
	}
	for _, b := range [][]byte{{}, {0}, []byte("12"), []byte("1.5"), []byte("x"), []byte("2006-01-02 15:04:05"), bytes.Repeat([]byte{0xab}, 5000), []byte("-7")} {
		g = append(g, b)
	}
	// numbers written with many characters (leading zeros, many decimals, zeros in the exponent, many digits),
	// as text and as blob, in every length class around the widths of a formatted int64 / float64
	for _, n := range []int{17, 22, 23, 24, 25, 26, 40, 400} {
		z := strings.Repeat("0", n)
		for _, s := range []string{z + "12", "+" + z + "7", "-" + z + "7", "3." + strings.Repeat("1", n), "0." + z + "5", "1" + z, "1e" + z + "3", z + ".5e1", z + "x"} {
			g = append(g, s, []byte(s))
		}
	}
	return g
}

// ---- the reference model of the documented conversions

func refString(v interface{}) string {
	switch t := v.(type) {
	case nil:
		return ""
	case int64:
		return strconv.FormatInt(t, 10)
	case float64:
		return strconv.FormatFloat(t, 'g', -1, 64)
	case string:
		return t
	case []byte:
		return string(t)
	}
	panic("refString")
}

func refStrictInt(s string) (int64, bool) {
	if v, err := strconv.ParseInt(s, 10, 64); err == nil {
		return v, true
	}
	f, err := strconv.ParseFloat(s, 64)
	if err != nil {
		return 0, false
	}
	return int64(f), true
}

func refInt64(v interface{}) (int64, bool) {
	switch t := v.(type) {
	case nil:
		return 0, true
	case int64:
		return t, true
	case float64:
		return int64(t), true
	case string:
		return refStrictInt(t)
	case []byte:
		return refStrictInt(string(t))
	}
	panic("refInt64")
}

func refFloat64(v interface{}) (float64, bool) {
	switch t := v.(type) {
	case nil:
		return 0, true
	case int64:
		return float64(t), true
	case float64:
		return t, true
	case string:
		f, err := strconv.ParseFloat(t, 64)
		return f, err == nil
	case []byte:
		f, err := strconv.ParseFloat(string(t), 64)
		return f, err == nil
	}
	panic("refFloat64")
}

func refTime(v interface{}) (time.Time, bool) {
	switch t := v.(type) {
	case nil:
		return time.Time{}, true
	case int64:
		return time.Unix(t, 0), true
	case float64:
		return time.Time{}, false
	case string:
		if tm, err := time.Parse("2006-01-02 15:04:05", t); err == nil {
			return tm, true
		}
		tm, err := time.Parse("2006-01-02 15:04:05.000", t)
		return tm, err == nil
	case []byte:
		return time.Time{}, false
	}
	panic("refTime")
}

type c18Dest struct {
	name string
	// scan v (the only column of a row) and report (result rendering, error?)
	scan func(row sqlittle.Row, col int) (string, error)
	ref  func(v interface{}, present bool) (string, bool) // rendering, ok
}

func feq(a, b float64) bool {
	return a == b || (math.IsNaN(a) && math.IsNaN(b))
}

func c18Dests() []c18Dest {
	args := func(col int, p interface{}) []interface{} {
		a := make([]interface{}, col+1)
		a[col] = p
		return a
	}
	return []c18Dest{
		{"string", func(r sqlittle.Row, c int) (string, error) {
			var x string = "sentinel"
			err := r.Scan(args(c, &x)...)
			return strconv.Quote(x), err
		}, func(v interface{}, p bool) (string, bool) {
			if !p {
				return strconv.Quote(""), true
			}
			return strconv.Quote(refString(v)), true
		}},
		{"[]byte", func(r sqlittle.Row, c int) (string, error) {
			x := []byte("sentinel")
			err := r.Scan(args(c, &x)...)
			return fmt.Sprintf("%v:%x", x == nil, x), err
		}, func(v interface{}, p bool) (string, bool) {
			if !p || v == nil {
				return "true:", true
			}
			if b, ok := v.([]byte); ok {
				return fmt.Sprintf("%v:%x", false, b), true
			}
			s := refString(v)
			return fmt.Sprintf("%v:%x", false, []byte(s)), true
		}},
		{"int64", func(r sqlittle.Row, c int) (string, error) {
			var x int64 = -99
			err := r.Scan(args(c, &x)...)
			return fmt.Sprint(x), err
		}, func(v interface{}, p bool) (string, bool) {
			if !p {
				return "0", true
			}
			n, ok := refInt64(v)
			return fmt.Sprint(n), ok
		}},
		{"int32", func(r sqlittle.Row, c int) (string, error) {
			var x int32 = -99
			err := r.Scan(args(c, &x)...)
			return fmt.Sprint(x), err
		}, func(v interface{}, p bool) (string, bool) {
			if !p {
				return "0", true
			}
			n, ok := refInt64(v)
			return fmt.Sprint(int32(n)), ok
		}},
		{"int", func(r sqlittle.Row, c int) (string, error) {
			var x int = -99
			err := r.Scan(args(c, &x)...)
			return fmt.Sprint(x), err
		}, func(v interface{}, p bool) (string, bool) {
			if !p {
				return "0", true
			}
			n, ok := refInt64(v)
			return fmt.Sprint(int(n)), ok
		}},
		{"bool", func(r sqlittle.Row, c int) (string, error) {
			var x bool
			err := r.Scan(args(c, &x)...)
			return fmt.Sprint(x), err
		}, func(v interface{}, p bool) (string, bool) {
			if !p {
				return "false", true
			}
			n, ok := refInt64(v)
			return fmt.Sprint(n != 0), ok
		}},
		{"float64", func(r sqlittle.Row, c int) (string, error) {
			var x float64 = -99
			err := r.Scan(args(c, &x)...)
			return strconv.FormatFloat(x, 'g', -1, 64), err
		}, func(v interface{}, p bool) (string, bool) {
			if !p {
				return "0", true
			}
			f, ok := refFloat64(v)
			return strconv.FormatFloat(f, 'g', -1, 64), ok
		}},
		{"time.Time", func(r sqlittle.Row, c int) (string, error) {
			x := time.Unix(1, 1)
			err := r.Scan(args(c, &x)...)
			return x.UTC().Format(time.RFC3339Nano), err
		}, func(v interface{}, p bool) (string, bool) {
			if !p {
				return time.Time{}.UTC().Format(time.RFC3339Nano), true
			}
			t, ok := refTime(v)
			return t.UTC().Format(time.RFC3339Nano), ok
		}},
	}
}

func cloneRow(r sqlittle.Row) sqlittle.Row {
	return sqlittle.Row(CopyRow(r))
}

func runC18(r *ev.Run) {
	r.Rule = "(S) every value of a 95-value grid (int64/float64 extremes, numeric-looking and malformed text, both time formats, empty and 5000-byte blobs) x every supported destination type at every column position 0..2 incl. positions past the row width, unsupported destinations, nil destinations, ScanString/ScanStringString/ScanStrings, argument counts 0..width+2: no panic, result and error-ness equal a reference model of the documented conversions, row unchanged; (S') every cell of every row that the read pipeline delivers from databases written by SQLite (all C01 scripts plus 220 tables with a column added by ALTER TABLE: 11 declared types x 20 DEFAULT literals, read from rows stored before) x every destination type: the cell is one of the five documented Go types, no panic, documented conversion; (H) every history of depth <=4 (5 thorough) over {scan blob/text row into []byte, into string, mutate every scanned slice, re-read on the same handle, re-read on a fresh handle, close, overwrite the file, verify scanned values} on a real file with inline and overflowed blobs: re-reads always equal the baseline and scanned values stay what they were. non-trivial = conversions between different classes / histories containing a mutation or close; every ordered pair of short text / blob values scanned one after the other into the same []byte variable: what the first Scan delivered does not change"
	defer c18Reuse(r)
	grid := c18Grid()
	dests := c18Dests()
	r.Set("grid_values", len(grid))
	for gi, v := range grid {
		for _, d := range dests {
			for col := 0; col < 3; col++ {
				// the value sits at column 1 of a 2-column row: col 0 is NULL, col 1 the value, col 2 is past the width
				row := sqlittle.Row{nil, v}
				before := cloneRow(row)
				var got string
				var err error
				art := map[string]interface{}{"value": VS(v), "dest": d.name, "column": col, "row_width": 2}
				r.Eval(1)
				r.Trans(1)
				if p := Safely(func() { got, err = d.scan(row, col) }); p != nil {
					r.Violation("C18:panic:"+d.name, fmt.Sprintf("Scan of %s into %s panics: %v", VS(v), d.name, p), art)
					continue
				}
				var val interface{}
				present := col < 2
				if col == 1 {
					val = v
				}
				want, ok := d.ref(val, present)
				cls := c11Class(val) + "->" + d.name
				r.Outcome(fmt.Sprintf("%s ok=%v", cls, ok))
				if col == 1 && val != nil {
					r.Nontrivial(fmt.Sprintf("%d/%s", gi, d.name))
				}
				if gi == 40 && d.name == "int64" && col == 1 {
					r.Sample(art)
				}
				if ok != (err == nil) {
					r.Violation("C18:errorness:"+cls, fmt.Sprintf("Scan of %s into %s: error=%v, documented: %s", VS(val), d.name, err, map[bool]string{true: "converts", false: "is an error"}[ok]), art)
					continue
				}
				if ok && got != want {
					r.Violation("C18:value:"+cls, fmt.Sprintf("Scan of %s into %s gives %s, documented conversion gives %s", VS(val), d.name, got, want), art)
				}
				if !reflect.DeepEqual(row, before) {
					r.Violation("C18:row-changed", fmt.Sprintf("Scan of %s into %s changed the row", VS(val), d.name), art)
				}
			}
		}
		// unsupported destinations, nil destinations, helpers, argument counts
		row := sqlittle.Row{v, v}
		for _, bad := range []interface{}{new(uint8), new(uint64), new(float32), 3, "x", new(interface{}), new(*string), []byte{}, struct{}{}} {
			var err error
			if p := Safely(func() { err = row.Scan(bad) }); p != nil {
				r.Violation("C18:panic:unsupported", fmt.Sprintf("Scan into unsupported %T panics: %v", bad, p), map[string]interface{}{"value": VS(v), "dest": fmt.Sprintf("%T", bad)})
			} else if err == nil {
				r.Violation("C18:unsupported-accepted", fmt.Sprintf("Scan into unsupported destination %T returns nil error", bad), map[string]interface{}{"value": VS(v), "dest": fmt.Sprintf("%T", bad)})
			}
			r.Eval(1)
		}
		for n := 0; n <= 4; n++ {
			args := make([]interface{}, n) // all nil: skipped
			var err error
			if p := Safely(func() { err = row.Scan(args...) }); p != nil || err != nil {
				r.Violation("C18:nil-dest", fmt.Sprintf("Scan with %d nil destinations on a 2 column row: panic=%v err=%v", n, p, err), map[string]interface{}{"value": VS(v), "args": n})
			}
			strs := make([]string, n)
			ptrs := make([]interface{}, n)
			for i := range strs {
				ptrs[i] = &strs[i]
			}
			if p := Safely(func() { err = row.Scan(ptrs...) }); p != nil || err != nil {
				r.Violation("C18:argcount", fmt.Sprintf("Scan with %d string destinations on a 2 column row: panic=%v err=%v", n, p, err), map[string]interface{}{"value": VS(v), "args": n})
			} else {
				for i := range strs {
					w := ""
					if i < 2 {
						w = refString(v)
					}
					if strs[i] != w {
						r.Violation("C18:argcount-value", fmt.Sprintf("Scan with %d string destinations: arg %d = %q want %q", n, i, strs[i], w), map[string]interface{}{"value": VS(v), "args": n})
					}
				}
			}
			r.Eval(2)
		}
		if p := Safely(func() {
			s, err := row.ScanString()
			s1, s2, err2 := row.ScanStringString()
			ss := row.ScanStrings()
			w := refString(v)
			if err != nil || err2 != nil || s != w || s1 != w || s2 != w || len(ss) != 2 || ss[0] != w || ss[1] != w {
				r.Violation("C18:scanstring", fmt.Sprintf("ScanString helpers on %s: %q %q %q %v (%v %v), want %q", VS(v), s, s1, s2, ss, err, err2, w), map[string]interface{}{"value": VS(v)})
			}
		}); p != nil {
			r.Violation("C18:panic:scanstring", fmt.Sprintf("ScanString helpers panic on %s: %v", VS(v), p), map[string]interface{}{"value": VS(v)})
		}
		r.Eval(1)
	}
	c18Stored(r)
	c18Histories(r)
}

// ---------------------------------------------------------------- histories

type c18Kept struct {
	b      *[]byte
	s      *string
	expect []byte // what it must equal now
}

type c18World struct {
	path     string
	orig     []byte
	h        *sqlittle.DB
	closed   bool
	over     bool
	kept     []c18Kept
	baseline [][]interface{}
}

func c18Read(h *sqlittle.DB) ([][]interface{}, error) { return SelectAll(h, "b", "id", "v", "t") }

var c18Alphabet = []string{"scan-bytes-0", "scan-bytes-2", "scan-string-1", "mutate", "reread", "fresh", "close", "overwrite", "verify"}

// apply one step; returns a violation description or ""
func (w *c18World) step(op string) (string, string) {
	scanRow := func(i int, asBytes bool) (string, string) {
		if w.closed {
			return "", ""
		}
		n := 0
		var fail string
		err := w.h.Select("b", func(r sqlittle.Row) {
			if n == i {
				if asBytes {
					var b, t []byte
					if err := r.Scan(nil, &b, &t); err != nil {
						fail = err.Error()
					}
					w.kept = append(w.kept, c18Kept{b: &b, expect: append([]byte{}, b...)}, c18Kept{b: &t, expect: append([]byte{}, t...)})
				} else {
					var s, t string
					if err := r.Scan(nil, &s, &t); err != nil {
						fail = err.Error()
					}
					w.kept = append(w.kept, c18Kept{s: &s, expect: []byte(s)}, c18Kept{s: &t, expect: []byte(t)})
				}
			}
			n++
		}, "id", "v", "t")
		if err != nil || fail != "" {
			return "C18:history:scan-error", fmt.Sprintf("scan row %d: %v %s", i, err, fail)
		}
		return "", ""
	}
	switch op {
	case "scan-bytes-0":
		return scanRow(0, true)
	case "scan-bytes-2":
		return scanRow(2, true)
	case "scan-string-1":
		return scanRow(1, false)
	case "mutate":
		for i := range w.kept {
			if w.kept[i].b != nil {
				b := *w.kept[i].b
				for j := range b {
					b[j] ^= 0x5a
				}
				w.kept[i].expect = append([]byte{}, b...)
			}
		}
	case "reread":
		if w.closed || w.over {
			return "", ""
		}
		got, err := c18Read(w.h)
		if err != nil || !RowsEq(got, w.baseline, false) {
			return "C18:history:reread-differs", fmt.Sprintf("re-read on the same handle: err=%v, %s", err, firstDiffSafe(got, w.baseline))
		}
	case "fresh":
		if w.over {
			return "", ""
		}
		h, err := sqlittle.Open(w.path)
		if err != nil {
			return "C18:history:fresh-open", err.Error()
		}
		defer h.Close()
		got, err := c18Read(h)
		if err != nil || !RowsEq(got, w.baseline, false) {
			return "C18:history:fresh-differs", fmt.Sprintf("re-read on a fresh handle: err=%v, %s", err, firstDiffSafe(got, w.baseline))
		}
	case "close":
		if !w.closed {
			w.h.Close()
			w.closed = true
		}
	case "overwrite":
		if !w.closed {
			return "", "" // only after close (the writer would need the lock otherwise)
		}
		z := bytes.Repeat([]byte{0xee}, len(w.orig))
		os.WriteFile(w.path, z, 0o644)
		w.over = true
	case "verify":
		for i, k := range w.kept {
			var cur []byte
			if k.b != nil {
				cur = *k.b
			} else {
				cur = []byte(*k.s)
			}
			if !bytes.Equal(cur, k.expect) {
				return "C18:history:scanned-value-changed", fmt.Sprintf("scanned value #%d changed behind the caller's back (%d bytes)", i, len(cur))
			}
		}
	}
	return "", ""
}

func firstDiffSafe(got, want [][]interface{}) string {
	if len(got) != len(want) {
		return fmt.Sprintf("%d rows, want %d", len(got), len(want))
	}
	return firstDiff(got, want)
}

func c18Histories(r *ev.Run) {
	dir := ev.TmpDir("c18")
	defer os.RemoveAll(dir)
	big := strings.Repeat("0123456789abcdef", 100)
	img1 := MustMakeDB(1024, `CREATE TABLE b (id INTEGER PRIMARY KEY, v BLOB, t TEXT);
INSERT INTO b VALUES (1, x'0102030405', 'small text');
INSERT INTO b VALUES (2, CAST('`+big+`' AS BLOB), '`+big+`');
INSERT INTO b VALUES (3, x'ffeeddccbbaa99', 'third');
INSERT INTO b VALUES (4, x'', '');`)
	// large page: blobs of several KB that still sit inside the (cached) page, and one that overflows
	mid := strings.Repeat("0123456789abcdef", 320)   // 5120 bytes, in-page at page size 16384
	huge := strings.Repeat("fedcba9876543210", 1500) // 24000 bytes, overflows
	img2 := MustMakeDB(16384, `CREATE TABLE b (id INTEGER PRIMARY KEY, v BLOB, t TEXT);
INSERT INTO b VALUES (1, CAST('`+mid+`' AS BLOB), 'in-page 5 KB blob');
INSERT INTO b VALUES (2, CAST('`+huge+`' AS BLOB), '`+mid+`');
INSERT INTO b VALUES (3, CAST('`+mid+`x' AS BLOB), 'third');
INSERT INTO b VALUES (4, x'', '');`)
	for ii, img := range [][]byte{img1, img2} {
		c18HistoriesOn(r, dir, ii, img)
	}
}

func c18HistoriesOn(r *ev.Run, dir string, imgNo int, img []byte) {
	depth := 4
	if r.Thorough() {
		depth = 5
	}
	r.Set("history_depth", depth)
	// enumerate all histories depth-first; every history replays from a fresh file (live handles do not copy)
	var hist [][]string
	var gen func(cur []string)
	gen = func(cur []string) {
		if len(cur) > 0 {
			hist = append(hist, append([]string{}, cur...))
		}
		if len(cur) == depth {
			return
		}
		for _, op := range c18Alphabet {
			gen(append(cur, op))
		}
	}
	gen(nil)
	ev.Parallel(len(hist), func(i int) {
		hs := hist[i]
		// prune histories that are not maximal-informative: must end with an observation
		last := hs[len(hs)-1]
		if last != "reread" && last != "fresh" && last != "verify" {
			return
		}
		path := filepath.Join(dir, fmt.Sprintf("h%d-%d.sqlite", imgNo, i))
		if err := os.WriteFile(path, img, 0o644); err != nil {
			r.Harness("history file: %v", err)
			return
		}
		defer os.Remove(path)
		h, err := sqlittle.Open(path)
		if err != nil {
			r.Harness("history open: %v", err)
			return
		}
		w := &c18World{path: path, orig: img, h: h}
		w.baseline, err = c18Read(h)
		if err != nil || len(w.baseline) != 4 {
			r.Harness("history baseline: %v", err)
			h.Close()
			return
		}
		r.Eval(1)
		r.State(fmt.Sprint(imgNo) + strings.Join(hs, ","))
		interesting := false
		for k, op := range hs {
			if op == "mutate" || op == "close" {
				interesting = true
			}
			r.Trans(1)
			var sig, what string
			if p := Safely(func() { sig, what = w.step(op) }); p != nil {
				sig, what = "C18:history:panic", fmt.Sprint(p)
			}
			if sig != "" {
				r.Violation(sig, fmt.Sprintf("history %v, step %d (%s) on image %d: %s", hs[:k+1], k, op, imgNo, what), map[string]interface{}{"history": hs[:k+1], "image": []string{"page size 1024, blobs of 5 and 1600 bytes", "page size 16384, in-page blobs of 5 KB, overflowing blob of 24 KB"}[imgNo]})
				break
			}
		}
		if interesting {
			r.NontrivialN(1)
		}
		if i == 777 {
			r.Sample(map[string]interface{}{"history": hs})
		}
		if !w.closed {
			h.Close()
		}
	})
}

// c18Reuse: one destination variable scanned into twice. What the first Scan delivered is an independent copy:
// it stays what it was when the variable is used for the next row. Every ordered pair of text / blob values of
// the grid x destinations []byte and string.
func c18Reuse(r *ev.Run) {
	var vals []interface{}
	for _, v := range c18Grid() {
		switch x := v.(type) {
		case string:
			if len(x) <= 64 {
				vals = append(vals, v)
			}
		case []byte:
			if len(x) <= 64 {
				vals = append(vals, v)
			}
		}
	}
	n := 0
	for _, v1 := range vals {
		for _, v2 := range vals {
			n++
			r.Eval(1)
			r.Trans(2)
			var b []byte
			if err := (sqlittle.Row{v1}).Scan(&b); err != nil {
				continue
			}
			kept := b
			want := string(kept)
			if err := (sqlittle.Row{v2}).Scan(&b); err != nil {
				continue
			}
			if string(kept) != want {
				r.Violation("C18:reused-destination:bytes", fmt.Sprintf("Scan(&b) of %s, then Scan(&b) of %s: the bytes the first Scan delivered changed from %q to %q", VS(v1), VS(v2), want, kept), map[string]interface{}{"first": VS(v1), "second": VS(v2)})
				return
			}
			// and the row the value came from is not written to through the destination
			row := sqlittle.Row{v1}
			var b2 []byte
			if err := row.Scan(&b2); err == nil && len(b2) > 0 {
				b2[0] ^= 0xff
				var b3 []byte
				row.Scan(&b3)
				if string(b3) != want {
					r.Violation("C18:reused-destination:row", fmt.Sprintf("writing to the []byte Scan delivered for %s changes the row", VS(v1)), nil)
					return
				}
			}
		}
	}
	r.Set("reused_destination_pairs", n)
}
