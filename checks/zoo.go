package checks

// The schema zoo: a systematic enumeration of table/index LAYOUTS (where the
// rowid alias sits, which columns form a WITHOUT ROWID primary key and in
// what order/direction, which columns a secondary index holds, columns named
// like the rowid keywords, collations, short rows), each written by real
// SQLite and read back through sqlittle's high level API. It complements the
// dbgen shape families (which vary the b-tree shape over a few fixed schemas)
// by varying the schema over a fixed, small content.

import (
	"encoding/binary"
	"fmt"
	"strings"

	"verif/internal/ev"
	"verif/internal/lite"
	"verif/internal/vpager"

	"github.com/alicebob/sqlittle"
)

type zooCase struct {
	name   string
	stmts  []string
	legacy bool // written with SQLite's legacy file format setting: schema format 1..3, in which DESC in an index definition is ignored
}

var zooColNames = [][]string{
	{"a", "b", "c", "d"},
	{"oid", "b", "rowid", "d"}, // ordinary columns named like the rowid keywords
}

// ordered subsets of {0..n-1} of size 1..k
func orderedSubsets(n, k int) [][]int {
	var out [][]int
	var rec func(cur []int)
	rec = func(cur []int) {
		if len(cur) > 0 {
			out = append(out, append([]int{}, cur...))
		}
		if len(cur) == k {
			return
		}
		for i := 0; i < n; i++ {
			used := false
			for _, c := range cur {
				if c == i {
					used = true
				}
			}
			if !used {
				rec(append(cur, i))
			}
		}
	}
	rec(nil)
	return out
}

func zooInserts(table string, ncols int, aliasPos int) []string {
	vals := []string{"1", "2", "'x'", "'X'", "'x '", "NULL", "2.5", "x'00ff'", "-7", "'y'", "10", "'10'", "'x'||char(9)", "'x'||char(10)", "'X  '"}
	var stmts []string
	for i := 0; i < 17; i++ {
		row := make([]string, ncols)
		for c := 0; c < ncols; c++ {
			if c == aliasPos {
				row[c] = fmt.Sprint(100 - i*7) // the rowid, descending insertion order
				continue
			}
			row[c] = vals[(i*(c+2)+c*5)%len(vals)]
		}
		stmts = append(stmts, "INSERT OR IGNORE INTO "+table+" VALUES ("+strings.Join(row, ", ")+")")
	}
	return stmts
}

func zooCases(thorough bool) []zooCase {
	var out []zooCase
	mods := []string{"", " DESC", " COLLATE NOCASE", " COLLATE BINARY", " COLLATE RTRIM DESC"}
	for ni, names := range zooColNames {
		// --- rowid tables: alias position none/0/1/2/3, one or two secondary indexes over ordered column subsets
		for alias := -1; alias < 4; alias++ {
			var cols []string
			for i, n := range names {
				d := n
				if i == alias {
					d += " INTEGER PRIMARY KEY"
				} else if i == 1 {
					d += " TEXT COLLATE NOCASE"
				}
				cols = append(cols, d)
			}
			create := "CREATE TABLE z (" + strings.Join(cols, ", ") + ")"
			subs := orderedSubsets(4, 2)
			var idx []string
			for si, sub := range subs {
				var parts []string
				for k, c := range sub {
					parts = append(parts, QI(names[c])+mods[(si+k)%len(mods)])
				}
				idx = append(idx, fmt.Sprintf("CREATE INDEX zi%d ON z (%s)", si, strings.Join(parts, ", ")))
			}
			// partial indexes: every single column (the rowid alias included), rows excluded by a condition on the next column
			for c := 0; c < 4; c++ {
				nc := (c + 1) % 4
				cond := QI(names[nc]) + " > 2" // NULL, 1, 2, -7 excluded (IS NOT NULL is not in sqlittle's grammar: such an index is not listed)
				if nc == alias {
					cond = QI(names[nc]) + " > 40"
				}
				idx = append(idx, fmt.Sprintf("CREATE INDEX zp%d ON z (%s%s) WHERE %s", c, QI(names[c]), mods[(c*2)%len(mods)], cond))
			}
			stmts := []string{create}
			stmts = append(stmts, idx...)
			stmts = append(stmts, zooInserts("z", 4, alias)...)
			// a column added afterwards: rows above are short
			late := 1
			if alias == 1 {
				late = 2
			}
			stmts = append(stmts, "ALTER TABLE z ADD COLUMN e DEFAULT 'dflt'", "INSERT INTO z ("+QI(names[late])+", e) VALUES ('late', 'given')")
			out = append(out, zooCase{name: fmt.Sprintf("rowid names=%d alias=%d", ni, alias), stmts: stmts})
		}
		if ni > 0 {
			continue // WITHOUT ROWID tables have no rowid keywords to shadow
		}
		// --- rowid tables whose primary key is NOT the rowid: column level and table level, ASC and DESC (an
		// INTEGER PRIMARY KEY DESC column is not an alias), with UNIQUE constraints next to it
		for pi, def := range []string{
			"CREATE TABLE z (a, b TEXT PRIMARY KEY DESC, c, d)",
			"CREATE TABLE z (a, b INTEGER PRIMARY KEY DESC, c, d)",
			"CREATE TABLE z (a, b TEXT COLLATE NOCASE PRIMARY KEY, c UNIQUE, d)",
			"CREATE TABLE z (a, b, c, d, PRIMARY KEY (b DESC))",
			"CREATE TABLE z (a, b TEXT COLLATE NOCASE, c, d, PRIMARY KEY (c, b DESC), UNIQUE (b COLLATE BINARY, a DESC))",
			"CREATE TABLE z (a INT PRIMARY KEY, b, c, d, UNIQUE (d DESC, c))",
			"CREATE TABLE z (a, b, c PRIMARY KEY DESC UNIQUE, d UNIQUE)",
			// the primary key shares the index of a UNIQUE constraint written before it
			"CREATE TABLE z (a, b TEXT UNIQUE, c, d, PRIMARY KEY (b), UNIQUE (c))",
			"CREATE TABLE z (a, b, c, d, UNIQUE (b, c), PRIMARY KEY (b, c), UNIQUE (d))",
			"CREATE TABLE z (a, b UNIQUE, c UNIQUE, d, PRIMARY KEY (c))",
		} {
			stmts := []string{def}
			for i := 0; i < 14; i++ {
				vals := []string{fmt.Sprint(i % 4), fmt.Sprintf("'k%d'", i), fmt.Sprint(20 - i), fmt.Sprintf("'d%d'", i)}
				if pi == 1 {
					vals[1] = fmt.Sprint(i * 3)
				}
				if pi == 5 {
					vals[0] = fmt.Sprint(i)
				}
				stmts = append(stmts, "INSERT OR IGNORE INTO z VALUES ("+strings.Join(vals, ", ")+")")
			}
			stmts = append(stmts, "ALTER TABLE z ADD COLUMN e DEFAULT 'dflt'")
			out = append(out, zooCase{name: fmt.Sprintf("rowid table with index-backed primary key #%d", pi), stmts: stmts})
		}
		// --- WITHOUT ROWID: every ordered subset of the 4 columns as primary key (size 1..3), DESC masks, secondary indexes over every ordered subset of size 1..2
		pks := orderedSubsets(4, 3)
		for pi, pk := range pks {
			if !thorough && len(pk) == 3 && pi%3 != 0 {
				continue
			}
			for dm := 0; dm < (1 << uint(len(pk))); dm++ {
				if !thorough && dm != 0 && dm != (1<<uint(len(pk)))-1 && dm != 1 {
					continue
				}
				var pkParts []string
				for k, c := range pk {
					p := names[c]
					if (k+pi)%2 == 1 {
						p = strings.ToUpper(p)
					}
					if dm&(1<<uint(k)) != 0 {
						p += " DESC"
					}
					pkParts = append(pkParts, p)
				}
				create := "CREATE TABLE z (a, b TEXT COLLATE NOCASE, c, d, PRIMARY KEY (" + strings.Join(pkParts, ", ") + ")) WITHOUT ROWID"
				stmts := []string{create}
				for si, sub := range orderedSubsets(4, 2) {
					var parts []string
					for k, c := range sub {
						// every other index spells the column in the other letter case (names are case insensitive; the
						// column's declared collation is inherited all the same)
						nm := names[c]
						if (si+k)%2 == 1 {
							nm = strings.ToUpper(nm)
						}
						parts = append(parts, nm+mods[(si+k+pi)%len(mods)])
					}
					stmts = append(stmts, fmt.Sprintf("CREATE INDEX zi%d ON z (%s)", si, strings.Join(parts, ", ")))
				}
				for c := 0; c < 4; c++ {
					stmts = append(stmts, fmt.Sprintf("CREATE INDEX zp%d ON z (%s%s) WHERE %s", c, names[c], mods[(c*2+pi)%len(mods)], []string{"b <> 'k1'", "c > 10", "d <> 'd2'", "a > 0"}[c]))
				}
				// an index that names a primary key column twice, the first time under another collation than the key's
				stmts = append(stmts, fmt.Sprintf("CREATE INDEX zd0 ON z (%s COLLATE NOCASE, %s)", names[pk[0]], names[pk[0]]),
					fmt.Sprintf("CREATE INDEX zd1 ON z (d, %s COLLATE RTRIM DESC, %s, c)", names[pk[len(pk)-1]], names[pk[len(pk)-1]]))
				// PK columns must be NOT NULL: use values without NULL for them
				for i := 0; i < 14; i++ {
					vals := []string{fmt.Sprint(i % 4), fmt.Sprintf("'k%d'", i%3), fmt.Sprint(20 - i), fmt.Sprintf("'d%d'", i%5)}
					stmts = append(stmts, "INSERT OR IGNORE INTO z VALUES ("+strings.Join(vals, ", ")+")")
				}
				out = append(out, zooCase{name: fmt.Sprintf("without-rowid pk=%v desc=%d", pk, dm), stmts: stmts})
			}
		}
	}
	// --- WITHOUT ROWID primary keys that repeat a column under another collation (stored twice), and that
	// share their index with a UNIQUE constraint of another sort order
	for pi, def := range []string{
		"CREATE TABLE z (a, b TEXT COLLATE NOCASE, c, d, PRIMARY KEY (b, b COLLATE BINARY)) WITHOUT ROWID",
		"CREATE TABLE z (a, b TEXT COLLATE NOCASE, c, d, PRIMARY KEY (a, b COLLATE RTRIM DESC, b)) WITHOUT ROWID",
		"CREATE TABLE z (a, b, c, d, UNIQUE (b), PRIMARY KEY (b DESC)) WITHOUT ROWID",
		"CREATE TABLE z (a, b, c, d, PRIMARY KEY (b DESC), UNIQUE (b)) WITHOUT ROWID",
		"CREATE TABLE z (a, b, c, d, UNIQUE (c DESC, b), PRIMARY KEY (c, b DESC)) WITHOUT ROWID",
		// a primary key on a column declared INTEGER is no rowid alias in a WITHOUT ROWID table (the key is stored first)
		"CREATE TABLE z (a, b, c INTEGER PRIMARY KEY, d) WITHOUT ROWID",
		"CREATE TABLE z (a, b, c INTEGER PRIMARY KEY DESC, d) WITHOUT ROWID",
		"CREATE TABLE z (a, b, c INTEGER, d, PRIMARY KEY (c)) WITHOUT ROWID",
		"CREATE TABLE z (a, b, c INTEGER, d, PRIMARY KEY (c DESC)) WITHOUT ROWID",
		"CREATE TABLE z (a INTEGER, b, c INTEGER, d, PRIMARY KEY (c, a)) WITHOUT ROWID",
		"CREATE TABLE z (a, b, c INTEGER UNIQUE, d INTEGER, PRIMARY KEY (d, c)) WITHOUT ROWID",
	} {
		stmts := []string{def, "CREATE INDEX zi0 ON z (d, a)", "CREATE INDEX zi1 ON z (a DESC)"}
		for i := 0; i < 14; i++ {
			vals := []string{fmt.Sprint(i % 4), fmt.Sprintf("'%s%d'", []string{"k", "K", "k "}[i%3], i), fmt.Sprint(20 - i), fmt.Sprintf("'d%d'", i%5)}
			stmts = append(stmts, "INSERT OR IGNORE INTO z VALUES ("+strings.Join(vals, ", ")+")")
		}
		// keys that differ from K1 only by what follows: RTRIM ignores trailing blanks, and nothing else
		for i, tail := range []string{"' '", "char(9)", "char(10)", "char(12)", "char(13)||char(10)", "'  '||char(9)", "char(0)"} {
			stmts = append(stmts, fmt.Sprintf("INSERT OR IGNORE INTO z VALUES (1, 'K1'||%s, %d, 'tail%d')", tail, 40+i, i))
		}
		out = append(out, zooCase{name: fmt.Sprintf("without-rowid repeated/shared primary key #%d", pi), stmts: stmts})
	}
	// --- key columns long enough to be cut by the local-payload limit (39..102 bytes of key at page size 512): the
	// first key column is complete on the page, a later one continues on overflow pages; several rows share the
	// leading column. Read through secondary indexes (every entry is looked up by its primary key).
	for pi, def := range []string{
		"CREATE TABLE z (a, b TEXT, c, d, PRIMARY KEY (a, b)) WITHOUT ROWID",
		"CREATE TABLE z (a, b TEXT, c, d, PRIMARY KEY (a, b DESC)) WITHOUT ROWID",
		"CREATE TABLE z (a, b TEXT COLLATE NOCASE, c, d, PRIMARY KEY (b, a)) WITHOUT ROWID",
		"CREATE TABLE z (a, b TEXT, c, d, PRIMARY KEY (a, c, b)) WITHOUT ROWID",
	} {
		stmts := []string{def, "CREATE INDEX zi0 ON z (d, a)", "CREATE INDEX zi1 ON z (c DESC)", "CREATE INDEX zi2 ON z (b, d)"}
		for i := 0; i < 18; i++ {
			stmts = append(stmts, fmt.Sprintf("INSERT OR IGNORE INTO z VALUES (%d, 'shared-prefix-of-a-long-key-%s'||%d, %d, 'd%d')", i%3, strings.Repeat("x", 20+(i%4)*25), i, 30-i, i%5))
		}
		out = append(out, zooCase{name: fmt.Sprintf("without-rowid long key columns #%d", pi), stmts: stmts})
	}
	// --- rows that all spill to overflow pages, one after the other, with a BLOB in them (what a reader keeps of row
	// k must not be what it builds row k+1 in)
	{
		stmts := []string{"CREATE TABLE z (a INTEGER PRIMARY KEY, b BLOB, c, d)", "CREATE INDEX zi0 ON z (c)"}
		for i := 0; i < 8; i++ {
			stmts = append(stmts, fmt.Sprintf("INSERT INTO z VALUES (%d, CAST(printf('%%0700d', %d) AS BLOB), %d, CAST(printf('%%0600d', %d) AS BLOB))", i+1, 1000+i, 50-i, 2000+i))
		}
		out = append(out, zooCase{name: "consecutive overflowing blob rows", stmts: stmts})
	}
	// --- wide tables: the record header's own length takes one byte up to 126 one-byte serial types and two from 127 on
	for _, n := range []int{126, 127, 134, 200} {
		cols := make([]string, n)
		for i := range cols {
			cols[i] = fmt.Sprintf("c%d", i)
		}
		stmts := []string{"CREATE TABLE z (" + strings.Join(cols, ", ") + ")", "CREATE INDEX zw ON z (c3, c0)"}
		for row := 0; row < 5; row++ {
			vals := make([]string, n)
			for i := range vals {
				switch v := (i*7 + row*3) % 11; {
				case v == 10:
					vals[i] = "NULL"
				case v == 9:
					vals[i] = fmt.Sprintf("'t%d'", i%10)
				default:
					vals[i] = fmt.Sprint(v) // 0 and 1 have no body bytes
				}
			}
			stmts = append(stmts, "INSERT INTO z VALUES ("+strings.Join(vals, ", ")+")")
		}
		out = append(out, zooCase{name: fmt.Sprintf("wide table, %d columns", n), stmts: stmts})
	}
	// --- a WITHOUT ROWID table with a DESC primary key and NO other index (as a legacy-format file the DESC is ignored)
	{
		stmts := []string{"CREATE TABLE z (a, b TEXT, c, d, PRIMARY KEY (b DESC, a)) WITHOUT ROWID"}
		for i := 0; i < 14; i++ {
			stmts = append(stmts, fmt.Sprintf("INSERT OR IGNORE INTO z VALUES (%d, 'k%d', %d, 'd%d')", i%4, i%5, 20-i, i%5))
		}
		out = append(out, zooCase{name: "without-rowid DESC primary key, no secondary index", stmts: stmts})
	}
	return out
}

// zooRun: which = C01 (table rows), C02 (index order), C03 (equality search)
func zooRun(r *ev.Run, which string) {
	cases := zooCases(r.Thorough())
	// every schema once more as a legacy-format database (the ALTER TABLE of the rowid cases makes it format 3;
	// WITHOUT ROWID cases get an ADD COLUMN appended for the same reason)
	for _, zc := range append([]zooCase{}, cases...) {
		lc := zooCase{name: zc.name + " (legacy file format)", stmts: append([]string{}, zc.stmts...), legacy: true}
		if strings.Contains(zc.stmts[0], "WITHOUT ROWID") {
			lc.stmts = append(lc.stmts, "ALTER TABLE z ADD COLUMN e DEFAULT 'dflt'")
		}
		cases = append(cases, lc)
	}
	r.Set("schema_zoo_cases", len(cases))
	ev.Parallel(len(cases), func(ci int) {
		zc := cases[ci]
		l, err := lite.OpenMem()
		if err != nil {
			r.Harness("lite: %v", err)
			return
		}
		defer l.Close()
		if zc.legacy {
			l.LegacyFormat(true)
		}
		l.MustExec("PRAGMA page_size=512")
		for _, st := range zc.stmts {
			if err := l.Exec(st); err != nil {
				r.Harness("zoo %s: %q: %v", zc.name, st, err)
				return
			}
		}
		img := l.Serialize()
		if zc.legacy && len(img) >= 48 {
			if f := binary.BigEndian.Uint32(img[44:48]); f < 2 || f > 3 {
				r.Outcome(fmt.Sprintf("legacy case with schema format %d skipped", f))
				return
			}
		}
		art := map[string]interface{}{"family": "schema-zoo", "case": zc.name, "create": zc.stmts[0]}
		r.Eval(1)
		r.Validated(1)
		r.StateBytes(img)
		r.Nontrivial(zc.name)
		if ci == 7 {
			r.Sample(map[string]interface{}{"family": "schema-zoo", "case": zc.name, "statements": clip(zc.stmts)})
		}
		imgs := [][]byte{img}
		arts := []map[string]interface{}{art}
		if zc.legacy && len(img) >= 48 && binary.BigEndian.Uint32(img[44:48]) == 3 {
			// the same file as schema format 2 (what SQLite < 3.40 leaves after an ADD COLUMN without a default):
			// SQLite ignores DESC for every format below 4, so the connection's answers stay the reference
			img2 := append([]byte{}, img...)
			binary.BigEndian.PutUint32(img2[44:48], 2)
			imgs = append(imgs, img2)
			arts = append(arts, map[string]interface{}{"family": "schema-zoo", "case": zc.name + " (header schema format set to 2)", "create": zc.stmts[0]})
			r.Eval(1)
			r.Validated(1)
			r.StateBytes(img2)
		}
		for i, img := range imgs {
			art := arts[i]
			switch which {
			case "C01", "C02":
				fwCompare(r, which, l, img, art)
			case "C03":
				zooEq(r, l, img, zc, art)
			case "C04":
				zooRowid(r, l, img, zc, art)
			case "C19":
				zooDriver(r, l, img, zc, art)
			}
		}
	})
}

// zooEq: for every index sqlittle lists and every stored value of its first
// column (and first two columns), IndexedSelectEq must return what SQLite
// returns for `+col COLLATE c IS ?` in index order.
func zooEq(r *ev.Run, l *lite.DB, img []byte, zc zooCase, art map[string]interface{}) {
	ts, err := LiteSchema(l)
	if err != nil || len(ts) == 0 {
		r.Harness("zoo schema: %v", err)
		return
	}
	t := &ts[0]
	h, d, _, err := vpager.OpenImage(img)
	if err != nil {
		r.Violation("C03:zoo-open", fmt.Sprintf("database written by SQLite refused: %v", err), art)
		return
	}
	d.RLock()
	sc, err := d.Schema(t.Name)
	d.RUnlock()
	if err != nil {
		r.Outcome("zoo-schema-rejected")
		return
	}
	sel := append([]string{}, t.Cols...)
	for ii := range t.Indexes {
		ix := &t.Indexes[ii]
		if t.WithoutRowid && ix.Origin == "pk" {
			// the primary key itself: PKSelect with every stored prefix of length 1..2
			var keyCols []LiteIndexCol
			for _, c := range ix.Cols {
				if c.Key {
					keyCols = append(keyCols, c)
				}
			}
			for plen := 1; plen <= len(keyCols) && plen <= 2; plen++ {
				var names, conds []string
				for i, c := range keyCols[:plen] {
					names = append(names, QI(c.Name))
					conds = append(conds, fmt.Sprintf("+%s COLLATE %s IS ?%d", QI(c.Name), c.Coll, i+1))
				}
				keys, err := l.Query("SELECT DISTINCT " + strings.Join(names, ", ") + " FROM " + QI(t.Name))
				if err != nil {
					return
				}
				for _, key := range keys {
					want, err := l.Query("SELECT "+colList(sel)+" FROM "+QI(t.Name)+" WHERE "+strings.Join(conds, " AND ")+" ORDER BY "+t.PKOrder(l), key...)
					if err != nil {
						r.Harness("zoo pk query: %v", err)
						return
					}
					var got [][]interface{}
					gerr := h.PKSelect(t.Name, sqlittle.Key(key), func(row sqlittle.Row) { got = append(got, CopyRow(row)) }, sel...)
					r.Eval(1)
					r.Trans(1)
					r.Validated(1)
					if gerr != nil || !RowsEq(got, want, true) {
						r.Violation("C03:zoo:PKSelect", fmt.Sprintf("%s: PKSelect(%s): err=%v got %v, SQLite %v", zc.name, RowS(key), gerr, clip(RowsS(got)), clip(RowsS(want))), map[string]interface{}{"case": zc.name, "create": zc.stmts[0], "key": RowS(key)})
						return
					}
				}
			}
			continue
		}
		if sc.NamedIndex(ix.Name) == nil {
			continue
		}
		pkBacked := !t.WithoutRowid && ix.Origin == "pk"
		var keyCols []LiteIndexCol
		for _, c := range ix.Cols {
			if c.Key {
				keyCols = append(keyCols, c)
			}
		}
		ob, ok := ix.OrderBy(nil)
		if !ok {
			continue
		}
		for plen := 1; plen <= len(keyCols) && plen <= 2; plen++ {
			var names []string
			for _, c := range keyCols[:plen] {
				names = append(names, QI(c.Name))
			}
			keys, err := l.Query("SELECT DISTINCT " + strings.Join(names, ", ") + " FROM " + QI(t.Name))
			if err != nil {
				r.Harness("zoo keys: %v", err)
				return
			}
			for _, key := range keys {
				var conds []string
				for i, c := range keyCols[:plen] {
					conds = append(conds, fmt.Sprintf("+%s COLLATE %s IS ?%d", QI(c.Name), c.Coll, i+1))
				}
				if ix.Partial {
					if ix.Where == "" {
						break
					}
					conds = append(conds, "("+ix.Where+")")
				}
				nix := " NOT INDEXED"
				if t.WithoutRowid {
					nix = ""
				}
				q := "SELECT " + colList(sel) + " FROM " + QI(t.Name) + nix + " WHERE " + strings.Join(conds, " AND ") + " ORDER BY " + ob
				want, err := l.Query(q, key...)
				if err != nil {
					r.Harness("zoo query %s: %v", q, err)
					return
				}
				var got [][]interface{}
				gerr := h.IndexedSelectEq(t.Name, ix.Name, sqlittle.Key(key), func(row sqlittle.Row) { got = append(got, CopyRow(row)) }, sel...)
				r.Eval(1)
				r.Trans(1)
				r.Validated(1)
				a2 := map[string]interface{}{"case": zc.name, "create": zc.stmts[0], "index": ix.SQL, "key": RowS(key)}
				if gerr != nil {
					r.Violation("C03:zoo:error", fmt.Sprintf("%s: IndexedSelectEq(%s, %s): %v", zc.name, ix.Name, RowS(key), gerr), a2)
					return
				}
				if !RowsEq(got, want, true) {
					r.Violation("C03:zoo:"+c01DiffClass(got, want), fmt.Sprintf("%s: IndexedSelectEq(%s [%s], %s): got %v, SQLite %v", zc.name, ix.Name, ix.SQL, RowS(key), clip(RowsS(got)), clip(RowsS(want))), a2)
					return
				}
				if pkBacked {
					// the same through PKSelect
					var got2 [][]interface{}
					gerr := h.PKSelect(t.Name, sqlittle.Key(key), func(row sqlittle.Row) { got2 = append(got2, CopyRow(row)) }, sel...)
					r.Trans(1)
					if gerr != nil || !RowsEq(got2, want, true) {
						r.Violation("C03:zoo:PKSelect", fmt.Sprintf("%s: PKSelect(%s) on a rowid table with an index-backed primary key: err=%v got %v, SQLite %v", zc.name, RowS(key), gerr, clip(RowsS(got2)), clip(RowsS(want))), a2)
						return
					}
				}
			}
		}
	}
}

// zooRowid: SelectRowid / PKSelect(alias) for every present rowid and its neighbours, vs SQLite
func zooRowid(r *ev.Run, l *lite.DB, img []byte, zc zooCase, art map[string]interface{}) {
	ts, err := LiteSchema(l)
	if err != nil || len(ts) == 0 || ts[0].WithoutRowid {
		return
	}
	t := &ts[0]
	kw := RowidKeyword(t.Cols)
	if kw == "" {
		return
	}
	h, _, _, err := vpager.OpenImage(img)
	if err != nil {
		r.Violation("C04:zoo-open", fmt.Sprintf("database written by SQLite refused: %v", err), art)
		return
	}
	ids, err := l.Query("SELECT " + kw + " FROM " + QI(t.Name))
	if err != nil {
		r.Harness("zoo rowids: %v", err)
		return
	}
	probe := map[int64]bool{0: true, -1: true}
	for _, row := range ids {
		id := row[0].(int64)
		probe[id], probe[id-1], probe[id+1] = true, true, true
	}
	for id := range probe {
		want, err := l.Query("SELECT "+colList(t.Cols)+" FROM "+QI(t.Name)+" WHERE "+kw+" = ?1", id)
		if err != nil {
			r.Harness("zoo rowid query: %v", err)
			return
		}
		row, gerr := h.SelectRowid(t.Name, id, t.Cols...)
		r.Eval(1)
		r.Trans(1)
		r.Validated(1)
		a2 := map[string]interface{}{"case": zc.name, "create": zc.stmts[0], "rowid": id}
		var got [][]interface{}
		if row != nil {
			got = append(got, CopyRow(row))
		}
		if gerr != nil || !RowsEq(got, want, true) {
			r.Violation("C04:zoo:SelectRowid", fmt.Sprintf("%s: SelectRowid(%d): err=%v got %v, SQLite %v", zc.name, id, gerr, RowsS(got), RowsS(want)), a2)
			return
		}
	}
}

// zooDriver: SELECT * and SELECT <each column> through the driver vs SQLite
func zooDriver(r *ev.Run, l *lite.DB, img []byte, zc zooCase, art map[string]interface{}) {
	ts, err := LiteSchema(l)
	if err != nil || len(ts) == 0 {
		return
	}
	t := &ts[0]
	h, _, _, err := vpager.OpenImage(img)
	if err != nil {
		r.Violation("C19:zoo-open", fmt.Sprintf("database written by SQLite refused: %v", err), art)
		return
	}
	lists := [][]string{{"*"}}
	for _, c := range t.Cols {
		lists = append(lists, []string{c}, []string{c, "*"})
	}
	for _, list := range lists {
		var sel []string
		for _, c := range list {
			if c == "*" {
				sel = append(sel, "*")
			} else {
				sel = append(sel, QI(c))
			}
		}
		want, err := l.Query("SELECT " + strings.Join(sel, ", ") + " FROM " + QI(t.Name) + " ORDER BY " + t.PKOrder(l))
		if err != nil {
			r.Harness("zoo driver oracle: %v", err)
			return
		}
		c := &collector{}
		// the driver's SELECT grammar takes bare or quoted identifiers
		derr := driverQuery(h, "SELECT "+strings.Join(list, ", ")+" FROM "+t.Name, c)
		r.Eval(1)
		r.Trans(1)
		r.Validated(1)
		a2 := map[string]interface{}{"case": zc.name, "create": zc.stmts[0], "columns": list}
		if derr != nil || !RowsEq(c.res.Rows, want, true) {
			r.Violation("C19:zoo:rows", fmt.Sprintf("%s: SELECT %s FROM z through the driver: err=%v, %s", zc.name, strings.Join(list, ", "), derr, firstDiffSafe(c.res.Rows, want)), a2)
			return
		}
	}
	// the rowid keywords and a name that is no column: SQLite decides whether that is a column of this
	// table (a WITHOUT ROWID table has no rowid; a column may carry one of the keywords as its name)
name:
	for _, n := range []string{"rowid", "oid", "_rowid_", "ROWID", "nosuch"} {
		for _, c := range t.Cols {
			if SameID(c, n) {
				continue name
			}
		}
		for _, list := range [][]string{{n}, {n, "*"}} {
			want, oerr := l.Query("SELECT " + strings.Join(list, ", ") + " FROM " + QI(t.Name) + " ORDER BY " + t.PKOrder(l))
			c := &collector{}
			derr := driverQuery(h, "SELECT "+strings.Join(list, ", ")+" FROM "+t.Name, c)
			r.Eval(1)
			r.Trans(1)
			r.Validated(1)
			a2 := map[string]interface{}{"case": zc.name, "create": zc.stmts[0], "columns": list}
			if oerr != nil {
				if derr == nil {
					r.Violation("C19:zoo:unknown-column", fmt.Sprintf("%s: SELECT %s FROM z: SQLite says %v, the driver reports no error and %d rows", zc.name, strings.Join(list, ", "), oerr, len(c.res.Rows)), a2)
					return
				}
				continue
			}
			if derr != nil || !RowsEq(c.res.Rows, want, true) {
				r.Violation("C19:zoo:rows", fmt.Sprintf("%s: SELECT %s FROM z through the driver: err=%v, %s", zc.name, strings.Join(list, ", "), derr, firstDiffSafe(c.res.Rows, want)), a2)
				return
			}
		}
	}
}
