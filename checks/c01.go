package checks

// C01 — Table scan returns exactly the table's rows, values and order.
// Kind S: every table b-tree shape within bounds x rowid sets x layouts x
// every column list; the page-size family; files written by real SQLite
// compared after every statement.

import (
	"fmt"
	"math"
	"strings"

	"verif/internal/dbgen"
	"verif/internal/ev"
	"verif/internal/lite"
	"verif/internal/vpager"

	"github.com/alicebob/sqlittle"
	sdb "github.com/alicebob/sqlittle/db"
)

func init() { Registry["C01"] = Check{Level: "model_checking", Fn: runC01} }

func runC01(r *ev.Run) {
	r.Rule = "(i) every T1 table b-tree shape (<=3 cells/leaf, <=3 children/interior, depth<=4, n<=bound) x 3 rowid sets x 2 physical layouts, and every T2 (WITHOUT ROWID) tree shape, x every ordered column list of length 0..3 over the columns, rowid/oid/_rowid_ and an unknown name; (ii) T1+T2 on every page size with inline, 2-page and multi-page payloads; (iii) SQLite-written files (inserts to depth>=3, deletes, updates, VACUUM, auto_vacuum, ALTER TABLE ADD COLUMN) compared with SQLite after every statement. non-trivial = image with a multi-level tree, spilled payload, short rows or non-sequential rowids"
	r.Set("bounds", fmt.Sprintf("%+v", allBounds(r)))
	maxList := 3
	t1names := []string{"a", "b", "c", "d", "e", "rowid", "OID", "_rowid_", "nosuch"}
	t2names := []string{"a", "b", "c", "d", "rowid", "nosuch"}
	t1lists := columnLists(t1names, maxList)
	t2lists := columnLists(t2names, maxList)

	for _, b := range allBounds(r) {
		forTableShapes(r, b, func(si *ShapeImage) {
			c01Image(r, si, "t1", t1lists)
		})
		forIndexShapes(r, b, func(si *ShapeImage) {
			if si.Object == "t2" {
				c01Image(r, si, "t2", t2lists)
			}
		})
	}

	// (ii) page size family
	bigs := []int{0, 1, 2}
	for _, ps := range PageSizes {
		for _, bm := range bigs {
			big := 0
			switch bm {
			case 1:
				big = ps + 100
			case 2:
				big = 3*ps + 17
			}
			spec := &dbgen.Spec{PageSize: ps, Tables: []dbgen.Table{T1(rowidSet(30, 2), big), T2(20, big)}}
			img, err := dbgen.Build(spec)
			if err != nil {
				r.Harness("dbgen Fp ps=%d: %v", ps, err)
				continue
			}
			if err := Conform(spec, img); err != nil {
				r.Harness("conformance Fp ps=%d big=%d: %v", ps, big, err)
				continue
			}
			r.Validated(1)
			r.StateBytes(img.Bytes)
			si := &ShapeImage{Spec: spec, Img: img, Desc: map[string]interface{}{"family": "pagesize", "page_size": ps, "big": big}}
			c01Image(r, si, "t1", columnLists(t1names, 1))
			c01Image(r, si, "t2", columnLists(t2names, 1))
		}
	}

	// (ii-a) brim-full leaves (see brim.go): several selects on one handle
	for _, ps := range []int{512, 1024, 4096} {
		si, err := brimImage(ps)
		if err != nil {
			r.Harness("brim image: %v", err)
			continue
		}
		if err := Conform(si.Spec, si.Img); err != nil {
			r.Harness("brim image conformance: %v", err)
			continue
		}
		r.Validated(1)
		r.StateBytes(si.Img.Bytes)
		c01Image(r, si, "t1", columnLists(t1names, 1))
	}

	// (ii-b) ordinary columns that are named like the rowid keywords: the declared column wins
	for _, ps := range []int{512, 4096} {
		t5 := dbgen.Table{Name: "t5", SQL: "CREATE TABLE t5 (oid TEXT, rowid INTEGER, label, c4)", NCols: 4, ColNames: []string{"oid", "rowid", "label", "c4"}, RowidAlias: -1, Defaults: make([]interface{}, 4)}
		t6 := dbgen.Table{Name: "t6", SQL: "CREATE TABLE t6 (_ROWID_, a INTEGER PRIMARY KEY, OID)", NCols: 3, ColNames: []string{"_ROWID_", "a", "OID"}, RowidAlias: 1, Defaults: make([]interface{}, 3)}
		for i := 0; i < 9; i++ {
			t5.Rows = append(t5.Rows, dbgen.Row{Rowid: int64(i*5 + 2), Vals: []interface{}{fmt.Sprintf("o%d", i), int64(1000 - i), mixVal(i), nil}})
			t6.Rows = append(t6.Rows, dbgen.Row{Rowid: int64(i*3 + 1), Vals: []interface{}{fmt.Sprintf("r%d", i), nil, int64(-i)}})
		}
		spec := &dbgen.Spec{PageSize: ps, Tables: []dbgen.Table{t5, t6}}
		img, err := dbgen.Build(spec)
		if err != nil {
			r.Harness("dbgen t5: %v", err)
			continue
		}
		if err := Conform(spec, img); err != nil {
			r.Harness("conformance t5/t6 ps=%d: %v", ps, err)
			continue
		}
		r.Validated(1)
		r.StateBytes(img.Bytes)
		si := &ShapeImage{Spec: spec, Img: img, Desc: map[string]interface{}{"family": "columns-named-like-rowid", "page_size": ps}}
		c01Image(r, si, "t5", columnLists([]string{"oid", "rowid", "label", "_rowid_", "OID", "RowID", "c4"}, 3))
		c01Image(r, si, "t6", columnLists([]string{"_rowid_", "a", "oid", "rowid", "_ROWID_", "Oid"}, 3))
	}

	// (iii) SQLite-written files
	fwRun(r, "C01")
	// (iv) the schema zoo: layouts enumerated, content fixed
	zooRun(r, "C01")
	c01Defaults(r)
}

func c01Image(r *ev.Run, si *ShapeImage, table string, lists [][]string) {
	var t *dbgen.Table
	for i := range si.Spec.Tables {
		if si.Spec.Tables[i].Name == table {
			t = &si.Spec.Tables[i]
		}
	}
	rows := si.Img.TableRows[table]
	h, d, _, err := vpager.OpenImage(si.Img.Bytes)
	if err != nil {
		r.Violation("C01:open", fmt.Sprintf("well-formed image refused at open: %v", err), si.Desc)
		return
	}
	nontrivial := si.Img.Depth[table] > 1 || si.Img.Spill[table] > 0
	if nontrivial {
		r.Nontrivial(fmt.Sprint(si.Desc))
	}
	r.Outcome(fmt.Sprintf("depth=%d spill=%v", si.Img.Depth[table], si.Img.Spill[table] > 0))
	if si.Img.Depth[table] == 3 {
		r.Sample(si.Desc)
	}
	for _, cols := range lists {
		r.Eval(1)
		r.Trans(1)
		want, ok := projectLogical(t, rows, cols)
		var got [][]interface{}
		var serr error
		calls := 0
		if p := Safely(func() {
			serr = h.Select(table, func(row sqlittle.Row) { calls++; got = append(got, CopyRow(row)) }, cols...)
		}); p != nil {
			r.Violation("C01:panic", fmt.Sprintf("Select(%s, %v) panics: %v", table, cols, p), withCols(si.Desc, cols))
			continue
		}
		if !ok {
			if serr == nil || calls > 0 {
				r.Violation("C01:unknown-column", fmt.Sprintf("Select(%s, %v) with an unknown column: err=%v, %d rows delivered", table, cols, serr, calls), withCols(si.Desc, cols))
			}
			continue
		}
		if serr != nil {
			r.Violation("C01:error:"+table, fmt.Sprintf("Select(%s, %v) on a well-formed image: %v", table, cols, serr), withCols(si.Desc, cols))
			continue
		}
		if !RowsEq(got, want, true) {
			r.Violation("C01:rows:"+table+":"+c01DiffClass(got, want), fmt.Sprintf("Select(%s, %v): got %v want %v", table, cols, clip(RowsS(got)), clip(RowsS(want))), withCols(si.Desc, cols))
		}
	}
	// the low level scan sees the stored records, in order
	if !t.WithoutRowid {
		var ids []int64
		d.RLock()
		tb, err := d.Table(table)
		if err == nil {
			err = tb.Scan(func(rowid int64, rec sdb.Record) bool { ids = append(ids, rowid); return false })
		}
		d.RUnlock()
		r.Trans(1)
		okIDs := err == nil && len(ids) == len(rows)
		for i := range ids {
			if okIDs && ids[i] != rows[i].Rowid {
				okIDs = false
			}
		}
		if !okIDs {
			r.Violation("C01:lowscan:"+table, fmt.Sprintf("Table.Scan rowids %v err=%v, want %d rows", ids, err, len(rows)), si.Desc)
		}
	}
}

func withCols(d map[string]interface{}, cols []string) map[string]interface{} {
	m := map[string]interface{}{"columns": cols}
	for k, v := range d {
		m[k] = v
	}
	return m
}

func c01DiffClass(got, want [][]interface{}) string {
	if len(got) < len(want) {
		return "missing"
	}
	if len(got) > len(want) {
		return "extra"
	}
	// same multiset?
	g, w := sortedRows(got), sortedRows(want)
	if strings.Join(g, "|") == strings.Join(w, "|") {
		return "order"
	}
	return "values"
}

// ---------------------------------------------------------------- Fw: files written by SQLite

type fwScript struct {
	Name  string
	Stmts []string
}

func fwScripts(thorough bool) []fwScript {
	bulk := func(n int) string {
		return fmt.Sprintf(`WITH RECURSIVE n(i) AS (SELECT 1 UNION ALL SELECT i+1 FROM n WHERE i<%d)
INSERT INTO t SELECT i*3, CASE i%%5 WHEN 0 THEN NULL WHEN 1 THEN 'name'||i WHEN 2 THEN i*1.25 WHEN 3 THEN i ELSE x'00ff'||i END, 'pad'||i||substr('%s',1,(i*37)%%90), i%%7 FROM n`, n, strings.Repeat("x", 90))
	}
	n := 600
	if thorough {
		n = 1500
	}
	s := []fwScript{
		{"rowid-lifecycle", []string{
			`CREATE TABLE t (id INTEGER PRIMARY KEY, v, pad TEXT, grp INT)`,
			`CREATE INDEX t_grp ON t (grp, v)`,
			`CREATE INDEX t_v_desc ON t (v DESC)`,
			bulk(n),
			`DELETE FROM t WHERE id % 2 = 0`,
			`UPDATE t SET pad = pad || pad || pad || pad || pad || pad || pad WHERE id % 9 = 0`,
			`INSERT INTO t VALUES (-5, 'neg', 'p', 1), (9223372036854775807, 'max', 'p', 2), (-9223372036854775808, 'min', 'p', 3)`,
			`DELETE FROM t WHERE id BETWEEN 100 AND 900`,
			`VACUUM`,
			`ALTER TABLE t ADD COLUMN extra DEFAULT 'dflt'`,
			`INSERT INTO t VALUES (5000, 1, 'p', 1, 'given')`,
			`UPDATE t SET extra = NULL WHERE id % 11 = 0`,
			`ALTER TABLE t ADD COLUMN extra2 DEFAULT 42`,
			`ALTER TABLE t ADD COLUMN extra3`,
			`DELETE FROM t`,
			`INSERT INTO t (id, v) VALUES (1, 'again')`,
		}},
		{"without-rowid", []string{
			`CREATE TABLE w (k1 TEXT COLLATE NOCASE, k2 INT, v, pad, PRIMARY KEY (k2 DESC, k1)) WITHOUT ROWID`,
			`CREATE INDEX w_v ON w (v)`,
			fmt.Sprintf(`WITH RECURSIVE n(i) AS (SELECT 1 UNION ALL SELECT i+1 FROM n WHERE i<%d)
INSERT INTO w SELECT 'key'||(i%%50), i/50, CASE i%%4 WHEN 0 THEN NULL WHEN 1 THEN i WHEN 2 THEN i+0.5 ELSE 'v'||i END, substr('%s',1,(i*13)%%120) FROM n`, n/2, strings.Repeat("y", 120)),
			`DELETE FROM w WHERE k2 % 3 = 1`,
			`UPDATE w SET pad = pad||pad||pad||pad||pad||pad||pad||pad WHERE k2 % 4 = 0`,
			`VACUUM`,
		}},
		{"auto-vacuum", []string{
			`PRAGMA auto_vacuum=FULL`,
			`CREATE TABLE t (id INTEGER PRIMARY KEY, v, pad TEXT, grp INT)`,
			`CREATE INDEX t_grp ON t (grp)`,
			bulk(n / 2),
			`DELETE FROM t WHERE id % 3 = 0`,
			`UPDATE t SET pad = pad||pad||pad||pad||pad||pad||pad||pad||pad||pad WHERE id % 7 = 0`,
			`DELETE FROM t WHERE id > 300`,
		}},
		{"incr-vacuum", []string{
			`PRAGMA auto_vacuum=INCREMENTAL`,
			`CREATE TABLE t (id INTEGER PRIMARY KEY, v, pad TEXT, grp INT)`,
			bulk(n / 2),
			`DELETE FROM t WHERE id % 2 = 0`,
			`PRAGMA incremental_vacuum(5)`,
			`PRAGMA incremental_vacuum`,
		}},
		{"index-zoo", []string{
			`CREATE TABLE z (id INTEGER PRIMARY KEY, a, b TEXT COLLATE NOCASE, c, u UNIQUE, pad)`,
			`CREATE INDEX z_a ON z (a)`,
			`CREATE INDEX z_ab ON z (a DESC, b)`,
			`CREATE INDEX z_b_rtrim ON z (b COLLATE RTRIM DESC, id)`,
			`CREATE UNIQUE INDEX z_uc ON z (c, a)`,
			`CREATE INDEX z_part ON z (a) WHERE c > 5`,
			`CREATE INDEX z_expr ON z (a + 1)`,
			`CREATE INDEX z_pad ON z (pad, a)`,
			`INSERT INTO z VALUES (1, 1, 'x', 1, 'u1', 'p'), (2, 1.0, 'X', 2, 'u2', 'p'), (3, NULL, 'x ', 3, NULL, 'p'), (4, 'txt', NULL, 4, NULL, 'p'), (5, x'00', 'y', 5, 'u5', 'p'), (6, 2, 'Y ', 6, 'u6', NULL), (7, -1, '', 7, 'u7', 'p')`,
			fmt.Sprintf(`WITH RECURSIVE n(i) AS (SELECT 10 UNION ALL SELECT i+1 FROM n WHERE i<%d)
INSERT INTO z SELECT i, i%%13, CASE i%%3 WHEN 0 THEN 'k'||(i%%5) WHEN 1 THEN 'K'||(i%%5) ELSE 'k'||(i%%5)||' ' END, i, 'u'||i, substr('%s',1,(i*53)%%700) FROM n`, 10+n/3, strings.Repeat("pad", 240)),
			`DELETE FROM z WHERE id % 4 = 0`,
			`UPDATE z SET a = a + 0.5 WHERE id % 5 = 0 AND typeof(a) = 'integer'`,
			`DROP INDEX z_a`,
			`CREATE INDEX z_expr2 ON z (a * 2)`,
			`VACUUM`,
		}},
		{"many-tables-multi-page-master", func() []string {
			var st []string
			for i := 0; i < 45; i++ {
				st = append(st, fmt.Sprintf("CREATE TABLE m%02d (id INTEGER PRIMARY KEY, v_%d TEXT, w)", i, i), fmt.Sprintf("CREATE INDEX m%02d_w ON m%02d (w, v_%d)", i, i, i),
					fmt.Sprintf("INSERT INTO m%02d VALUES (%d, 'row of m%02d', %d), (%d, 'second', NULL)", i, i+1, i, i*i, i+100))
			}
			st = append(st, "DROP TABLE m07", "DROP INDEX m20_w", "CREATE TABLE late (a, b)", "INSERT INTO late VALUES (1, 2)")
			return st
		}()},
		{"definitions-sqlittle-may-not-understand", []string{
			`CREATE TABLE ok1 (id INTEGER PRIMARY KEY, v)`,
			`INSERT INTO ok1 VALUES (1, 'fine')`,
			`CREATE TABLE gen (a, b AS (a + 1), c GENERATED ALWAYS AS (a * 2) STORED)`,
			`INSERT INTO gen (a) VALUES (1), (2)`,
			`CREATE TABLE strict1 (a INT, b TEXT) STRICT`,
			`INSERT INTO strict1 VALUES (1, 'x')`,
			`CREATE TABLE conf (a PRIMARY KEY ON CONFLICT REPLACE, b UNIQUE ON CONFLICT IGNORE)`,
			`INSERT INTO conf VALUES (1, 2)`,
			`CREATE TABLE dflt (a, b DEFAULT (1 + 2), c DEFAULT CURRENT_TIMESTAMP, d DEFAULT -1.5, e DEFAULT x'00', f DEFAULT TRUE)`,
			`INSERT INTO dflt (a) VALUES (1)`,
			`CREATE TABLE "weird name" ("col one", [col two], "select")`,
			`INSERT INTO "weird name" VALUES (1, 2, 3)`,
			`CREATE TABLE typed (a UNSIGNED BIG INT, b DOUBLE PRECISION, c VARYING CHARACTER(255), d DECIMAL(10,5))`,
			`INSERT INTO typed VALUES (1, 2.5, 'x', 3)`,
			`CREATE TABLE chk (a CHECK (a IS NOT NULL AND a BETWEEN 1 AND 10), b CHECK (b IN (1, 2, 3)), c CHECK (c LIKE 'x%'))`,
			`INSERT INTO chk VALUES (1, 2, 'xx')`,
			`CREATE VIEW vw AS SELECT * FROM ok1`,
			`CREATE TRIGGER trg AFTER INSERT ON ok1 BEGIN SELECT 1; END`,
			`CREATE TABLE ok2 (id INTEGER PRIMARY KEY, w)`,
			`INSERT INTO ok2 VALUES (5, 'also fine')`,
			`CREATE INDEX gen_b ON gen (b)`,
			`CREATE INDEX ok2_expr ON ok2 (w || 'x', id) WHERE w IS NOT NULL`,
		}},
		{"named-like-rowid", []string{
			`CREATE TABLE r (oid TEXT, rowid INTEGER, label)`,
			`INSERT INTO r VALUES ('a', 100, 'x'), ('b', 200, 'y'), ('c', NULL, 'z')`,
			`CREATE TABLE r2 (_rowid_ TEXT, id INTEGER PRIMARY KEY, v)`,
			`INSERT INTO r2 VALUES ('p', 7, 1), ('q', 9, 2)`,
		}},
		{"names-differing-in-non-ascii-case", []string{
			// SQLite folds ASCII letters only: these are five different tables, and é/É two different columns
			`CREATE TABLE é (x)`,
			`INSERT INTO é VALUES ('lower e acute')`,
			`CREATE TABLE É (y, z)`,
			`INSERT INTO É VALUES ('upper', 'E acute'), ('second', 'row')`,
			`CREATE TABLE k (v)`,
			"CREATE TABLE \u212a (v, w)",
			`INSERT INTO k VALUES ('latin k')`,
			"INSERT INTO \u212a VALUES ('kelvin', 1)",
			`CREATE TABLE cols (é, É, ſ, s, PRIMARY KEY (É, S))`,
			`INSERT INTO cols VALUES (1, 2, 3, 4), (5, 6, 7, 8)`,
			`CREATE INDEX cols_é ON cols (é)`,
			`CREATE INDEX cols_É ON cols (É DESC, ſ)`,
			`CREATE TABLE wr (é, É, v, PRIMARY KEY (É)) WITHOUT ROWID`,
			`INSERT INTO wr VALUES (1, 2, 'a'), (2, 1, 'b')`,
			`CREATE TABLE ty (a ıNTEGER PRIMARY KEY, b unıque)`,
			`INSERT INTO ty VALUES (9, 'nine'), (7, 'seven'), (7.5, 'real'), ('t', 'text')`,
		}},
		{"integer-widths", func() []string {
			// every integer storage width (1, 2, 3, 4, 6, 8 bytes) at its boundaries, and every value with the top
			// bit of one of its lower bytes set (sign extension of a part of the value), as values, as rowids and in an index
			seen := map[int64]bool{}
			var vals []int64
			add := func(v int64) {
				if !seen[v] {
					seen[v] = true
					vals = append(vals, v)
				}
			}
			for e := uint(0); e < 63; e++ {
				p := int64(1) << e
				for _, v := range []int64{p, p - 1, p + 1, -p, -p - 1, -p + 1} {
					add(v)
				}
				for k := uint(0); k*8+7 < e; k++ {
					add(p | int64(0x80)<<(8*k))
					add(-(p | int64(0x80)<<(8*k)))
					add(p | int64(0xff)<<(8*k))
				}
			}
			add(math.MaxInt64)
			add(math.MinInt64)
			st := []string{`CREATE TABLE iv (id INTEGER PRIMARY KEY, v, w INTEGER)`, `CREATE INDEX iv_v ON iv (v)`, `CREATE TABLE ir (id INTEGER PRIMARY KEY, n)`}
			for i := 0; i < len(vals); i += 40 {
				j := i + 40
				if j > len(vals) {
					j = len(vals)
				}
				var a, b []string
				for k, v := range vals[i:j] {
					a = append(a, fmt.Sprintf("(%d, %d, %d)", i+k+1, v, -v/3))
					b = append(b, fmt.Sprintf("(%d, %d)", v, i+k))
				}
				st = append(st, "INSERT INTO iv VALUES "+strings.Join(a, ", "), "INSERT INTO ir VALUES "+strings.Join(b, ", "))
			}
			return st
		}()},
		{"objects-sharing-a-name", []string{
			// triggers have a namespace of their own; a view / trigger / index may carry a name that is looked up as another kind
			`CREATE TABLE track (id INTEGER PRIMARY KEY, title, plays)`,
			`CREATE TRIGGER track_plays AFTER INSERT ON track BEGIN SELECT 1; END`,
			`CREATE TRIGGER track AFTER DELETE ON track BEGIN SELECT 1; END`,
			`CREATE INDEX track_plays ON track (plays DESC, title)`,
			`CREATE INDEX track_title ON track (title)`,
			`INSERT INTO track VALUES (1, 'a', 5), (2, 'b', 9), (3, 'c', 1), (4, 'd', 9), (5, 'e', NULL)`,
			`CREATE VIEW v_track AS SELECT * FROM track`,
			`CREATE TRIGGER track_title BEFORE UPDATE ON track BEGIN SELECT 2; END`,
			`CREATE TABLE w2 (k PRIMARY KEY, v) WITHOUT ROWID`,
			`CREATE TRIGGER w2 AFTER INSERT ON w2 BEGIN SELECT 3; END`,
			`INSERT INTO w2 VALUES ('x', 1), ('y', 2)`,
		}},
		{"generated-columns", []string{
			// virtual generated columns are not stored (the columns behind them move up), stored ones are; a reader that
			// does not know them must refuse the table, not shift values
			`CREATE TABLE g1 (a, b AS (5), c)`,
			`INSERT INTO g1 (a, c) VALUES (1, 'c1'), (2, 'c2')`,
			`CREATE TABLE g2 (a, b GENERATED ALWAYS AS (a + 1) STORED, c)`,
			`INSERT INTO g2 (a, c) VALUES (1, 'c1'), (2, 'c2')`,
			`CREATE TABLE g3 (a INTEGER PRIMARY KEY, b AS (7) VIRTUAL, c, d INT AS (-3))`,
			`INSERT INTO g3 (a, c) VALUES (1, 'c1'), (2, 'c2')`,
			`CREATE TABLE g5 (k PRIMARY KEY, b TEXT AS (9) VIRTUAL, c) WITHOUT ROWID`,
			`INSERT INTO g5 (k, c) VALUES ('x', 'c1'), ('y', 'c2')`,
			// the same next to every kind of table constraint (whatever looks at the definition as a whole must get to the columns)
			`CREATE TABLE gp (x PRIMARY KEY)`,
			`INSERT INTO gp VALUES (1), (2)`,
			`CREATE TABLE g6 (a, b AS (5), c, FOREIGN KEY (a) REFERENCES gp (x))`,
			`INSERT INTO g6 (a, c) VALUES (1, 'c1'), (2, 'c2')`,
			`CREATE TABLE g7 (a, b AS (5), c, CHECK (a > 0))`,
			`INSERT INTO g7 (a, c) VALUES (1, 'c1'), (2, 'c2')`,
			`CREATE TABLE g8 (a, b AS (5), c, UNIQUE (a))`,
			`INSERT INTO g8 (a, c) VALUES (1, 'c1'), (2, 'c2')`,
			`CREATE TABLE g9 (a, b AS (5), c, PRIMARY KEY (a))`,
			`INSERT INTO g9 (a, c) VALUES (1, 'c1'), (2, 'c2')`,
			`CREATE TABLE g10 (a, b AS (5), c, CONSTRAINT fk FOREIGN KEY (a) REFERENCES gp (x) ON DELETE CASCADE, UNIQUE (c))`,
			`INSERT INTO g10 (a, c) VALUES (1, 'c1'), (2, 'c2')`,
			`CREATE TABLE g11 (a REFERENCES gp (x), b AS (5), c)`,
			`INSERT INTO g11 (a, c) VALUES (1, 'c1'), (2, 'c2')`,
		}},
		{"permuted-unique-and-primary-key", []string{
			// a UNIQUE constraint over the key columns in ANOTHER order, before and after the PRIMARY KEY: it is an index of
			// its own, the table is stored in the PRIMARY KEY's order
			`CREATE TABLE tr1 (album, pos, title, UNIQUE (pos, album), PRIMARY KEY (album, pos)) WITHOUT ROWID`,
			`INSERT INTO tr1 VALUES ('amber', 7, 'seven'), ('amber', 2, 'two'), ('blue', 1, 'one'), (3, 'x', 'mixed')`,
			`CREATE TABLE tr2 (album, pos, title, PRIMARY KEY (album, pos), UNIQUE (pos, album)) WITHOUT ROWID`,
			`INSERT INTO tr2 VALUES ('amber', 7, 'seven'), ('amber', 2, 'two'), ('blue', 1, 'one'), (3, 'x', 'mixed')`,
			`CREATE TABLE tr3 (a, b, c, v, UNIQUE (c, a, b), UNIQUE (b, c, a), PRIMARY KEY (a, b, c)) WITHOUT ROWID`,
			`INSERT INTO tr3 VALUES (1, 'two', 3.5, 'v1'), ('one', 2, x'03', 'v2'), (1, 2, 3, 'v3')`,
			`CREATE TABLE tr4 (album, pos, title, UNIQUE (pos, album), PRIMARY KEY (album, pos))`,
			`INSERT INTO tr4 VALUES ('amber', 7, 'seven'), ('amber', 2, 'two'), ('blue', 1, 'one')`,
			`CREATE TABLE tr5 (album COLLATE NOCASE, pos, title, UNIQUE (pos, album COLLATE BINARY), PRIMARY KEY (album, pos)) WITHOUT ROWID`,
			`INSERT INTO tr5 VALUES ('amber', 7, 'seven'), ('AMBER', 2, 'two'), ('blue', 1, 'one')`,
		}},
		{"minimal-cells", func() []string {
			// records without a body (NULL, the constants 0 and 1, '' and x''): cells of 4 bytes, more cells per page than
			// any other content allows
			st := []string{`CREATE TABLE flags (v)`, `CREATE TABLE flags2 (v, w)`, `CREATE TABLE wflags (k INTEGER PRIMARY KEY, v) WITHOUT ROWID`}
			vals := []string{"NULL", "0", "1", "''", "x''"}
			for i := 0; i < 300; i++ {
				st = append(st, fmt.Sprintf("INSERT INTO flags VALUES (%s)", vals[i%5]), fmt.Sprintf("INSERT INTO flags2 VALUES (%s, %s)", vals[i%5], vals[(i/5)%5]), fmt.Sprintf("INSERT INTO wflags VALUES (%d, %s)", i, vals[i%5]))
			}
			st = append(st, `CREATE INDEX flags_v ON flags (v)`)
			return st
		}()},
		{"far-apart-rowids", []string{
			`CREATE TABLE ends (id INTEGER PRIMARY KEY, v)`,
			`INSERT INTO ends VALUES (-9223372036854775808, 'min'), (9223372036854775807, 'max')`,
			`CREATE TABLE minzero (id INTEGER PRIMARY KEY, v)`,
			`INSERT INTO minzero VALUES (-9223372036854775808, 'min'), (0, 'zero'), (1, 'one')`,
			`CREATE TABLE negmax (v)`,
			`INSERT INTO negmax (rowid, v) VALUES (-5, 'm5'), (-1, 'm1'), (9223372036854775807, 'max')`,
			`CREATE INDEX negmax_v ON negmax (v)`,
		}},
		{"empty-objects", []string{
			`CREATE TABLE e (a, b)`,
			`CREATE INDEX e_b ON e (b)`,
			`CREATE TABLE ew (k PRIMARY KEY, v) WITHOUT ROWID`,
			`CREATE TABLE emptied (id INTEGER PRIMARY KEY, v UNIQUE)`,
			`INSERT INTO emptied VALUES (1, 'x'), (2, 'y'), (3, 'z')`,
			`DELETE FROM emptied`,
			`CREATE TABLE one (a)`,
			`INSERT INTO one VALUES (NULL)`,
		}},
		{"alter-defaults", []string{
			`CREATE TABLE t (id INTEGER PRIMARY KEY, v)`,
			`INSERT INTO t VALUES (1, 'one'), (2, 'two')`,
			`ALTER TABLE t ADD COLUMN d_null`,
			`ALTER TABLE t ADD COLUMN d_int DEFAULT 7`,
			`ALTER TABLE t ADD COLUMN d_neg DEFAULT -3`,
			`ALTER TABLE t ADD COLUMN d_str DEFAULT 'str'`,
			`ALTER TABLE t ADD COLUMN d_txtint TEXT DEFAULT 1`,
			`ALTER TABLE t ADD COLUMN d_intstr INTEGER DEFAULT '2'`,
			`ALTER TABLE t ADD COLUMN d_realint REAL DEFAULT 3`,
			`ALTER TABLE t ADD COLUMN d_numstr NUMERIC DEFAULT '4.5'`,
			`ALTER TABLE t ADD COLUMN d_intbad INTEGER DEFAULT 'abc'`,
			`INSERT INTO t (id, v) VALUES (3, 'three')`,
			`UPDATE t SET d_int = 70 WHERE id = 1`,
		}},
		{"real-affinity-and-classes", []string{
			`CREATE TABLE t (id INTEGER PRIMARY KEY, r REAL, n NUMERIC, i INTEGER, s TEXT, b BLOB, x)`,
			`INSERT INTO t VALUES (1, 2.0, 2.0, 2.0, 2.0, 2.0, 2.0)`,
			`INSERT INTO t VALUES (2, 2.5, '2.5', '3', 7, 7, 7)`,
			`INSERT INTO t VALUES (3, -0.0, 1e300, 9223372036854775807, '', x'', NULL)`,
			`INSERT INTO t VALUES (4, 9007199254740993, -9223372036854775808, 0, 'é', x'00', 0)`,
			`INSERT INTO t VALUES (5, 1, 1, 1, 1, 1, 1)`,
			`INSERT INTO t VALUES (6, 1e15, 32768, -32769, 8388608, -8388609, 140737488355328)`,
		}},
	}
	return s
}

var defaultTypes = []string{"", "INTEGER", "INT", "REAL", "NUMERIC", "TEXT", "BLOB", "VARCHAR(10)", "FLOAT", "BOOLEAN", "DATETIME"}
var defaultLiterals = []string{"7", "'7'", "-3", "'-3'", "2.5", "'2.5'", "'abc'", "x'00ff'", "NULL", "1e3", "'1e3'", "' 12 '", "9223372036854775807", "'9223372036854775808'", "TRUE", "false", "''", "0", "'0x10'", "+5", "'2006-01-02 15:04:05'", "abc", "'TRUE'",
	// numbers at the precision limits of a double and of an int64, bare and as text, and numeric text in its less usual spellings
	"'9007199254740993'", "9007199254740993", "'-4503599627370497'", "'4503599627370496'", "'9223372036854775807'", "'-9223372036854775808'", "-9223372036854775808", "'-9223372036854775809'",
	"'9007199254740993.0'", "9007199254740993.0", "'1e18'", "1e18", "'1e19'", "'0012'", "'+12'", "'1.0'", "'1.50'", "'.5'", "'5.'", "'1E-2'", "'Inf'", "'nan'", "'1_000'", "'12abc'", "' 1.5e1 '", "-0.0", "'-0.0'", "'-0'", "x''", "x'31'",
	// quotes inside the literal, bare numbers with leading zeros (decimal for SQLite)
	"'it''s'", "'it''s ''quoted'''", "''''", "'''a''b'''", "'a''''b'", "'\"'", "010", "-007", "+0012", "00"}

// c01Defaults: the DEFAULT of a column added by ALTER TABLE, for every declared type x literal form, read
// from a row stored before the ALTER, from a row stored after it, and from a row that stores NULL: the value SQLite reports (or the table is rejected). One table per
// pair, one signature per literal form.
func c01Defaults(r *ev.Run) {
	st := defaultsScript()
	l, err := lite.OpenMem()
	if err != nil {
		r.Harness("lite: %v", err)
		return
	}
	defer l.Close()
	for _, s := range st {
		if err := l.Exec(s); err != nil {
			r.Harness("defaults script %q: %v", s, err)
			return
		}
	}
	img := l.Serialize()
	r.Validated(1)
	r.StateBytes(img)
	h, _, _, err := vpager.OpenImage(img)
	if err != nil {
		r.Violation("C01:fw-open", fmt.Sprintf("database written by SQLite refused: %v", err), nil)
		return
	}
	n := 0
	for _, ty := range defaultTypes {
		for _, lit := range defaultLiterals {
			n++
			tn := fmt.Sprintf("d%d", n)
			art := map[string]interface{}{"family": "defaults", "table": tn, "definition": fmt.Sprintf("ALTER TABLE %s ADD COLUMN c %s DEFAULT %s", tn, ty, lit)}
			want, err := l.Query("SELECT id, c FROM " + tn + " ORDER BY id")
			if err != nil {
				r.Harness("defaults query: %v", err)
				continue
			}
			r.Eval(1)
			r.Trans(1)
			got, err := SelectAll(h, tn, "id", "c")
			if err != nil {
				r.Outcome("default-rejected:" + lit)
				continue
			}
			r.Nontrivial(tn)
			if !RowsEq(got, want, true) {
				r.Violation("C01:default:"+strings.ToUpper(lit), fmt.Sprintf("c %s DEFAULT %s, row stored before the column was added: got %v, SQLite %v", ty, lit, RowsS(got), RowsS(want)), art)
			}
		}
	}
}

// defaultsScript: one table per (declared type, DEFAULT literal), each with a row stored before the
// column was added (a DEFAULT sqlittle's grammar does not know only loses that table)
func defaultsScript() []string {
	var alter []string
	n := 0
	for _, ty := range defaultTypes {
		for _, lit := range defaultLiterals {
			n++
			alter = append(alter, fmt.Sprintf("CREATE TABLE d%d (id INTEGER PRIMARY KEY)", n), fmt.Sprintf("INSERT INTO d%d VALUES (1)", n),
				fmt.Sprintf("ALTER TABLE d%d ADD COLUMN c %s DEFAULT %s", n, ty, lit), fmt.Sprintf("INSERT INTO d%d (id) VALUES (2)", n),
				fmt.Sprintf("INSERT INTO d%d (id, c) VALUES (3, NULL)", n)) // a NULL that is stored is not a missing column
		}
	}
	return alter
}

// fwRun runs every script on every page size; after every statement the
// serialized database is read by sqlittle and compared with SQLite's dump.
// which = "C01" judges tables, "C02" judges indexes.
func fwRun(r *ev.Run, which string) {
	sizes := []int{512, 4096}
	if r.Thorough() {
		sizes = PageSizes
	}
	scripts := fwScripts(r.Thorough())
	type job struct {
		ps int
		sc fwScript
	}
	var jobs []job
	for _, ps := range sizes {
		for _, sc := range scripts {
			jobs = append(jobs, job{ps, sc})
		}
	}
	if !r.Thorough() {
		// the short scripts also with 64 KB pages (16-bit fields that store 65536 as 0)
		for _, sc := range scripts {
			if len(sc.Stmts) <= 14 {
				jobs = append(jobs, job{65536, sc})
			}
		}
	}
	ev.Parallel(len(jobs), func(i int) {
		j := jobs[i]
		l, err := lite.OpenMem()
		if err != nil {
			r.Harness("lite: %v", err)
			return
		}
		defer l.Close()
		l.MustExec(fmt.Sprintf("PRAGMA page_size=%d", j.ps))
		for k, st := range j.sc.Stmts {
			if err := l.Exec(st); err != nil {
				r.Harness("Fw %s stmt %d: %v", j.sc.Name, k, err)
				return
			}
			if len(j.sc.Stmts) > 60 && k%9 != 0 && k < len(j.sc.Stmts)-5 {
				continue // long scripts: compare after every 9th statement and after each of the last 5
			}
			img := l.Serialize()
			if len(img) == 0 {
				continue
			}
			art := map[string]interface{}{"family": "sqlite-written", "script": j.sc.Name, "page_size": j.ps, "after_statement": k, "statements": j.sc.Stmts[:k+1]}
			r.Eval(1)
			r.Validated(1)
			if r.StateBytes(img) {
				r.Nontrivial(fmt.Sprintf("%s/%d/%d", j.sc.Name, j.ps, k))
			}
			fwCompare(r, which, l, img, art)
		}
	})
}

func fwCompare(r *ev.Run, which string, l *lite.DB, img []byte, art map[string]interface{}) {
	want, err := LiteDump(l)
	if err != nil {
		r.Harness("Fw lite dump: %v", err)
		return
	}
	h, d, _, err := vpager.OpenImage(img)
	if err != nil {
		if len(want.Tables) == 0 {
			// a database without any table (schema format still 0): nothing to read
			r.Outcome("empty-db-refused")
			return
		}
		r.Violation(which+":fw-open", fmt.Sprintf("database written by SQLite refused: %v", err), art)
		return
	}
	var got *Dump
	if p := Safely(func() { got, err = LittleDump(h, d) }); p != nil {
		r.Violation(which+":fw-panic", fmt.Sprintf("reading a database written by SQLite panics: %v", p), art)
		return
	}
	r.Trans(1)
	if err != nil {
		r.Violation(which+":fw-error", fmt.Sprintf("reading a database written by SQLite fails: %v", err), art)
		return
	}
	if which == "C01" {
		// tables only
		for _, t := range got.Tables {
			t.Idx = map[string][][]interface{}{}
		}
		if diff := DumpDiff(got, want); diff != "" {
			r.Violation("C01:fw-rows", "differs from SQLite: "+diff, art)
		}
		if art["after_statement"] == 5 {
			r.Sample(art)
		}
	} else {
		if diff := DumpDiff(got, want); diff != "" && strings.Contains(diff, " index ") {
			r.Violation("C02:fw-index-rows", "differs from SQLite: "+diff, art)
		}
		ni := 0
		for _, t := range got.Tables {
			ni += len(t.Idx)
		}
		r.Outcome(fmt.Sprintf("indexes=%d", ni))
	}
}
