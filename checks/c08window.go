package checks

// C08, window family (kind E): the environment answers differently at one
// point of a read. A handle that has read before starts another read; at the
// k-th boundary of a pager call of that read (before the lock request, before
// the reserved probe, before every page read, before and after lock/unlock)
// another process commits a transaction. Every k is tried. A commit that is
// complete before the read lock is granted must be seen by that very read; a
// commit that was refused (the reader holds SHARED) must not; in between there
// is nothing: the result is the old state or the new state, never a mixture
// and never the handle's cached past.

import (
	"fmt"
	"os"
	"path/filepath"
	"strings"

	"verif/internal/ev"
	"verif/internal/lite"
	"verif/internal/vpager"

	"github.com/alicebob/sqlittle"
	sdb "github.com/alicebob/sqlittle/db"
)

type c08wResult struct {
	rows [][]interface{}
	err  error
}

func (a c08wResult) eq(b c08wResult) bool {
	if (a.err != nil) != (b.err != nil) {
		return false
	}
	if a.err != nil {
		return true // refused is refused
	}
	return RowsEq(a.rows, b.rows, false)
}

func (a c08wResult) String() string {
	if a.err != nil {
		return "error: " + a.err.Error()
	}
	s := fmt.Sprint(RowsS(a.rows))
	if len(s) > 300 {
		s = s[:300] + "..."
	}
	return fmt.Sprintf("%d rows %s", len(a.rows), s)
}

type c08wOp struct {
	name   string
	run    func(e *Env) c08wResult
	oracle string // SQL giving the same rows ("" = columns of t)
}

func c08wOps() []c08wOp {
	return []c08wOp{
		{"Select(t)", func(e *Env) c08wResult {
			rows, err := SelectAll(e.H, "t", "id", "v", "pad")
			return c08wResult{rows, err}
		}, "SELECT id, v, pad FROM t ORDER BY id"},
		{"IndexedSelectEq(t,t_v,'v3')", func(e *Env) c08wResult {
			var rows [][]interface{}
			err := e.H.IndexedSelectEq("t", "t_v", sqlittle.Key{"v3"}, func(r sqlittle.Row) { rows = append(rows, CopyRow(r)) }, "id", "v")
			return c08wResult{rows, err}
		}, "SELECT id, v FROM t WHERE v IS 'v3' ORDER BY id"},
		{"SelectRowid(t,6)", func(e *Env) c08wResult {
			row, err := e.H.SelectRowid("t", 6, "id", "v")
			if row == nil {
				return c08wResult{nil, err}
			}
			return c08wResult{[][]interface{}{CopyRow(row)}, err}
		}, "SELECT id, v FROM t WHERE id = 6"},
		{"PKSelect(w,'c')", func(e *Env) c08wResult {
			var rows [][]interface{}
			err := e.H.PKSelect("w", sqlittle.Key{"c"}, func(r sqlittle.Row) { rows = append(rows, CopyRow(r)) }, "k", "v")
			return c08wResult{rows, err}
		}, "SELECT k, v FROM w WHERE k = 'c'"},
		{"Columns(t)", func(e *Env) c08wResult {
			cols, err := e.H.Columns("t")
			row := make([]interface{}, len(cols))
			for i, c := range cols {
				row[i] = c
			}
			return c08wResult{[][]interface{}{row}, err}
		}, ""},
		{"RLock+Table(t).Scan", func(e *Env) c08wResult {
			if err := e.D.RLock(); err != nil {
				return c08wResult{nil, err}
			}
			defer e.D.RUnlock()
			tb, err := e.D.Table("t")
			if err != nil {
				return c08wResult{nil, err}
			}
			var rows [][]interface{}
			err = tb.Scan(func(rowid int64, rec sdb.Record) bool {
				c := CopyRec(rec)
				for len(c) < 3 {
					c = append(c, nil)
				}
				rows = append(rows, []interface{}{rowid, c[1], c[2]})
				return false
			})
			return c08wResult{rows, err}
		}, "SELECT id, v, pad FROM t ORDER BY id"},
	}
}

type c08wWriter struct {
	name, sql string
	refused   bool // after this transaction the file must be refused (e.g. it is in WAL mode)
}

// header changes that make the file unsupported: committed in the window they must be noticed by that very read (C15)
var c15wWriters = []c08wWriter{
	{"switch-to-WAL", "PRAGMA journal_mode=WAL; INSERT INTO t VALUES (200, 'wal', 'only in the wal')", true},
}

var c08wWriters = []c08wWriter{
	{"row-changes", "BEGIN; UPDATE t SET v = 'changed' WHERE id % 3 = 0; DELETE FROM t WHERE id = 7; INSERT INTO t VALUES (100, 'v3', 'new'); UPDATE w SET v = 33 WHERE k = 'c'; COMMIT", false},
	{"schema-change", "BEGIN; ALTER TABLE t ADD COLUMN extra DEFAULT 'd'; CREATE INDEX t_pad ON t (pad); UPDATE t SET v = 'v3' WHERE id = 2; COMMIT", false},
	{"delete+vacuum", "DELETE FROM t WHERE id > 12; VACUUM", false},
}

const c08wSetup = `PRAGMA page_size=512;
CREATE TABLE filler (x);
CREATE TABLE t (id INTEGER PRIMARY KEY, v, pad);
CREATE INDEX t_v ON t (v);
CREATE TABLE w (k TEXT PRIMARY KEY, v) WITHOUT ROWID;
WITH RECURSIVE n(i) AS (SELECT 1 UNION ALL SELECT i+1 FROM n WHERE i<40)
INSERT INTO t SELECT i, 'v'||(i%7), substr('pppppppppppppppppppppppppppppppppppppppppppppppppppppppppppppppppppppppp', 1, 10+i%60) FROM n;
INSERT INTO w VALUES ('a', 1), ('b', 2), ('c', 3);
WITH RECURSIVE n(i) AS (SELECT 1 UNION ALL SELECT i+1 FROM n WHERE i<30) INSERT INTO filler SELECT 'ffffffffffffffffffffffffffffffffffffffffffffffffffffffffffffffffffff'||i FROM n;
DROP TABLE filler;`

func c08wOracle(l *lite.DB, op c08wOp) c08wResult {
	if op.oracle == "" {
		rows, err := l.Query("SELECT name FROM pragma_table_info('t') ORDER BY cid")
		if err != nil {
			return c08wResult{nil, err}
		}
		row := make([]interface{}, len(rows))
		for i, r := range rows {
			row[i] = r[0]
		}
		return c08wResult{[][]interface{}{row}, nil}
	}
	rows, err := l.Query(op.oracle)
	return c08wResult{rows, err}
}

func c08Window(r *ev.Run) { windowFamily(r, "C08", c08wWriters) }

func windowFamily(r *ev.Run, prop string, writers []c08wWriter) {
	dir := ev.TmpDir("c08w")
	defer os.RemoveAll(dir)
	peer, err := StartPeer()
	if err != nil {
		r.Harness("peer: %v", err)
		return
	}
	defer peer.Stop()
	base := filepath.Join(dir, "base.sqlite")
	l, err := lite.Open(base, "")
	if err != nil {
		r.Harness(prop+" window base: %v", err)
		return
	}
	if err := l.Exec(c08wSetup); err != nil {
		r.Harness(prop+" window base: %v", err)
		l.Close()
		return
	}
	ops := c08wOps()
	before := make([]c08wResult, len(ops))
	for i, op := range ops {
		before[i] = c08wOracle(l, op)
	}
	l.Close()
	baseBytes, _ := os.ReadFile(base)
	r.StateBytes(baseBytes)
	n := 0
	windows := 0
	for wi, w := range writers {
		// the state after the writer's transaction, from SQLite itself
		ap := filepath.Join(dir, fmt.Sprintf("after%d.sqlite", wi))
		os.WriteFile(ap, baseBytes, 0o644)
		la, err := lite.Open(ap, "")
		if err != nil {
			r.Harness(prop+" window after: %v", err)
			return
		}
		if err := la.Exec(w.sql); err != nil {
			r.Harness(prop+" window writer %s: %v", w.name, err)
			la.Close()
			return
		}
		after := make([]c08wResult, len(ops))
		for i, op := range ops {
			after[i] = c08wOracle(la, op)
			if w.refused {
				after[i] = c08wResult{err: fmt.Errorf("the file must be refused now")}
			}
		}
		la.Close()
		for _, ext := range []string{"-wal", "-shm", "-journal"} {
			os.Remove(ap + ext)
		}
		r.Validated(1)
		for oi, op := range ops {
			for _, cold := range []bool{false, true} {
				// one run with trigger = 0 counts the boundaries of the second read
				events := -1
				for k := 0; events < 0 || k <= events; k++ {
					n++
					path := filepath.Join(dir, fmt.Sprintf("w%d.sqlite", n))
					os.WriteFile(path, baseBytes, 0o644)
					res := c08wRun(r, peer, path, w.sql, op, k, cold)
					os.Remove(path)
					os.Remove(path + "-journal")
					if res == nil {
						return
					}
					if k == 0 {
						events = res.events
						continue
					}
					windows++
					r.Eval(1)
					r.Trans(3)
					art := map[string]interface{}{"family": "commit-in-the-window", "writer": w.name, "writer_sql": w.sql, "read": op.name, "boundary": k, "of": events, "boundary_is": res.at, "commit": res.commit, "first_read_of_the_handle": map[bool]string{false: "the same operation", true: "PKSelect(w,'a') only: the pages of this read are not cached"}[cold], "setup": c08wSetup}
					if k == 2 && wi == 0 && oi == 0 {
						r.Sample(art)
					}
					if !cold && !res.warm.eq(before[oi]) {
						r.Violation(prop+":window:first-read", fmt.Sprintf("%s before any change: %s, SQLite %s", op.name, res.warm, before[oi]), art)
						continue
					}
					committed := res.commit == "ok"
					if committed {
						r.NontrivialN(1)
					}
					switch {
					case committed && !res.lockedBefore:
						// the commit was complete before this read asked for its lock
						if !res.second.eq(after[oi]) {
							sig := prop + ":window:stale-read"
							if res.second.eq(before[oi]) {
								sig = prop + ":window:stale-read:old-state"
							}
							r.Violation(sig, fmt.Sprintf("%s on a handle that has read before, %s commits at boundary %d of %d (%s; no lock held yet): the read returns %s, SQLite now has %s", op.name, w.name, k, events, res.at, res.second, after[oi]), art)
						}
					case committed:
						// a commit while the reader held its lock, or between two transactions of one call: old or new
						r.Outcome("commit-inside-the-call")
						if !res.second.eq(after[oi]) && !res.second.eq(before[oi]) {
							r.Violation(prop+":window:mixed-read", fmt.Sprintf("%s, %s commits at boundary %d of %d (%s): the read returns %s - neither the old state (%s) nor the new (%s)", op.name, w.name, k, events, res.at, res.second, before[oi], after[oi]), art)
						}
					default:
						if !res.second.eq(before[oi]) {
							r.Violation(prop+":window:refused-commit-seen", fmt.Sprintf("%s, %s at boundary %d of %d (%s) is refused (%s): the read returns %s, the file still holds %s", op.name, w.name, k, events, res.at, res.commit, res.second, before[oi]), art)
						}
					}
					want := before[oi]
					if committed {
						want = after[oi]
					}
					if !res.third.eq(want) {
						r.Violation(prop+":window:next-read", fmt.Sprintf("%s after %s (%s) at boundary %d of %d: the next read returns %s, SQLite has %s", op.name, w.name, res.commit, k, events, res.third, want), art)
					}
				}
			}
		}
	}
	r.Set("window_runs", windows)
}

type c08wRunResult struct {
	events       int
	at           string
	commit       string // ok | busy ... | err ...
	lockedBefore bool   // the read had asked for (or held, or given back) its lock when the writer came
	warm, second c08wResult
	third        c08wResult
}

// c08wRun: a handle on the real file pager reads once, reads again with the writer's transaction at the
// k-th boundary (k=0: none, count the boundaries), reads a third time.
func c08wRun(r *ev.Run, peer *Peer, path, wsql string, op c08wOp, k int, cold bool) *c08wRunResult {
	res := &c08wRunResult{}
	real, err := sdb.VerifFilePager(path)
	if err != nil {
		r.Harness("window family: file pager: %v", err)
		return nil
	}
	defer real.Close()
	armed := false
	count := 0
	lockSeen := false
	tp := &vpager.TracePager{P: real, On: func(pre bool, e vpager.Event) {
		if !armed {
			return
		}
		if !pre && e.Kind != "lock" && e.Kind != "unlock" {
			return
		}
		count++
		if count == k {
			when := "before "
			if !pre {
				when = "after "
			}
			res.at = when + e.Kind
			if e.Kind == "page" {
				res.at += fmt.Sprint(" ", e.Page)
			}
			res.lockedBefore = lockSeen
			peer.MustOK("open " + path)
			st, msg := peer.Do("exec " + strings.ReplaceAll(wsql, "\n", " "))
			res.commit = st
			if st != "ok" {
				res.commit = st + " " + msg
				peer.Do("exec ROLLBACK")
			}
			peer.MustOK("close")
		}
		if e.Kind == "lock" && !pre && e.Err == nil {
			lockSeen = true
		}
	}}
	d, err := sdb.VerifOpen(tp, path+"-journal")
	if err != nil {
		r.Harness("window family: open: %v", err)
		return nil
	}
	env := &Env{H: sqlittle.VerifWrap(d), D: d}
	if cold {
		// the handle has read before, but not the pages this read needs
		var rows [][]interface{}
		err := env.H.PKSelect("w", sqlittle.Key{"a"}, func(r sqlittle.Row) { rows = append(rows, CopyRow(r)) }, "k", "v")
		res.warm = c08wResult{rows, err}
	} else {
		res.warm = op.run(env)
	}
	armed = true
	res.second = op.run(env)
	armed = false
	res.events = count
	res.third = op.run(env)
	return res
}
