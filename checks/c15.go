package checks

// C15 — Unsupported or invalid database headers are refused, valid ones
// accepted. Kind E + H: every header byte x every value on a valid base image
// per page size; at Open and on the re-read path of a long-lived handle.

import (
	"encoding/binary"
	"fmt"
	"os"
	"strings"

	"github.com/alicebob/sqlittle"

	"verif/internal/ev"
	"verif/internal/lite"
	"verif/internal/vpager"
)

func init() { Registry["C15"] = Check{Level: "model_checking", Fn: runC15} }

const c15Script = `
CREATE TABLE t(a INTEGER PRIMARY KEY, b TEXT, c);
CREATE INDEX t_b ON t(b);
WITH RECURSIVE n(i) AS (SELECT 1 UNION ALL SELECT i+1 FROM n WHERE i<40)
INSERT INTO t SELECT i, 'name'||(i%7), i*1.5 FROM n;
CREATE TABLE w(k TEXT PRIMARY KEY, v) WITHOUT ROWID;
INSERT INTO w VALUES('x',1),('y',2),('z',3);
CREATE TABLE e(a, b);
CREATE INDEX e_b ON e(b);
CREATE TABLE emptied(a, b);
CREATE INDEX emptied_b ON emptied(b);
INSERT INTO emptied VALUES(1, 'x'),(2, 'y');
DELETE FROM emptied;
`

type hdrVerdict int

const (
	hvDontCare hdrVerdict = iota
	hvReject
	hvAccept
)

func (v hdrVerdict) String() string { return [...]string{"dontcare", "must-reject", "must-accept"}[v] }

// refHeaderVerdict is the reference predicate, written from the property text
// (and the file format document), not from the code.
func refHeaderVerdict(h []byte, basePageSize int) (hdrVerdict, string) {
	reject := ""
	if string(h[0:16]) != "SQLite format 3\x00" {
		reject = "magic"
	}
	ps := int(binary.BigEndian.Uint16(h[16:18]))
	if ps == 1 {
		ps = 65536
	}
	legal := ps >= 512 && ps <= 65536 && ps&(ps-1) == 0
	if !legal && reject == "" {
		reject = "pagesize"
	}
	if h[19] != 1 && reject == "" {
		if h[19] == 2 {
			reject = "wal"
		} else {
			reject = "readversion"
		}
	}
	if h[20] != 0 && reject == "" {
		reject = "reserved"
	}
	sf := binary.BigEndian.Uint32(h[44:48])
	if sf > 4 && reject == "" {
		reject = "schemaformat"
	}
	enc := binary.BigEndian.Uint32(h[56:60])
	if (enc == 2 || enc == 3) && reject == "" {
		reject = "utf16"
	}
	if reject != "" {
		return hvReject, reject
	}
	// the statement is silent about these: no verdict beyond "no crash"
	if legal && ps != basePageSize {
		return hvDontCare, "other-legal-pagesize"
	}
	if h[18] != 1 && h[18] != 2 {
		// write version >2: SQLite treats the file as read-only; silent
		return hvDontCare, "writeversion"
	}
	if h[21] != 64 || h[22] != 32 || h[23] != 32 {
		return hvDontCare, "fractions"
	}
	if sf == 0 || sf == 1 {
		return hvDontCare, "schemaformat01"
	}
	if enc != 1 {
		return hvDontCare, "encoding-unknown"
	}
	for _, b := range h[72:92] {
		if b != 0 {
			return hvDontCare, "reserved-expansion"
		}
	}
	return hvAccept, "ok"
}

// which field a header byte belongs to (for signatures)
func hdrField(off int) string {
	switch {
	case off < 16:
		return "magic"
	case off < 18:
		return "pagesize"
	case off == 18:
		return "writeversion"
	case off == 19:
		return "readversion"
	case off == 20:
		return "reservedspace"
	case off < 24:
		return "fractions"
	case off < 28:
		return "changecounter"
	case off < 32:
		return "dbsize"
	case off < 36:
		return "freelisttrunk"
	case off < 40:
		return "freelistcount"
	case off < 44:
		return "schemacookie"
	case off < 48:
		return "schemaformat"
	case off < 52:
		return "cachesize"
	case off < 56:
		return "largestroot"
	case off < 60:
		return "encoding"
	case off < 64:
		return "userversion"
	case off < 68:
		return "incrvacuum"
	case off < 72:
		return "appid"
	case off < 92:
		return "expansion"
	case off < 96:
		return "versionvalidfor"
	default:
		return "sqliteversion"
	}
}

func c15Ops() []Op {
	ops := StdOps(OpSpec{Table: "t", Cols: []string{"a", "b", "c"}, Index: "t_b",
		Key: keyOf("name3"), DbKey: dbKeyOf("name3"), DbKeyTo: dbKeyOf("name5"), PKKey: keyOf(int64(7)), Rowid: 7})
	ops = append(ops, StdOps(OpSpec{Table: "w", Cols: []string{"k", "v"}, WR: true, PKKey: keyOf("y")})...)
	// b-tree pages without a single cell (their content offset field is 0 = 65536 with 64 KB pages)
	ops = append(ops,
		highOp("Select(e)", false, func(e *Env, c *collector) error {
			return e.H.Select("e", func(r sqlittle.Row) { c.add(CopyRow(r)) }, "a", "b")
		}),
		highOp("IndexedSelect(e,e_b)", false, func(e *Env, c *collector) error {
			return e.H.IndexedSelect("e", "e_b", func(r sqlittle.Row) { c.add(CopyRow(r)) }, "a", "b")
		}),
		highOp("Select(emptied)", false, func(e *Env, c *collector) error {
			return e.H.Select("emptied", func(r sqlittle.Row) { c.add(CopyRow(r)) }, "a", "b")
		}),
		highOp("IndexedSelectEq(emptied,emptied_b)", false, func(e *Env, c *collector) error {
			return e.H.IndexedSelectEq("emptied", "emptied_b", sqlittle.Key{"x"}, func(r sqlittle.Row) { c.add(CopyRow(r)) }, "a", "b")
		}),
	)
	return ops
}

func runC15(r *ev.Run) {
	r.Rule = "every header byte 0..99 x every value 0..255 on a valid base image per page size, judged at Open (must-reject headers also with the read lock refused and with a writer reported in RESERVED while the file is opened) and on the re-read path of a long-lived handle (swap in, read with every operation, swap back, read again), and as the first transaction of a handle that was opened before the change; non-trivial = a mutation that changes the reference verdict (must-reject) or a must-accept mutation of a field; every ordered pair (p1, p2) of legal page sizes on real files: a handle (one that read, one that was only opened) on a 3-page database of page size p1, another connection rewrites the file with page size p2, the handle must read what SQLite reads; window family (as in C08): another process switches the file to WAL mode at every pager-call boundary of a read on a handle that has read before: a switch complete before the lock request must make that very read fail; schema format change under a handle: a legacy-format file rewritten as format 4 by a VACUUM of another connection, the handle's first call afterwards being each of IndexedSelectEq / IndexedSelect on a DESC index, PKSelect / Select on a DESC WITHOUT ROWID key, Select"
	sizes := []int{512, 4096, 65536}
	if r.Thorough() {
		sizes = PageSizes
	}
	r.Set("page_sizes", sizes)
	ops := c15Ops()
	for _, ps := range sizes {
		base := MustMakeDB(ps, c15Script)
		// conformance: the base is what SQLite says it is, and sqlittle reads it
		baseRes := c15Baseline(r, base, ops)
		if baseRes == nil {
			continue
		}
		r.StateBytes(base)
		// all (offset, value) pairs, in parallel over offsets
		ev.Parallel(100, func(off int) {
			for v := 0; v < 256; v++ {
				if int(base[off]) == v {
					continue
				}
				hdr := append([]byte{}, base[:100]...)
				hdr[off] = byte(v)
				c15One(r, ps, base, hdr, off, v, ops, baseRes)
			}
		})
	}
	c15RealFiles(r)
	c15PageSizePairs(r)
	c15FormatChange(r)
	windowFamily(r, "C15", c15wWriters)
}

func c15Baseline(r *ev.Run, base []byte, ops []Op) []OpResult {
	l, err := lite.Deserialize(base, true)
	if err != nil {
		r.Harness("C15 base image rejected by SQLite: %v", err)
		return nil
	}
	defer l.Close()
	want, err := LiteDump(l)
	if err != nil {
		r.Harness("C15 base dump: %v", err)
		return nil
	}
	h, d, _, err := vpager.OpenImage(base)
	if err != nil {
		r.Violation("C15:base-rejected", fmt.Sprintf("valid base image rejected at open: %v", err), nil)
		return nil
	}
	got, err := LittleDump(h, d)
	if err != nil {
		r.Violation("C15:base-unreadable", fmt.Sprintf("valid base image unreadable: %v", err), nil)
		return nil
	}
	if diff := DumpDiff(got, want); diff != "" {
		r.Violation("C15:base-differs", "valid base image read differently from SQLite: "+diff, nil)
		return nil
	}
	r.Validated(1)
	e := &Env{H: h, D: d}
	res := make([]OpResult, len(ops))
	for i, op := range ops {
		res[i] = op.Run(e, 0)
		if res[i].Err != nil {
			r.Harness("C15 baseline op %s fails: %v", op.Name, res[i].Err)
			return nil
		}
	}
	return res
}

func c15One(r *ev.Run, ps int, base, hdr []byte, off, v int, ops []Op, baseRes []OpResult) {
	verdict, why := refHeaderVerdict(hdr, ps)
	field := hdrField(off)
	art := map[string]interface{}{"page_size": ps, "offset": off, "value": v, "field": field, "verdict": verdict.String(), "why": why, "script": c15Script}
	r.Eval(1)
	if verdict != hvDontCare {
		r.NontrivialN(1)
	}
	r.Outcome(verdict.String() + ":" + why)
	if off == 19 && v == 2 || off == 16 && v == 3 {
		r.Sample(art)
	}

	// (1) at Open
	m0 := vpager.NewMem(base)
	m0.Hdr = hdr
	h, d, oerr := vpager.Open(m0)
	r.Trans(1)
	switch verdict {
	case hvReject:
		if oerr == nil {
			// opened: every operation must still error with zero rows? The
			// property says rejected "instead of being read": opening is the
			// rejection point.
			r.Violation("C15:open-accepts:"+why, fmt.Sprintf("Open accepts a header that must be refused (%s: byte %d=%d)", why, off, v), art)
		}
		// the same under the other answers the environment can give while the file is opened: the read lock
		// refused (a writer is committing), a writer reported in RESERVED
		for _, env := range []string{"lock-refused", "reserved"} {
			me := vpager.NewMem(base)
			me.Hdr = hdr
			me.Reserved = env == "reserved"
			fp := &vpager.FaultPager{P: me, FailLock: env == "lock-refused"}
			_, _, eerr := vpager.Open(fp)
			r.Trans(1)
			if eerr == nil {
				r.Violation("C15:open-accepts:"+env+":"+why, fmt.Sprintf("Open accepts a header that must be refused (%s: byte %d=%d) when the environment answers %s while the file is opened", why, off, v, env), art)
			}
		}
	case hvAccept:
		if oerr != nil {
			r.Violation("C15:open-rejects:"+field, fmt.Sprintf("Open refuses a valid header (%s byte %d=%d): %v", field, off, v, oerr), art)
		} else {
			e := &Env{H: h, D: d}
			for i, op := range ops {
				res := op.Run(e, 0)
				r.Trans(1)
				if res.Err != nil || !RowsEq(res.Rows, baseRes[i].Rows, false) {
					r.Violation("C15:accept-reads-differ:"+field, fmt.Sprintf("%s on valid header (%s byte %d=%d): err=%v rows=%d want %d", op.Name, field, off, v, res.Err, len(res.Rows), len(baseRes[i].Rows)), art)
					break
				}
			}
		}
	default:
		// no crash only
		if oerr == nil {
			e := &Env{H: h, D: d}
			for _, op := range ops {
				op := op
				if p := Safely(func() { op.Run(e, 0) }); p != nil {
					r.Violation("C15:panic:"+field, fmt.Sprintf("%s panics on header %s byte %d=%d: %v", op.Name, field, off, v, p), art)
					break
				}
			}
		}
	}

	// (2) re-read path: open on the valid image, read, swap in the mutated
	// header, every operation, swap back, read again
	m := vpager.NewMem(base)
	hh, dd, err := vpager.Open(m)
	if err != nil {
		return
	}
	e := &Env{H: hh, D: dd}
	ops[0].Run(e, 0) // warm: header, master and pages cached
	// a real commit always advances the change counter; so does the harness
	// (unless the counter itself is the mutated field)
	bump := func(h []byte, by uint32) []byte {
		o := append([]byte{}, h...)
		if off < 24 || off > 27 {
			binary.BigEndian.PutUint32(o[24:28], binary.BigEndian.Uint32(base[24:28])+by)
		}
		return o
	}
	m.Hdr = bump(hdr, 1)
	for i, op := range ops {
		if !op.High && verdict == hvDontCare {
			continue
		}
		var res OpResult
		op := op
		if p := Safely(func() { res = op.Run(e, 0) }); p != nil {
			r.Violation("C15:reread-panic:"+field, fmt.Sprintf("%s panics after header change %s byte %d=%d: %v", op.Name, field, off, v, p), art)
			break
		}
		r.Trans(1)
		switch verdict {
		case hvReject:
			if res.Err == nil || len(res.Rows) > 0 {
				r.Violation("C15:reread-accepts:"+why, fmt.Sprintf("%s on a long-lived handle after the header became invalid (%s: byte %d=%d): err=%v rows=%d", op.Name, why, off, v, res.Err, len(res.Rows)), art)
			}
		case hvAccept:
			if res.Err != nil || !RowsEq(res.Rows, baseRes[i].Rows, false) {
				r.Violation("C15:reread-differs:"+field, fmt.Sprintf("%s on a long-lived handle after a harmless header change (%s byte %d=%d): err=%v rows=%d want %d", op.Name, field, off, v, res.Err, len(res.Rows), len(baseRes[i].Rows)), art)
			}
		}
		if r.ViolationCount() > 200 {
			return
		}
	}
	// (3) the same for a handle that was opened on the valid image but has not run any transaction yet:
	// its FIRST read meets the changed header
	if verdict != hvDontCare {
		mi := vpager.NewMem(base)
		if hi, di, err := vpager.Open(mi); err == nil {
			ei := &Env{H: hi, D: di}
			mi.Hdr = bump(hdr, 1)
			for i, op := range ops {
				var res OpResult
				op := op
				if p := Safely(func() { res = op.Run(ei, 0) }); p != nil {
					r.Violation("C15:reread-panic:"+field, fmt.Sprintf("%s panics on an idle handle after header change %s byte %d=%d: %v", op.Name, field, off, v, p), art)
					break
				}
				r.Trans(1)
				if verdict == hvReject && (res.Err == nil || len(res.Rows) > 0) {
					r.Violation("C15:first-read-accepts:"+why, fmt.Sprintf("%s as the first transaction of a handle opened before the header became invalid (%s: byte %d=%d): err=%v rows=%d", op.Name, why, off, v, res.Err, len(res.Rows)), art)
					break
				}
				if verdict == hvAccept && (res.Err != nil || !RowsEq(res.Rows, baseRes[i].Rows, false)) {
					r.Violation("C15:first-read-differs:"+field, fmt.Sprintf("%s as the first transaction of a handle opened before a harmless header change (%s byte %d=%d): err=%v rows=%d want %d", op.Name, field, off, v, res.Err, len(res.Rows), len(baseRes[i].Rows)), art)
					break
				}
			}
		}
	}
	m.Hdr = bump(base[:100], 2)
	for i, op := range ops {
		res := op.Run(e, 0)
		r.Trans(1)
		if res.Err != nil || !RowsEq(res.Rows, baseRes[i].Rows, false) {
			r.Violation("C15:swapback-differs:"+field, fmt.Sprintf("%s after the valid header is back (%s byte %d=%d): err=%v rows=%d want %d", op.Name, field, off, v, res.Err, len(res.Rows), len(baseRes[i].Rows)), art)
			break
		}
	}
}

// c15RealFiles: databases written by SQLite itself that must be refused
// (WAL with unmerged content, UTF-16) or accepted (schema formats 2..4).
func c15RealFiles(r *ev.Run) {
	dir := ev.TmpDir("c15")
	defer os.RemoveAll(dir)
	type tc struct {
		name   string
		setup  string
		legacy bool
		reject bool
	}
	cases := []tc{
		{"wal", "PRAGMA journal_mode=WAL; CREATE TABLE t(a); INSERT INTO t VALUES(1),(2);", false, true},
		{"utf16le", "PRAGMA encoding='UTF-16le'; CREATE TABLE t(a); INSERT INTO t VALUES('x');", false, true},
		{"utf16be", "PRAGMA encoding='UTF-16be'; CREATE TABLE t(a); INSERT INTO t VALUES('x');", false, true},
		{"format4", "CREATE TABLE t(a); CREATE INDEX i ON t(a DESC); INSERT INTO t VALUES(1),(2);", false, false},
		{"legacy-format", "CREATE TABLE t(a); INSERT INTO t VALUES(1),(2);", true, false},
		// schema format 3 with a DESC primary key and no other index on the table: the DESC is not in effect
		// schema format 3 and a column-level INTEGER PRIMARY KEY DESC: no rowid alias in any format (the DESC that is
		// ignored is the one of indexes), the column has its own values and its own automatic index
		{"legacy-format-desc-column-key", "CREATE TABLE t(a); INSERT INTO t VALUES(1),(2); CREATE TABLE da (a INTEGER PRIMARY KEY DESC, v); INSERT INTO da VALUES (30, 'thirty'), (10, 'ten'), (20, 'twenty'); CREATE TABLE db (a INTEGER PRIMARY KEY ASC, v); INSERT INTO db VALUES (30, 'thirty'), (10, 'ten'); CREATE TABLE dc (v, a INTEGER, PRIMARY KEY (a DESC)); INSERT INTO dc VALUES ('thirty', 30), ('ten', 10); ALTER TABLE da ADD COLUMN lg DEFAULT 'x';", true, false},
		{"legacy-format-desc-key", "CREATE TABLE t(a); INSERT INTO t VALUES(1),(2); CREATE TABLE w (k TEXT, v, PRIMARY KEY (k DESC)) WITHOUT ROWID; INSERT INTO w VALUES ('a', 1), ('b', 2), ('c', 3), ('d', 4); ALTER TABLE w ADD COLUMN lg DEFAULT 'x';", true, false},
	}
	for _, c := range cases {
		p := dir + "/" + c.name + ".sqlite"
		l, err := lite.Open(p, "")
		if err != nil {
			r.Harness("C15 real file %s: %v", c.name, err)
			continue
		}
		if c.legacy {
			l.LegacyFormat(true)
		}
		if err := l.Exec(c.setup); err != nil {
			r.Harness("C15 real file %s: %v", c.name, err)
			l.Close()
			continue
		}
		// keep the connection open for WAL so the -wal is not checkpointed
		hdr := readHeader(p)
		var format uint32
		if len(hdr) >= 100 {
			format = binary.BigEndian.Uint32(hdr[44:48])
		}
		h, err2 := sqlittle.Open(p)
		r.Eval(1)
		r.Trans(1)
		r.Validated(1)
		r.NontrivialN(1)
		art := map[string]interface{}{"case": c.name, "setup": c.setup, "schema_format": format}
		r.Sample(art)
		if c.reject {
			if err2 == nil {
				rows, err3 := SelectAll(h, "t", "a")
				r.Violation("C15:realfile-accepted:"+c.name, fmt.Sprintf("a %s database written by SQLite is opened and read (rows=%d err=%v)", c.name, len(rows), err3), art)
			}
		} else {
			// format 1 (legacy) is don't-care; formats 2..4 must be read
			if format >= 2 && format <= 4 {
				if err2 != nil {
					r.Violation("C15:realfile-rejected:"+c.name, fmt.Sprintf("a schema-format-%d database written by SQLite is refused: %v", format, err2), art)
				} else {
					rows, err3 := SelectAll(h, "t", "a")
					if err3 != nil || len(rows) != 2 {
						r.Violation("C15:realfile-misread:"+c.name, fmt.Sprintf("schema-format-%d database: rows=%d err=%v", format, len(rows), err3), art)
					}
					if c.legacy {
						// everything in the file, as SQLite reads it
						want, werr := LiteDump(l)
						if e, eerr := OpenEnv(p); eerr == nil {
							got, gerr := LittleDump(e.H, e.D)
							e.H.Close()
							if werr != nil {
								r.Harness("C15 %s: oracle: %v", c.name, werr)
							} else if gerr != nil {
								r.Violation("C15:realfile-misread:"+c.name, fmt.Sprintf("schema-format-%d database: reading every table: %v", format, gerr), art)
							} else if got.String() != want.String() {
								r.Violation("C15:realfile-misread:"+c.name, fmt.Sprintf("schema-format-%d database reads differently from SQLite: %s", format, DumpDiff(got, want)), art)
							}
						}
					}
					if strings.Contains(c.setup, "TABLE w ") {
						for _, k := range []string{"a", "b", "c", "d"} {
							var got [][]interface{}
							err4 := h.PKSelect("w", sqlittle.Key{k}, func(rw sqlittle.Row) { got = append(got, CopyRow(rw)) }, "k", "v")
							r.Trans(1)
							if err4 != nil || len(got) != 1 {
								r.Violation("C15:realfile-misread:"+c.name, fmt.Sprintf("schema-format-%d database: PKSelect(w, %q): %d rows err=%v, SQLite finds the row", format, k, len(got), err4), art)
								break
							}
						}
					}
					if c.legacy && format == 3 {
						// the same file with schema format 2 in the header (SQLite before 3.40 leaves that after an ADD COLUMN
						// without a default; DESC is ignored for every format below 4): same content expected
						if raw, rerr := os.ReadFile(p); rerr == nil && len(raw) >= 100 {
							p2 := p + ".format2"
							binary.BigEndian.PutUint32(raw[44:48], 2)
							art2 := map[string]interface{}{"case": c.name + " (header schema format set to 2)", "setup": c.setup, "schema_format": 2}
							if werr2 := os.WriteFile(p2, raw, 0o644); werr2 != nil {
								r.Harness("C15 %s: %v", c.name, werr2)
							} else if e, eerr := OpenEnv(p2); eerr != nil {
								r.Violation("C15:realfile-rejected:"+c.name+":format2", fmt.Sprintf("a schema-format-2 database is refused: %v", eerr), art2)
							} else {
								r.Eval(1)
								r.Validated(1)
								want, werr := LiteDump(l)
								got, gerr := LittleDump(e.H, e.D)
								if werr != nil {
									r.Harness("C15 %s: oracle: %v", c.name, werr)
								} else if gerr != nil {
									r.Violation("C15:realfile-misread:"+c.name+":format2", fmt.Sprintf("schema-format-2 database: reading every table: %v", gerr), art2)
								} else if got.String() != want.String() {
									r.Violation("C15:realfile-misread:"+c.name+":format2", fmt.Sprintf("schema-format-2 database reads differently from SQLite: %s", DumpDiff(got, want)), art2)
								}
								if strings.Contains(c.setup, "TABLE w ") {
									for _, k := range []string{"a", "b", "c", "d"} {
										var got [][]interface{}
										err4 := e.H.PKSelect("w", sqlittle.Key{k}, func(rw sqlittle.Row) { got = append(got, CopyRow(rw)) }, "k", "v")
										r.Trans(1)
										if err4 != nil || len(got) != 1 {
											r.Violation("C15:realfile-misread:"+c.name+":format2", fmt.Sprintf("schema-format-2 database: PKSelect(w, %q): %d rows err=%v, SQLite finds the row", k, len(got), err4), art2)
											break
										}
									}
								}
								e.H.Close()
							}
						}
					}
				}
			}
		}
		if h != nil {
			h.Close()
		}
		l.Close()
	}
}

// c15PageSizePairs: "every legal page size ... accepted ... again whenever the header is re-read": a
// long-lived handle on a database of page size p1 (3 pages: no multiple of any larger page size), another
// connection rewrites the file with page size p2 (VACUUM), the handle reads again. Every ordered pair of
// legal page sizes; a handle that read before and one that was only opened.
func c15PageSizePairs(r *ev.Run) {
	dir := ev.TmpDir("c15ps")
	defer os.RemoveAll(dir)
	sizes := []int{512, 1024, 2048, 4096, 8192, 16384, 32768, 65536}
	n := 0
	for _, p1 := range sizes {
		for _, p2 := range sizes {
			if p1 == p2 {
				continue
			}
			for _, kind := range []string{"read-before", "opened-only"} {
				n++
				path := fmt.Sprintf("%s/ps%d.sqlite", dir, n)
				l, err := lite.Open(path, "")
				if err != nil {
					r.Harness("C15 page size pairs: %v", err)
					return
				}
				if err := l.Exec(fmt.Sprintf("PRAGMA page_size=%d; CREATE TABLE fruit (id INTEGER PRIMARY KEY, name); CREATE TABLE veg (name TEXT PRIMARY KEY, n) WITHOUT ROWID; INSERT INTO fruit VALUES (1, 'apple'), (2, 'pear'); INSERT INTO veg VALUES ('leek', 1), ('kale', 2)", p1)); err != nil {
					r.Harness("C15 page size pairs: %v", err)
					l.Close()
					return
				}
				l.Close()
				st, _ := os.Stat(path)
				art := map[string]interface{}{"family": "page-size-change-under-a-handle", "page_size_at_open": p1, "page_size_after_vacuum": p2, "file_bytes_at_open": st.Size(), "handle": kind}
				e, err := OpenEnv(path)
				r.Eval(1)
				r.Trans(2)
				r.NontrivialN(1)
				if err != nil {
					r.Violation("C15:realfile-rejected:page-size", fmt.Sprintf("a database of page size %d written by SQLite is refused: %v", p1, err), art)
					continue
				}
				if kind == "read-before" {
					if _, err := LittleDump(e.H, e.D); err != nil {
						r.Violation("C15:realfile-rejected:page-size", fmt.Sprintf("a database of page size %d written by SQLite: %v", p1, err), art)
						e.H.Close()
						continue
					}
				}
				l, err = lite.Open(path, "")
				if err != nil {
					e.H.Close()
					continue
				}
				werr := l.Exec(fmt.Sprintf("INSERT INTO fruit VALUES (3, 'plum'); PRAGMA page_size=%d; VACUUM", p2))
				want, derr := LiteDump(l)
				hdr := readHeader(path)
				l.Close()
				if werr != nil || derr != nil || len(hdr) < 18 {
					r.Harness("C15 page size pairs: writer: %v %v", werr, derr)
					e.H.Close()
					continue
				}
				r.Validated(1)
				got, gerr := LittleDump(e.H, e.D)
				if gerr != nil {
					r.Violation("C15:valid-header-refused:page-size-changed", fmt.Sprintf("a handle (%s) opened at page size %d, the file rewritten with page size %d: the valid database is refused: %v", kind, p1, p2, gerr), art)
				} else if got.String() != want.String() {
					r.Violation("C15:page-size-changed:misread", fmt.Sprintf("a handle (%s) opened at page size %d, the file rewritten with page size %d: %s", kind, p1, p2, firstLineDiff(got.String(), want.String())), art)
				}
				e.H.Close()
				os.Remove(path)
			}
		}
	}
	r.Set("page_size_pairs", n)
}

// c15FormatChange: the schema format is a header field that is re-read for every transaction: a handle opened
// on a legacy-format file (DESC in definitions ignored), another connection rewrites the file as format 4
// (VACUUM: the same definitions now sort descending), and the handle's very first call afterwards is each of
// the keyed and ordered reads in turn. One handle per first call, one that read before and one only opened.
func c15FormatChange(r *ev.Run) {
	dir := ev.TmpDir("c15fmt")
	defer os.RemoveAll(dir)
	type call struct {
		name string
		run  func(h *sqlittle.DB) ([][]interface{}, error)
		sql  string
	}
	calls := []call{
		{"IndexedSelectEq(t, t_v, 'b')", func(h *sqlittle.DB) ([][]interface{}, error) {
			var rows [][]interface{}
			err := h.IndexedSelectEq("t", "t_v", sqlittle.Key{"b"}, func(r sqlittle.Row) { rows = append(rows, CopyRow(r)) }, "id", "v")
			return rows, err
		}, "SELECT id, v FROM t WHERE v IS 'b' ORDER BY id"},
		{"IndexedSelect(t, t_v)", func(h *sqlittle.DB) ([][]interface{}, error) { return IndexedAll(h, "t", "t_v", "id", "v") }, "SELECT id, v FROM t ORDER BY v DESC, id"},
		{"PKSelect(w, 'c')", func(h *sqlittle.DB) ([][]interface{}, error) {
			var rows [][]interface{}
			err := h.PKSelect("w", sqlittle.Key{"c"}, func(r sqlittle.Row) { rows = append(rows, CopyRow(r)) }, "k", "v")
			return rows, err
		}, "SELECT k, v FROM w WHERE k = 'c'"},
		{"Select(w)", func(h *sqlittle.DB) ([][]interface{}, error) { return SelectAll(h, "w", "k", "v") }, "SELECT k, v FROM w ORDER BY k DESC"},
		{"Select(t)", func(h *sqlittle.DB) ([][]interface{}, error) { return SelectAll(h, "t", "id", "v") }, "SELECT id, v FROM t ORDER BY id"},
	}
	n := 0
	for ci, c := range calls {
		for _, kind := range []string{"read-before", "opened-only"} {
			n++
			path := fmt.Sprintf("%s/f%d.sqlite", dir, n)
			l, err := lite.Open(path, "")
			if err != nil {
				r.Harness("C15 format change: %v", err)
				return
			}
			l.LegacyFormat(true)
			if err := l.Exec("PRAGMA page_size=512; CREATE TABLE t (id INTEGER PRIMARY KEY, v); CREATE INDEX t_v ON t (v DESC); CREATE TABLE w (k TEXT, v, PRIMARY KEY (k DESC)) WITHOUT ROWID; INSERT INTO t (v) VALUES ('a'), ('b'), ('c'), ('b'), ('d'), ('e'), ('b'); INSERT INTO w VALUES ('a', 1), ('b', 2), ('c', 3), ('d', 4), ('e', 5); ALTER TABLE w ADD COLUMN lg DEFAULT 'legacy'"); err != nil {
				r.Harness("C15 format change setup: %v", err)
				l.Close()
				return
			}
			l.Close()
			hdr := readHeader(path)
			art := map[string]interface{}{"family": "schema-format-change-under-a-handle", "first_call": c.name, "handle": kind}
			if len(hdr) >= 48 {
				art["schema_format_at_open"] = binary.BigEndian.Uint32(hdr[44:48])
			}
			h, err := sqlittle.Open(path)
			r.Eval(1)
			r.Trans(2)
			r.NontrivialN(1)
			if err != nil {
				r.Violation("C15:realfile-rejected:legacy-format", fmt.Sprintf("a legacy-format database written by SQLite is refused: %v", err), art)
				continue
			}
			if kind == "read-before" {
				for _, c2 := range calls {
					if _, err := c2.run(h); err != nil {
						r.Violation("C15:realfile-rejected:legacy-format", fmt.Sprintf("%s on a legacy-format database: %v", c2.name, err), art)
					}
				}
			}
			l, err = lite.Open(path, "")
			if err != nil {
				h.Close()
				continue
			}
			werr := l.Exec("VACUUM")
			want, qerr := l.Query(c.sql)
			l.Close()
			hdr = readHeader(path)
			if werr != nil || qerr != nil || len(hdr) < 48 || binary.BigEndian.Uint32(hdr[44:48]) != 4 {
				r.Harness("C15 format change: VACUUM did not produce a format 4 file (%v %v)", werr, qerr)
				h.Close()
				continue
			}
			r.Validated(1)
			got, gerr := c.run(h)
			if gerr != nil {
				r.Violation("C15:valid-header-refused:format-changed", fmt.Sprintf("a handle (%s) opened on a legacy-format file that a VACUUM rewrote as format 4: first call %s fails: %v", kind, c.name, gerr), art)
			} else if !RowsEq(got, want, true) {
				r.Violation("C15:format-changed:misread", fmt.Sprintf("a handle (%s) opened on a legacy-format file that a VACUUM rewrote as format 4: first call %s: %s", kind, c.name, firstDiffSafe(got, want)), art)
			}
			// and everything else afterwards
			for cj, c2 := range calls {
				if cj == ci {
					continue
				}
				l2, err := lite.Open(path, "")
				if err != nil {
					break
				}
				w2, _ := l2.Query(c2.sql)
				l2.Close()
				g2, e2 := c2.run(h)
				r.Trans(1)
				if e2 != nil || !RowsEq(g2, w2, true) {
					r.Violation("C15:format-changed:misread", fmt.Sprintf("a handle (%s) after the format changed (first call was %s): %s: err=%v %s", kind, c.name, c2.name, e2, firstDiffSafe(g2, w2)), art)
					break
				}
			}
			h.Close()
			os.Remove(path)
		}
	}
}
