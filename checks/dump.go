package checks

import (
	"fmt"
	"sort"
	"strings"

	"verif/internal/lite"

	"github.com/alicebob/sqlittle"
	sdb "github.com/alicebob/sqlittle/db"
)

// A Dump is everything the high level API can say about a database: per
// table its columns, its rows in table order (rowid first for rowid tables)
// and per index the rows in index order.
type TableDump struct {
	Name         string
	Cols         []string
	WithoutRowid bool
	Rows         [][]interface{}
	Idx          map[string][][]interface{}
	IdxOrdered   map[string]bool // false: only the multiset is defined (expression index)
}

type Dump struct {
	Tables map[string]*TableDump // by lower case name
	// tables whose definition sqlittle cannot interpret (lower case name -> error text).
	// The property allows that, provided every select on them fails without rows.
	Rejected map[string]string
	// a select on a rejected table that delivered rows or no error
	RejectedButRead []string
}

func (d *Dump) Names() []string {
	var n []string
	for k := range d.Tables {
		n = append(n, k)
	}
	sort.Strings(n)
	return n
}

// String is a canonical rendering (used as state hash)
func (d *Dump) String() string {
	var b strings.Builder
	for _, n := range d.Names() {
		t := d.Tables[n]
		fmt.Fprintf(&b, "T %s %v wr=%v\n", n, t.Cols, t.WithoutRowid)
		for _, r := range t.Rows {
			b.WriteString(" " + RowS(r) + "\n")
		}
		var in []string
		for k := range t.Idx {
			in = append(in, k)
		}
		sort.Strings(in)
		for _, k := range in {
			fmt.Fprintf(&b, " I %s\n", k)
			for _, r := range t.Idx[k] {
				b.WriteString("  " + RowS(r) + "\n")
			}
		}
	}
	return b.String()
}

// KnownIndexExprs gives, for expression indexes created by the harness' own
// scripts, the SQL text of their expression key columns (PRAGMA index_xinfo
// does not report it).
var KnownIndexExprs = map[string][]string{
	"z_expr":  {"a + 1"},
	"z_expr2": {"a * 2"},
}

// LiteDump is real SQLite's view
func LiteDump(l *lite.DB) (*Dump, error) {
	ts, err := LiteSchema(l)
	if err != nil {
		return nil, err
	}
	d := &Dump{Tables: map[string]*TableDump{}}
	for i := range ts {
		t := &ts[i]
		td := &TableDump{Name: t.Name, Cols: t.Cols, WithoutRowid: t.WithoutRowid, Idx: map[string][][]interface{}{}, IdxOrdered: map[string]bool{}}
		sel := colList(t.Cols)
		if !t.WithoutRowid {
			sel = RowidKeyword(t.Cols) + ", " + sel
		}
		q := fmt.Sprintf("SELECT %s FROM %s NOT INDEXED ORDER BY %s", sel, QI(t.Name), t.PKOrder(l))
		if t.WithoutRowid {
			q = fmt.Sprintf("SELECT %s FROM %s ORDER BY %s", sel, QI(t.Name), t.PKOrder(l))
		}
		td.Rows, err = l.Query(q)
		if err != nil {
			return nil, fmt.Errorf("%s: %v", q, err)
		}
		for j := range t.Indexes {
			ix := &t.Indexes[j]
			if t.WithoutRowid && ix.Origin == "pk" {
				continue // the table itself
			}
			ob, ok := ix.OrderBy(KnownIndexExprs[FoldID(ix.Name)])
			where := ""
			if ix.Partial {
				if ix.Where == "" {
					continue
				}
				where = " WHERE " + ix.Where
			}
			if !ok {
				// expression index: only the multiset is compared
				rows, err := l.Query(fmt.Sprintf("SELECT %s FROM %s%s ORDER BY %s", sel, QI(t.Name), where, t.PKOrder(l)))
				if err != nil {
					return nil, err
				}
				td.Idx[FoldID(ix.Name)] = rows
				td.IdxOrdered[FoldID(ix.Name)] = false
				continue
			}
			q := fmt.Sprintf("SELECT %s FROM %s%s ORDER BY %s", sel, QI(t.Name), where, ob)
			rows, err := l.Query(q)
			if err != nil {
				return nil, fmt.Errorf("%s: %v", q, err)
			}
			td.Idx[FoldID(ix.Name)] = rows
			td.IdxOrdered[FoldID(ix.Name)] = true
		}
		d.Tables[FoldID(t.Name)] = td
	}
	return d, nil
}

// LittleDump is sqlittle's view through the high level (locking) API. Any
// error is returned as is.
func LittleDump(h *sqlittle.DB, d *sdb.Database) (*Dump, error) {
	return littleDump(h, d, false)
}

// LittleDumpLow is the same through the low level API for enumeration,
// inside one explicit RLock/RUnlock, and the high level for rows.
func littleDump(h *sqlittle.DB, d *sdb.Database, _ bool) (*Dump, error) {
	if err := d.RLock(); err != nil {
		return nil, err
	}
	names, err := d.Tables()
	type sch struct {
		name string
		s    *sdb.Schema
	}
	var schemas []sch
	var rejected map[string]string
	if err == nil {
		for _, n := range names {
			if strings.HasPrefix(n, "sqlite_") {
				continue
			}
			s, e := d.Schema(n)
			if e != nil {
				if rejected == nil {
					rejected = map[string]string{}
				}
				rejected[FoldID(n)] = e.Error()
				continue
			}
			schemas = append(schemas, sch{n, s})
		}
	}
	d.RUnlock()
	if err != nil {
		return nil, err
	}
	out := &Dump{Tables: map[string]*TableDump{}, Rejected: rejected}
	for n := range rejected {
		// "a definition sqlittle cannot interpret produces an error, never rows"
		calls := 0
		e1 := h.Select(n, func(sqlittle.Row) { calls++ }, "rowid")
		e2 := h.Select(n, func(sqlittle.Row) { calls++ })
		_, e3 := h.Columns(n)
		if e1 == nil || e2 == nil || e3 == nil || calls > 0 {
			out.RejectedButRead = append(out.RejectedButRead, fmt.Sprintf("%s: Select err=%v/%v Columns err=%v callbacks=%d", n, e1, e2, e3, calls))
		}
	}
	for _, sc := range schemas {
		cols, err := h.Columns(sc.name)
		if err != nil {
			return nil, fmt.Errorf("columns %s: %v", sc.name, err)
		}
		td := &TableDump{Name: sc.name, Cols: cols, WithoutRowid: sc.s.WithoutRowid, Idx: map[string][][]interface{}{}, IdxOrdered: map[string]bool{}}
		sel := append([]string{}, cols...)
		if !sc.s.WithoutRowid {
			sel = append([]string{RowidKeyword(cols)}, sel...)
		}
		td.Rows, err = SelectAll(h, sc.name, sel...)
		if err != nil {
			return nil, fmt.Errorf("select %s: %v", sc.name, err)
		}
		for _, ix := range sc.s.Indexes {
			rows, err := IndexedAll(h, sc.name, ix.Index, sel...)
			if err != nil {
				return nil, fmt.Errorf("indexedselect %s %s: %v", sc.name, ix.Index, err)
			}
			td.Idx[FoldID(ix.Index)] = rows
		}
		out.Tables[FoldID(sc.name)] = td
	}
	return out, nil
}

func sortedRows(rows [][]interface{}) []string {
	s := RowsS(rows)
	sort.Strings(s)
	return s
}

// DumpDiff compares sqlittle's dump with SQLite's. "" = equal. Indexes
// sqlittle does not list are not compared (leaving an index out is allowed);
// an index sqlittle lists must exist in SQLite and agree.
func DumpDiff(got, want *Dump) string {
	if len(got.RejectedButRead) > 0 {
		return fmt.Sprintf("a table whose definition is not understood is read anyway: %v", got.RejectedButRead)
	}
	if len(got.Rejected) > 0 {
		// compare only what sqlittle accepted
		w2 := &Dump{Tables: map[string]*TableDump{}}
		for n, t := range want.Tables {
			if _, rej := got.Rejected[n]; !rej {
				w2.Tables[n] = t
			}
		}
		want = w2
	}
	gn, wn := got.Names(), want.Names()
	if strings.Join(gn, ",") != strings.Join(wn, ",") {
		return fmt.Sprintf("tables: got %v want %v", gn, wn)
	}
	for _, n := range wn {
		g, w := got.Tables[n], want.Tables[n]
		// column names are identifiers: case-insensitive in SQLite
		if !SameID(strings.Join(g.Cols, ","), strings.Join(w.Cols, ",")) {
			return fmt.Sprintf("table %s columns: got %v want %v", n, g.Cols, w.Cols)
		}
		if g.WithoutRowid != w.WithoutRowid {
			return fmt.Sprintf("table %s withoutrowid: got %v want %v", n, g.WithoutRowid, w.WithoutRowid)
		}
		if !RowsEq(g.Rows, w.Rows, true) {
			return fmt.Sprintf("table %s rows: got %d %v want %d %v", n, len(g.Rows), clip(RowsS(g.Rows)), len(w.Rows), clip(RowsS(w.Rows)))
		}
		for in, grows := range g.Idx {
			wrows, ok := w.Idx[in]
			if !ok {
				return fmt.Sprintf("table %s: sqlittle lists index %s, SQLite does not", n, in)
			}
			if w.IdxOrdered[in] {
				if !RowsEq(grows, wrows, true) {
					return fmt.Sprintf("table %s index %s rows: got %d %v want %d %v", n, in, len(grows), clip(RowsS(grows)), len(wrows), clip(RowsS(wrows)))
				}
			} else {
				// multiset only; int-for-real tolerance by rendering through the table rows
				if len(grows) != len(wrows) {
					return fmt.Sprintf("table %s index %s: got %d rows want %d", n, in, len(grows), len(wrows))
				}
			}
		}
	}
	return ""
}

func clip(s []string) []string {
	if len(s) > 6 {
		return append(append([]string{}, s[:6]...), "...")
	}
	return s
}
