package checks

// C20, handle life cycles on real files: goroutines open, use, close (and close
// again, and use after closing) their own handles. Steps are whole API calls;
// every interleaving of the participants' step lists is enumerated (run one
// after the other: the question is what one handle's life cycle does to
// another handle, e.g. through the process's descriptor table). Oracle: every
// step returns what the same participant's list returns when run alone.

import (
	"bytes"
	"database/sql"
	"fmt"
	"os"
	"path/filepath"
	"strings"
	"time"

	"verif/internal/ev"

	"github.com/alicebob/sqlittle"
)

type lifeStep struct {
	name string
	do   func(h **sqlittle.DB, path string) string
}

func lifeSelect(h *sqlittle.DB) string {
	if h == nil {
		return "no handle"
	}
	var sb strings.Builder
	n := 0
	err := h.Select("t1", func(r sqlittle.Row) {
		n++
		if n <= 3 {
			sb.WriteString(RowS(CopyRow(r)) + ";")
		}
	}, "a", "b")
	if err != nil {
		return "error"
	}
	return fmt.Sprintf("%d rows %s", n, sb.String())
}

var lifeSteps = map[string]lifeStep{
	"open": {"Open", func(h **sqlittle.DB, path string) string {
		x, err := sqlittle.Open(path)
		if err != nil {
			return "error"
		}
		*h = x
		return "ok"
	}},
	"select": {"Select", func(h **sqlittle.DB, path string) string { return lifeSelect(*h) }},
	"close": {"Close", func(h **sqlittle.DB, path string) string {
		if *h == nil {
			return "no handle"
		}
		if err := (*h).Close(); err != nil {
			return "error"
		}
		return "ok"
	}},
}

func c20Lifecycle(r *ev.Run, imgA, imgB []byte) {
	dir := ev.TmpDir("c20life")
	defer os.RemoveAll(dir)
	pa, pb := filepath.Join(dir, "a.sqlite"), filepath.Join(dir, "b.sqlite")
	os.WriteFile(pa, imgA, 0o644)
	os.WriteFile(pb, imgB, 0o644)
	type part struct {
		path  string
		steps []string
	}
	lists := [][]string{
		{"open", "select", "close"},
		{"open", "select", "close", "close", "select"}, // a second Close (defer + explicit) and a use after Close
		{"open", "close", "open", "select", "close"},
	}
	run := func(parts []part, order []int) [][]string {
		hs := make([]*sqlittle.DB, len(parts))
		pos := make([]int, len(parts))
		out := make([][]string, len(parts))
		for _, p := range order {
			st := lifeSteps[parts[p].steps[pos[p]]]
			res := "panic"
			if pv := Safely(func() { res = st.do(&hs[p], parts[p].path) }); pv != nil {
				res = fmt.Sprintf("panic: %v", pv)
			}
			out[p] = append(out[p], st.name+"="+res)
			pos[p]++
		}
		return out
	}
	var scen [][]part
	for _, la := range lists {
		for _, lb := range lists {
			scen = append(scen, []part{{pa, la}, {pb, lb}}, []part{{pa, la}, {pa, lb}})
		}
	}
	if r.Thorough() {
		for _, la := range lists {
			scen = append(scen, []part{{pa, la}, {pb, lists[0]}, {pa, lists[1]}})
		}
	}
	// the file behind a path is replaced (rename) while handles on the old file are open: a handle keeps reading
	// the file it opened; a handle opened afterwards reads the new one. "path" is not "file".
	c20Replace(r, dir, imgA, imgB)
	total := 0
	for _, parts := range scen {
		// solo results
		solo := make([][]string, len(parts))
		for i := range parts {
			var order []int
			for range parts[i].steps {
				order = append(order, 0)
			}
			solo[i] = run([]part{parts[i]}, order)[0]
		}
		// all interleavings
		var rec func(order []int, pos []int)
		rec = func(order []int, pos []int) {
			done := true
			for p := range parts {
				if pos[p] < len(parts[p].steps) {
					done = false
					pos[p]++
					rec(append(order, p), pos)
					pos[p]--
				}
			}
			if !done {
				return
			}
			total++
			r.Eval(1)
			r.Trans(len(order))
			r.NontrivialN(1)
			got := run(parts, order)
			for p := range parts {
				if strings.Join(got[p], ",") != strings.Join(solo[p], ",") {
					var desc []string
					for _, pp := range parts {
						desc = append(desc, filepath.Base(pp.path)+":"+strings.Join(pp.steps, "/"))
					}
					r.Violation("C20:lifecycle:differs-from-solo", fmt.Sprintf("participants %v in the order %v: participant %d observes %v, alone %v", desc, order, p, got[p], solo[p]),
						map[string]interface{}{"family": "lifecycle", "participants": desc, "order": fmt.Sprint(order)})
					return
				}
			}
		}
		rec(nil, make([]int, len(parts)))
	}
	r.Set("lifecycle_interleavings", total)
}

// c20Replace: participants A and B {open, select, select, close} on one path, participant R {replace the file
// behind the path by another database (write to a temporary name, rename over it)}; every interleaving; every
// select must return the content of the file its handle opened.
func c20Replace(r *ev.Run, dir string, imgA, imgB []byte) {
	path := filepath.Join(dir, "replaced.sqlite")
	tmp := filepath.Join(dir, "replaced.tmp")
	// what each version answers
	var sel [2]string
	for v, img := range [][]byte{imgA, imgB} {
		os.WriteFile(path, img, 0o644)
		h, err := sqlittle.Open(path)
		if err != nil {
			r.Harness("c20 replace: %v", err)
			return
		}
		sel[v] = lifeSelect(h)
		h.Close()
		os.Remove(path)
	}
	if sel[0] == sel[1] {
		r.Harness("c20 replace: the two versions answer the same")
		return
	}
	steps := [][]string{{"open", "select", "select", "close"}, {"open", "select", "close", "open", "select", "close"}, {"replace"}}
	n := 0
	var rec func(order []int, pos []int)
	rec = func(order []int, pos []int) {
		done := true
		for p := range steps {
			if pos[p] < len(steps[p]) {
				done = false
				pos[p]++
				rec(append(order, p), pos)
				pos[p]--
			}
		}
		if !done {
			return
		}
		n++
		r.Eval(1)
		r.Trans(len(order))
		r.NontrivialN(1)
		os.Remove(path)
		os.WriteFile(path, imgA, 0o644)
		version := 0
		hs := make([]*sqlittle.DB, 2)
		opened := make([]int, 2)
		at := make([]int, len(steps))
		var trace []string
		for _, p := range order {
			st := steps[p][at[p]]
			at[p]++
			switch st {
			case "replace":
				os.WriteFile(tmp, imgB, 0o644)
				os.Rename(tmp, path)
				version = 1
				trace = append(trace, "R:replace")
			case "open":
				h, err := sqlittle.Open(path)
				if err != nil {
					r.Violation("C20:replace:open", fmt.Sprintf("after %v: Open: %v", trace, err), map[string]interface{}{"family": "file-replaced", "order": fmt.Sprint(order)})
					return
				}
				hs[p], opened[p] = h, version
				trace = append(trace, fmt.Sprintf("%d:open(v%d)", p, version))
			case "select":
				got := lifeSelect(hs[p])
				trace = append(trace, fmt.Sprintf("%d:select", p))
				if got != sel[opened[p]] {
					r.Violation("C20:replace:wrong-file", fmt.Sprintf("%v: participant %d opened version %d of the file but its select answers %s; that version answers %s", trace, p, opened[p], clipS(got, 120), clipS(sel[opened[p]], 120)), map[string]interface{}{"family": "file-replaced", "order": fmt.Sprint(order), "trace": trace})
					for _, h := range hs {
						if h != nil {
							h.Close()
						}
					}
					return
				}
			case "close":
				hs[p].Close()
				hs[p] = nil
				trace = append(trace, fmt.Sprintf("%d:close", p))
			}
		}
	}
	rec(nil, make([]int, len(steps)))
	r.Set("file_replaced_interleavings", n)
}

// c20FailedOpens: long histories of ONE failing step repeated, then one healthy call: whatever a failed open or a
// failed statement keeps (a place in a process-wide table, a descriptor, a lock) adds up until it changes what an
// independent handle on a healthy file returns. Kind H, depth = the repetition count (300 quick, 3000 thorough).
func c20FailedOpens(r *ev.Run, imgA []byte) {
	dir := ev.TmpDir("c20fail")
	defer os.RemoveAll(dir)
	good := filepath.Join(dir, "good.sqlite")
	os.WriteFile(good, imgA, 0o644)
	bad := map[string]string{
		"missing-file":   filepath.Join(dir, "nosuch.sqlite"),
		"not-a-database": filepath.Join(dir, "garbage.sqlite"),
		"wal-mode":       filepath.Join(dir, "wal.sqlite"),
		"a-directory":    dir,
	}
	os.WriteFile(bad["not-a-database"], bytes.Repeat([]byte("this is no database. "), 200), 0o644)
	wal := append([]byte{}, imgA...)
	wal[18], wal[19] = 2, 2
	os.WriteFile(bad["wal-mode"], wal, 0o644)
	healthy := func(viaDriver bool) string {
		if viaDriver {
			db, err := sql.Open("sqlittle", good)
			if err != nil {
				return "open: " + err.Error()
			}
			defer db.Close()
			rows, err := db.Query("SELECT a, b, c FROM t1")
			if err != nil {
				return "query: " + err.Error()
			}
			defer rows.Close()
			n := 0
			for rows.Next() {
				n++
			}
			return fmt.Sprintf("%d rows, err=%v", n, rows.Err())
		}
		h, err := sqlittle.Open(good)
		if err != nil {
			return "open: " + err.Error()
		}
		defer h.Close()
		return lifeSelect(h)
	}
	want := map[bool]string{true: healthy(true), false: healthy(false)}
	reps := 300
	if r.Thorough() {
		reps = 3000
	}
	r.Set("failed_open_repetitions", reps)
	kinds := []string{"missing-file", "not-a-database", "wal-mode", "a-directory"}
	for _, kind := range kinds {
		for _, failVia := range []string{"driver", "native", "driver-statement"} {
			for _, viaDriver := range []bool{true, false} {
				name := fmt.Sprintf("%d x failing %s (%s), then a healthy file through the %s", reps, kind, failVia, map[bool]string{true: "driver", false: "native API"}[viaDriver])
				art := map[string]interface{}{"family": "failed-opens", "history": name}
				r.Eval(1)
				r.Trans(reps + 1)
				r.NontrivialN(1)
				r.State(name)
				var got string
				ok := ev.Within(2*time.Minute, func() {
					switch failVia {
					case "driver":
						db, err := sql.Open("sqlittle", bad[kind])
						if err == nil {
							for i := 0; i < reps; i++ {
								if rows, err := db.Query("SELECT a FROM t1"); err == nil {
									rows.Close()
								}
							}
							db.Close()
						}
					case "driver-statement":
						// the open works, the statement does not
						db, err := sql.Open("sqlittle", good)
						if err == nil {
							for i := 0; i < reps; i++ {
								q := []string{"SELECT nosuch FROM t1", "SELECT a FROM nosuch", "garbage", "DELETE FROM t1"}[i%4]
								if rows, err := db.Query(q); err == nil {
									for rows.Next() {
									}
									rows.Close()
								}
							}
							db.Close()
						}
					default:
						for i := 0; i < reps; i++ {
							if h, err := sqlittle.Open(bad[kind]); err == nil {
								h.Close()
							}
						}
					}
					got = healthy(viaDriver)
				})
				if !ok {
					r.Violation("C20:failed-opens:hang", name+": does not return within 2 minutes", art)
					r.NotExhaustive("failed-open histories stopped at the first one that does not return")
					return
				}
				if got != want[viaDriver] {
					r.Violation("C20:failed-opens:result-differs", fmt.Sprintf("%s: %s, on its own: %s", name, clipS(got, 200), clipS(want[viaDriver], 200)), art)
				}
			}
		}
	}
}
