package checks

// Pool histories (kind H): every sequence of database/sql operations up to a
// depth on one pool, with up to two result sets open at the same time and
// failing statements in between. The deciding step is plain enumeration of
// all sequences over the alphabet; the oracle is the native API's result for
// each query on its own.

import (
	"context"
	"database/sql"
	"fmt"
	"os"
	"path/filepath"
	"strings"
	"sync/atomic"
	"time"

	"verif/internal/dbgen"
	"verif/internal/ev"

	"github.com/alicebob/sqlittle"
)

type poolOp struct {
	name string
	kind byte // 'Q' open a result set, 'N' next on set i, 'D' drain+close set i, 'C' close set i, 'E' failing Query, 'X' failing Exec, 'P' prepared statement closed unused
	q    string
	i    int
}

var poolAlphabet = []poolOp{
	{"open(t1)", 'Q', "SELECT a, b, c FROM t1", 0},
	{"open(t2)", 'Q', "SELECT a, b, d FROM t2", 0},
	{"next#0", 'N', "", 0},
	{"next#1", 'N', "", 1},
	{"drain#0", 'D', "", 0},
	{"drain#1", 'D', "", 1},
	{"close#0", 'C', "", 0},
	{"close#1", 'C', "", 1},
	{"fail(syntax)", 'E', "garbage", 0},
	{"fail(no such table)", 'E', "SELECT a FROM nosuch", 0},
	{"fail(not a select)", 'E', "DELETE FROM t1", 0},
	{"fail(no such column)", 'E', "SELECT nosuch FROM t1", 0},
	{"exec", 'X', "DELETE FROM t1", 0},
	{"prepare+close", 'P', "SELECT a FROM t1", 0},
}

type poolSet struct {
	rows *sql.Rows
	q    string
	got  [][]interface{}
	open bool
}

func poolHistories(r *ev.Run, prop string) {
	dir := ev.TmpDir("pool")
	defer os.RemoveAll(dir)
	spec := &dbgen.Spec{PageSize: 512, Tables: []dbgen.Table{T1(rowidSet(5, 1), 0), T2(4, 0)}}
	img, err := dbgen.Build(spec)
	if err != nil {
		r.Harness("dbgen: %v", err)
		return
	}
	if err := Conform(spec, img); err != nil {
		r.Harness("conformance: %v", err)
		return
	}
	r.Validated(1)
	path := filepath.Join(dir, "pool.sqlite")
	os.WriteFile(path, img.Bytes, 0o644)
	native, err := sqlittle.Open(path)
	if err != nil {
		r.Harness("open: %v", err)
		return
	}
	want := map[string][][]interface{}{}
	want[poolAlphabet[0].q], _ = SelectAll(native, "t1", "a", "b", "c")
	want[poolAlphabet[1].q], _ = SelectAll(native, "t2", "a", "b", "d")
	native.Close()
	depth := 5
	if r.Thorough() {
		depth = 6
	}
	r.Set("pool_history_depth", depth)
	r.Set("pool_history_alphabet", len(poolAlphabet))
	// enumerate valid sequences; shard by the first two operations
	n := len(poolAlphabet)
	var firsts [][]int
	for a := 0; a < n; a++ {
		for b := 0; b < n; b++ {
			firsts = append(firsts, []int{a, b})
		}
	}
	valid := func(seq []int) bool {
		open := [2]bool{}
		for _, o := range seq {
			op := poolAlphabet[o]
			switch op.kind {
			case 'Q':
				// the new set takes the first free slot
				if !open[0] {
					open[0] = true
				} else if !open[1] {
					open[1] = true
				} else {
					return false
				}
			case 'N':
				if !open[op.i] {
					return false
				}
			case 'D', 'C':
				if !open[op.i] {
					return false
				}
				open[op.i] = false
			}
		}
		return true
	}
	ev.Parallel(len(firsts), func(fi int) {
		var rec func(seq []int)
		rec = func(seq []int) {
			if !valid(seq) || poolHung.Load() {
				return
			}
			poolRun(r, prop, path, seq, want, "pool")
			if len(seq) < depth {
				// the same history on ONE connection of the pool (sql.Conn) and inside a transaction: result sets that
				// are open at the same time share whatever the driver keeps per connection
				poolRun(r, prop, path, seq, want, "conn")
				poolRun(r, prop, path, seq, want, "tx")
			}
			if len(seq) < depth {
				for o := 0; o < n; o++ {
					rec(append(append([]int{}, seq...), o))
				}
			}
		}
		rec(firsts[fi])
	})
}

// poolHung is set by the first sequence that does not return: the pool family stops there (every
// further sequence would wait for its own time limit)
var poolHung atomic.Bool

func poolNames(seq []int) []string {
	out := make([]string, len(seq))
	for i, o := range seq {
		out[i] = poolAlphabet[o].name
	}
	return out
}

func poolRun(r *ev.Run, prop, path string, seq []int, want map[string][][]interface{}, mode string) {
	names := poolNames(seq)
	art := map[string]interface{}{"family": "pool-history", "sequence": names, "on": mode}
	if mode != "pool" {
		names = append([]string{"[" + mode + "]"}, names...)
	}
	r.Eval(1)
	r.Trans(len(seq))
	r.State(strings.Join(names, ";"))
	var sig, what string
	fail := func(s, w string) {
		if sig == "" {
			sig, what = s, w
		}
	}
	ok := ev.Within(2*time.Minute, func() {
		db, err := sql.Open("sqlittle", path)
		if err != nil {
			fail(prop+":pool-history:open", err.Error())
			return
		}
		defer db.Close()
		// q: where the statements go
		var q interface {
			Query(string, ...interface{}) (*sql.Rows, error)
			Exec(string, ...interface{}) (sql.Result, error)
			Prepare(string) (*sql.Stmt, error)
		} = db
		switch mode {
		case "conn":
			c, err := db.Conn(context.Background())
			if err != nil {
				fail(prop+":pool-history:open", err.Error())
				return
			}
			defer c.Close()
			q = connQ{c}
		case "tx":
			tx, err := db.Begin()
			if err != nil {
				fail(prop+":pool-history:open", err.Error())
				return
			}
			defer tx.Rollback()
			q = tx
		}
		var sets [2]*poolSet
		overlapped, failedBefore := false, false
		read := func(s *poolSet) bool {
			if !s.rows.Next() {
				return false
			}
			vals := make([]interface{}, 3)
			if err := s.rows.Scan(&vals[0], &vals[1], &vals[2]); err != nil {
				fail(prop+":pool-history:scan", fmt.Sprintf("%v: Scan: %v", names, err))
				return false
			}
			for i, v := range vals {
				if b, ok := v.([]byte); ok {
					vals[i] = append([]byte{}, b...)
				}
			}
			s.got = append(s.got, vals)
			return true
		}
		finish := func(s *poolSet, drained bool) {
			err := s.rows.Err()
			s.rows.Close()
			s.open = false
			w := want[s.q]
			if err != nil {
				fail(prop+":pool-history:rows-error", fmt.Sprintf("%v: result set of %q: %v (alone: %d rows, no error)", names, s.q, err, len(w)))
				return
			}
			if drained && !RowsEq(s.got, w, false) {
				fail(prop+":pool-history:rows", fmt.Sprintf("%v: result set of %q delivers %d rows, alone %d: %s", names, s.q, len(s.got), len(w), firstDiffSafe(s.got, w)))
			} else if !drained && !isPrefix(s.got, w) {
				fail(prop+":pool-history:rows", fmt.Sprintf("%v: the %d rows read from %q are not the first rows it returns alone", names, len(s.got), s.q))
			}
		}
		for _, o := range seq {
			op := poolAlphabet[o]
			switch op.kind {
			case 'Q':
				rows, err := q.Query(op.q)
				if err != nil {
					fail(prop+":pool-history:query-error", fmt.Sprintf("%v: %q fails: %v (works alone)", names, op.q, err))
					return
				}
				s := &poolSet{rows: rows, q: op.q, open: true}
				if sets[0] == nil || !sets[0].open {
					sets[0] = s
				} else {
					sets[1] = s
					overlapped = true
				}
			case 'N':
				read(sets[op.i])
			case 'D':
				for read(sets[op.i]) {
				}
				finish(sets[op.i], true)
			case 'C':
				finish(sets[op.i], false)
			case 'E':
				failedBefore = true
				rows, err := q.Query(op.q)
				if err == nil {
					for rows.Next() {
					}
					err = rows.Err()
					rows.Close()
					if err == nil {
						fail(prop+":pool-history:bad-query-accepted", fmt.Sprintf("%v: %q reports no error", names, op.q))
					}
				}
			case 'X':
				failedBefore = true
				if _, err := q.Exec(op.q); err == nil {
					fail(prop+":pool-history:exec-accepted", fmt.Sprintf("%v: Exec(%q) reports success", names, op.q))
				}
			case 'P':
				st, err := q.Prepare(op.q)
				if err != nil {
					fail(prop+":pool-history:prepare-error", fmt.Sprintf("%v: Prepare(%q): %v", names, op.q, err))
					return
				}
				st.Close()
			}
			if sig != "" {
				break
			}
		}
		// whatever is still open is drained at the end, in order
		for _, s := range sets {
			if s != nil && s.open {
				if sig == "" {
					for read(s) {
					}
					finish(s, true)
				} else {
					s.rows.Close()
				}
			}
		}
		if overlapped && failedBefore {
			r.NontrivialN(1)
		}
	})
	if !ok {
		if poolHung.Swap(true) {
			return // reported by another worker already
		}
		r.NotExhaustive("pool histories stopped at the first sequence that did not return")
		r.Violation(prop+":pool-history:hang", fmt.Sprintf("%v does not finish within 2 minutes", names), art)
		return
	}
	if sig != "" {
		r.Violation(sig, what, art)
	}
}

// connQ gives a pinned connection the method set of *sql.DB / *sql.Tx
type connQ struct{ c *sql.Conn }

func (c connQ) Query(q string, a ...interface{}) (*sql.Rows, error) {
	return c.c.QueryContext(context.Background(), q, a...)
}
func (c connQ) Exec(q string, a ...interface{}) (sql.Result, error) {
	return c.c.ExecContext(context.Background(), q, a...)
}
func (c connQ) Prepare(q string) (*sql.Stmt, error) {
	return c.c.PrepareContext(context.Background(), q)
}
