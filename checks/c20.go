package checks

// C20 — Independent handles can be used from concurrent goroutines.
// Interleaving part (kind I): N goroutines, each with its own handle, run
// operations; scheduling points at every pager call and every row callback
// (the seam at which independent handles can touch anything shared); every
// interleaving within a preemption bound; each operation's result must equal
// its solo result. Race part (NOT model checking, stated as such): the same
// bodies free-running under the race detector.

import (
	"fmt"
	"os"
	"os/exec"
	"path/filepath"
	"regexp"
	"strings"
	"sync"
	"sync/atomic"
	"time"

	"verif/internal/dbgen"
	"verif/internal/ev"
	"verif/internal/lite"
	"verif/internal/mc"
	"verif/internal/vpager"

	"github.com/alicebob/sqlittle"
	sdb "github.com/alicebob/sqlittle/db"
)

func init() {
	Subcommands["c20solo"] = func(args []string) int {
		if len(args) < 2 {
			return 2
		}
		imgA, imgB := c20Images()
		img := imgA
		switch args[0] {
		case "B":
			img = imgB
		case "C", "D":
			c, d, err := c20Twins()
			if err != nil {
				fmt.Fprintln(os.Stderr, err)
				return 2
			}
			img = c
			if args[0] == "D" {
				img = d
			}
		}
		var o int
		fmt.Sscan(args[1], &o)
		res, _ := c20Execute(&mc.Ctx{}, [][]byte{img}, [][]int{{o}}, c20Bodies())
		fmt.Print(res[0][0])
		return 0
	}
	Registry["C20"] = Check{Level: "model_checking", Fn: runC20}
	setupHooks = append(setupHooks, func() error {
		dir := ev.TmpDir("c20setup")
		defer os.RemoveAll(dir)
		_, err := buildRace(dir)
		return err
	})
}

type c20Body struct {
	name string
	run  func(e *Env, onRow func()) string
}

func c20Bodies() []c20Body {
	return []c20Body{
		{"Select(t1)", func(e *Env, onRow func()) string {
			var rows []string
			err := e.H.Select("t1", func(r sqlittle.Row) { rows = append(rows, RowS(CopyRow(r))); onRow() }, "a", "b", "c", "e")
			return fmt.Sprint(rows, err)
		}},
		{"IndexedSelect(t1,t1_bc)", func(e *Env, onRow func()) string {
			var rows []string
			err := e.H.IndexedSelect("t1", "t1_bc", func(r sqlittle.Row) { rows = append(rows, RowS(CopyRow(r))); onRow() }, "a", "b")
			return fmt.Sprint(rows, err)
		}},
		{"IndexedSelectEq(t1,t1_c_rt)", func(e *Env, onRow func()) string {
			var rows []string
			err := e.H.IndexedSelectEq("t1", "t1_c_rt", sqlittle.Key{"v01"}, func(r sqlittle.Row) { rows = append(rows, RowS(CopyRow(r))); onRow() }, "a", "c")
			return fmt.Sprint(rows, err)
		}},
		{"SelectRowid+Columns", func(e *Env, onRow func()) string {
			// the row with a blob AND an overflowing text: a returned Row belongs to the caller, so it is looked at
			// only after a scheduling point (and after another call on the same handle)
			r, err := e.H.SelectRowid("t1", c20BlobRowid, "b", "c", "e")
			onRow()
			cols, err2 := e.H.Columns("t2")
			onRow()
			return fmt.Sprint(RowS(CopyRowOrNil(r)), err, cols, err2)
		}},
		{"PKSelect(t2)+Schema", func(e *Env, onRow func()) string {
			var rows []string
			err := e.H.PKSelect("t2", sqlittle.Key{int64(1)}, func(r sqlittle.Row) { rows = append(rows, RowS(CopyRow(r))); onRow() }, "a", "d")
			e.D.RLock()
			s, err2 := e.D.Schema("t1")
			e.D.RUnlock()
			n := 0
			if s != nil {
				n = len(s.Indexes)
			}
			return fmt.Sprint(rows, err, n, err2)
		}},
		{"IndexedSelectEq(z,z_k)+PKSelect(zw)", func(e *Env, onRow func()) string {
			var rows []string
			err := e.H.IndexedSelectEq("z", "z_k", sqlittle.Key{int64(3)}, func(r sqlittle.Row) { rows = append(rows, RowS(CopyRow(r))); onRow() }, "id", "k", "v")
			err2 := e.H.PKSelect("zw", sqlittle.Key{int64(2)}, func(r sqlittle.Row) { rows = append(rows, RowS(CopyRow(r))); onRow() }, "k", "s", "v")
			return fmt.Sprint(rows, err, err2)
		}},
		{"IndexedSelect(zw,zw_v)", func(e *Env, onRow func()) string {
			var rows []string
			err := e.H.IndexedSelect("zw", "zw_v", func(r sqlittle.Row) { rows = append(rows, RowS(CopyRow(r))); onRow() }, "k", "s")
			return fmt.Sprint(rows, err)
		}},
		{"Driver(SELECT * FROM dq)", func(e *Env, onRow func()) string {
			// through the database/sql driver's statement on this participant's handle: * is expanded per file
			var rows []string
			err := driverQueryCB(e.H, "SELECT * FROM dq", func(row []interface{}) bool { rows = append(rows, RowS(row)); onRow(); return false }, nil)
			return fmt.Sprint(rows, err)
		}},
		{"ScanRange(t2_c)", func(e *Env, onRow func()) string {
			e.D.RLock()
			defer e.D.RUnlock()
			ix, err := e.D.Index("t2_c")
			if err != nil {
				return err.Error()
			}
			var rows []string
			err = ix.ScanRange(sdb.Key{{V: nil}}, sdb.Key{{V: "w"}}, func(rec sdb.Record) bool { rows = append(rows, RowS(CopyRec(rec))); onRow(); return false })
			return fmt.Sprint(rows, err)
		}},
	}
}

// a participant: a goroutine with its own handle running a list of bodies
type c20Part struct {
	yield  chan string
	resume chan struct{}
	done   bool
	result []string
	// blocked: did not come back to the scheduler after it was resumed
	blocked bool
}

// T1Alt / T2Alt: tables and indexes with the SAME NAMES as T1 / T2 but other
// definitions (column order, rowid alias position, collations, defaults, index
// columns, primary key), so that anything remembered by table or index name
// across handles gives a wrong answer on the other file.
func T1Alt(n int) dbgen.Table {
	t := dbgen.Table{
		Name: "t1", SQL: "CREATE TABLE t1 (c, a INTEGER PRIMARY KEY, e DEFAULT 'other', b COLLATE RTRIM, d UNIQUE)", NCols: 5,
		ColNames: []string{"c", "a", "e", "b", "d"}, RowidAlias: 1, Defaults: []interface{}{nil, nil, "other", nil, nil}, ColColl: []string{"", "", "", "rtrim", ""},
	}
	bvals := []interface{}{"apple", "apple ", "Apple", "pear", nil, "fig  ", int64(3)}
	for i := 0; i < n; i++ {
		row := dbgen.Row{Rowid: int64(i*4 + 20), Vals: []interface{}{mixVal(i + 1), nil, fmt.Sprintf("E%d", i), bvals[i%len(bvals)], int64(1000 - i)}}
		if i%3 == 2 {
			row.Short = 2
			row.Vals[3], row.Vals[4] = nil, nil
		}
		t.Rows = append(t.Rows, row)
	}
	t.Indexes = []dbgen.Index{
		{Name: "sqlite_autoindex_t1_1", Cols: []dbgen.IdxCol{{Col: 4}}},
		{Name: "t1_bc", SQL: "CREATE INDEX t1_bc ON t1 (c, b)", Cols: []dbgen.IdxCol{{Col: 0}, {Col: 3, Coll: "rtrim"}}},
		{Name: "t1_c_rt", SQL: "CREATE INDEX t1_c_rt ON t1 (c DESC)", Cols: []dbgen.IdxCol{{Col: 0, Desc: true}}},
	}
	return t
}

func T2Alt(n int) dbgen.Table {
	t := dbgen.Table{
		Name: "t2", SQL: "CREATE TABLE t2 (d, c, b, a, PRIMARY KEY (a, b)) WITHOUT ROWID", NCols: 4, ColNames: []string{"d", "c", "b", "a"}, RowidAlias: -1, WithoutRowid: true,
		Defaults: make([]interface{}, 4), PK: []dbgen.IdxCol{{Col: 3}, {Col: 2}}, ColColl: make([]string, 4),
	}
	for i := 0; i < n; i++ {
		t.Rows = append(t.Rows, dbgen.Row{Vals: []interface{}{fmt.Sprintf("D%d", i), mixVal(i), int64(i % 3), int64(1 + i/3)}})
	}
	t.Indexes = []dbgen.Index{{Name: "t2_c", SQL: "CREATE INDEX t2_c ON t2 (d)", Cols: []dbgen.IdxCol{{Col: 0}}}}
	return t
}

// c20Twins: two databases with byte-identical definitions (a DESC index, a WITHOUT ROWID table with a DESC
// primary key), one written in SQLite's legacy file format (schema format 3: DESC is ignored) and one in
// format 4. Anything remembered per definition text across handles gives a wrong answer on one of them.
func c20Twins() ([]byte, []byte, error) {
	stmts := []string{
		"CREATE TABLE z (id INTEGER PRIMARY KEY, k, v)",
		"CREATE INDEX z_k ON z (k DESC, v)",
		"CREATE TABLE zw (k, s, v, PRIMARY KEY (k DESC, s)) WITHOUT ROWID",
		"CREATE INDEX zw_v ON zw (v)",
		"WITH RECURSIVE n(i) AS (SELECT 1 UNION ALL SELECT i+1 FROM n WHERE i<30) INSERT INTO z SELECT i, i%7, 'v'||i FROM n",
		"WITH RECURSIVE n(i) AS (SELECT 1 UNION ALL SELECT i+1 FROM n WHERE i<30) INSERT INTO zw SELECT i%6, 's'||i, i FROM n",
		"ALTER TABLE z ADD COLUMN e DEFAULT 'dflt'",
	}
	var out [2][]byte
	for i, legacy := range []bool{true, false} {
		l, err := lite.OpenMem()
		if err != nil {
			return nil, nil, err
		}
		if legacy {
			l.LegacyFormat(true)
		}
		l.MustExec("PRAGMA page_size=512")
		for _, st := range stmts {
			if err := l.Exec(st); err != nil {
				l.Close()
				return nil, nil, fmt.Errorf("%s: %v", st, err)
			}
		}
		// a table of the same name in both files, with its columns in another order: the same statement text means
		// something else in each file
		dq := "CREATE TABLE dq (a, b, c); INSERT INTO dq VALUES ('a1', 'b1', 'c1'), ('a2', 'b2', 'c2')"
		if i == 1 {
			dq = "CREATE TABLE dq (c, a, b); INSERT INTO dq VALUES ('c1', 'a1', 'b1'), ('c2', 'a2', 'b2')"
		}
		if err := l.Exec(dq); err != nil {
			l.Close()
			return nil, nil, err
		}
		out[i] = l.Serialize()
		l.Close()
	}
	return out[0], out[1], nil
}

// c20BlobRowid: the rowid of the T1 row (index 10 of 12) that holds a blob and an overflowing text
var c20BlobRowid = rowidSet(12, 2)[10]

func c20Images() ([]byte, []byte) {
	a := &dbgen.Spec{PageSize: 512, Tables: []dbgen.Table{T1(rowidSet(12, 2), 600), T2(5, 0)}}
	b := &dbgen.Spec{PageSize: 1024, Tables: []dbgen.Table{T1Alt(9), T2Alt(7)}}
	for _, sp := range []*dbgen.Spec{a, b} {
		if img, err := dbgen.Build(sp); err != nil {
			panic(err)
		} else if err := Conform(sp, img); err != nil {
			panic("C20 image does not conform: " + err.Error())
		}
	}
	ia, err := dbgen.Build(a)
	if err != nil {
		panic(err)
	}
	ib, err := dbgen.Build(b)
	if err != nil {
		panic(err)
	}
	return ia.Bytes, ib.Bytes
}

// c20Blocked counts the steps in which a participant did not come back to the scheduler (it waits for another
// participant outside the hooked operations)
var c20Blocked atomic.Int64
var c20Once sync.Once

// c20Recv waits for a participant's next scheduling point for at most the given number of 20 ms ticks (counted, not
// measured: a stopped process does not use them up)
func c20Recv(ch chan string, ticks int) (string, bool) {
	select {
	case ev := <-ch:
		return ev, true
	default:
	}
	for t := 0; t < ticks; t++ {
		select {
		case ev := <-ch:
			return ev, true
		case <-time.After(20 * time.Millisecond):
		}
	}
	return "", false
}

func c20Execute(c *mc.Ctx, imgs [][]byte, plan [][]int, bodies []c20Body) ([][]string, []string) {
	parts := make([]*c20Part, len(plan))
	var trace []string
	for i := range plan {
		p := &c20Part{yield: make(chan string), resume: make(chan struct{})}
		parts[i] = p
		img := imgs[i]
		ops := plan[i]
		go func() {
			<-p.resume
			mem := vpager.NewMem(img)
			tp := &vpager.TracePager{P: mem, On: func(pre bool, e vpager.Event) {
				if pre {
					p.yield <- e.Kind
					<-p.resume
				}
			}}
			h, d, err := vpager.Open(tp)
			if err != nil {
				p.result = append(p.result, "open: "+err.Error())
			} else {
				env := &Env{H: h, D: d}
				for _, o := range ops {
					p.yield <- "op:" + bodies[o].name
					<-p.resume
					p.result = append(p.result, bodies[o].run(env, func() {
						p.yield <- "row"
						<-p.resume
					}))
				}
			}
			p.yield <- "done"
		}()
	}
	last := -1
	for {
		var enabled []int
		waiting := 0
		for i, p := range parts {
			if p.blocked {
				// has it arrived at a scheduling point meanwhile?
				if ev, ok := c20Recv(p.yield, 2); ok {
					p.blocked = false
					trace = append(trace, fmt.Sprintf("g%d:%s", i, ev))
					if ev == "done" {
						p.done = true
					}
				} else {
					waiting++
				}
			}
			if !p.done && !p.blocked {
				enabled = append(enabled, i)
			}
		}
		if len(enabled) == 0 && waiting > 0 {
			// everybody waits: either one of them arrives, or this is a deadlock
			arrived := false
			for round := 0; round < 600 && !arrived; round++ {
				for i, p := range parts {
					if !p.blocked {
						continue
					}
					if ev, ok := c20Recv(p.yield, 5); ok {
						p.blocked = false
						arrived = true
						trace = append(trace, fmt.Sprintf("g%d:%s", i, ev))
						if ev == "done" {
							p.done = true
						}
						break
					}
				}
			}
			if !arrived {
				for _, p := range parts {
					if p.blocked {
						p.result = append(p.result, "<waits forever: every participant is blocked>")
						p.done = true
					}
				}
				trace = append(trace, "<deadlock>")
			}
			continue
		}
		if len(enabled) == 0 {
			break
		}
		// canonical order: the participant that ran last first
		for k, i := range enabled {
			if i == last && k > 0 {
				copy(enabled[1:k+1], enabled[:k])
				enabled[0] = i
			}
		}
		lastEnabled := enabled[0] == last
		ch := c.Choose(len(enabled), func(i int) int {
			if lastEnabled && i > 0 {
				return 1
			}
			return 0
		})
		i := enabled[ch]
		last = i
		parts[i].resume <- struct{}{}
		ev, ok := c20Recv(parts[i].yield, 100)
		if !ok {
			// the participant waits for something another participant has to do (a wait the scheduler does not see):
			// it is taken out of the enabled set until it arrives at its next scheduling point
			parts[i].blocked = true
			c20Blocked.Add(1)
			trace = append(trace, fmt.Sprintf("g%d:<blocked>", i))
			continue
		}
		trace = append(trace, fmt.Sprintf("g%d:%s", i, ev))
		if ev == "done" {
			parts[i].done = true
		}
	}
	out := make([][]string, len(parts))
	for i, p := range parts {
		out[i] = p.result
	}
	return out, trace
}

func runC20(r *ev.Run) {
	r.Rule = "interleavings: 2 goroutines (3 thorough), each with its own handle (same image / different images with different page sizes / twin images with identical definitions, one in the legacy file format where DESC is ignored), each running 1-2 operations out of {Select, IndexedSelect, IndexedSelectEq, SelectRowid+Columns, PKSelect+Schema, ScanRange, the database/sql driver's SELECT * on a table whose columns are in another order in the twin file}; scheduling points before every pager call (lock, unlock, page read) and in every row callback; every interleaving with <=2 preemptions (3 thorough); oracle: every operation returns exactly its solo result (a participant that waits for another one outside the hooked operations leaves the enabled set until it is back; all waiting = deadlock = violation). pool histories: every sequence of <=5 (6 thorough) database/sql operations on one pool (two result sets open at once, read alternately, failing statements and Exec in between): every result set returns what its query returns alone. handle life cycles on real files: participants {open, select, close}, {open, select, close, close again, select after close}, {open, close, open, select, close} on the same or on different files, steps = whole API calls, every interleaving of two (three thorough) participants: every step returns what it returns alone; and the file behind a path replaced by rename while handles are open (every interleaving of two open/select/close participants with the replacement): every select answers from the file its handle opened. failed-open histories: one failing step (open of a missing file / a non-database / a WAL file / a directory, through the driver or the native API; failing statements on a good file) repeated 300 (3000 thorough) times, then a healthy file through the driver and the native API returns what it returns on its own. race pass (a dynamic detector, not exhaustive): the same bodies on 8 goroutines with their own handles on 2 real files plus a database/sql pool used from 4 goroutines, free-running under -race; any report is a violation. non-trivial = executions with at least one preemption"
	poolHistories(r, "C20")
	bodies := c20Bodies()
	imgA, imgB := c20Images()
	// solo results: each image in a process of its own, one operation after the other, so that
	// "alone" really means that nothing else has ever run in that process
	solo := map[string][]string{}
	bin := os.Getenv("VCHECK_BIN")
	if bin == "" {
		bin, _ = os.Executable()
	}
	imgC, imgD, terr := c20Twins()
	if terr != nil {
		r.Harness("C20 twins: %v", terr)
		return
	}
	for _, name := range []string{"A", "B", "C", "D"} {
		for o := range bodies {
			out, err := exec.Command(bin, "c20solo", name, fmt.Sprint(o)).Output()
			if err != nil {
				r.Harness("C20 solo run %s/%d: %v", name, o, err)
				return
			}
			solo[name] = append(solo[name], string(out))
		}
	}
	if solo["A"][0] == solo["B"][0] {
		r.Harness("C20: the two images give the same result; the oracle would be vacuous")
		return
	}
	bound := 2
	nG := 2
	if r.Thorough() {
		bound = 3
	}
	type scen struct {
		imgs  []string
		plan  [][]int
		bound int
	}
	var scens []scen
	for a := range bodies {
		for b := range bodies {
			scens = append(scens, scen{[]string{"A", "A"}, [][]int{{a}, {b}}, bound})
			if a <= b {
				scens = append(scens, scen{[]string{"A", "B"}, [][]int{{a}, {b}}, bound})
			}
		}
	}
	// the twins: same definitions, legacy format (C) and format 4 (D); the bodies that touch their tables
	twin := []int{}
	for i, b := range bodies {
		if strings.Contains(b.name, "(z") || strings.Contains(b.name, "FROM dq") {
			twin = append(twin, i)
		}
	}
	for _, a := range twin {
		for _, b := range twin {
			scens = append(scens, scen{[]string{"C", "D"}, [][]int{{a}, {b}}, bound}, scen{[]string{"D", "C"}, [][]int{{a, b}, {b}}, 2})
		}
	}
	// two operations each
	for a := 0; a < len(bodies); a += 2 {
		scens = append(scens, scen{[]string{"A", "B"}, [][]int{{a, (a + 1) % len(bodies)}, {(a + 3) % len(bodies), a}}, 2})
	}
	if r.Thorough() {
		nG = 3
		for a := 0; a < len(bodies); a++ {
			scens = append(scens, scen{[]string{"A", "A", "B"}, [][]int{{a}, {(a + 1) % len(bodies)}, {(a + 2) % len(bodies)}}, 2})
		}
	}
	r.Set("goroutines", nG)
	r.Set("preemption_bound", bound)
	r.Set("scenarios", len(scens))
	ev.Parallel(len(scens), func(si int) {
		sc := scens[si]
		imgs := make([][]byte, len(sc.imgs))
		for i, n := range sc.imgs {
			switch n {
			case "A":
				imgs[i] = imgA
			case "B":
				imgs[i] = imgB
			case "C":
				imgs[i] = imgC
			default:
				imgs[i] = imgD
			}
		}
		name := fmt.Sprint(sc.imgs, sc.plan)
		st := mc.Explore(sc.bound, 200000, 1, nil, func(c *mc.Ctx, _ interface{}) {
			if c20Blocked.Load() > 40 {
				// every further schedule would wait for the same blocked participants; what has been seen is reported
				c20Once.Do(func() {
					r.NotExhaustive("interleavings stopped: participants wait for each other outside the scheduler")
				})
				return
			}
			res, trace := c20Execute(c, imgs, sc.plan, bodies)
			r.Eval(1)
			r.Trans(len(trace))
			r.State(name + strings.Join(trace, ","))
			if c.Cost() > 0 {
				r.NontrivialN(1)
			}
			r.Outcome(fmt.Sprintf("preemptions=%d goroutines=%d", c.Cost(), len(sc.plan)))
			if c.Cost() == 2 && si == 3 {
				r.Sample(map[string]interface{}{"scenario": name, "schedule": clip(trace)})
			}
			if c.Diverged != "" {
				r.Harness("C20 replay divergence: %s", c.Diverged)
			}
			for g := range res {
				for k, o := range sc.plan[g] {
					want := solo[sc.imgs[g]][o]
					if k >= len(res[g]) || res[g][k] != want {
						got := "<missing>"
						if k < len(res[g]) {
							got = res[g][k]
						}
						r.Violation("C20:interleaved-result-differs:"+bodies[o].name, fmt.Sprintf("goroutine %d, %s on its own handle, interleaved with %v: result differs from the solo run: %s vs %s", g, bodies[o].name, sc.plan, clipS(got, 200), clipS(want, 200)),
							map[string]interface{}{"scenario": name, "schedule": trace, "choices": c.Taken()})
					}
				}
			}
		})
		if st.Capped {
			r.NotExhaustive("schedule cap hit in " + name)
		}
	})
	c20Lifecycle(r, imgA, imgB)
	c20FailedOpens(r, imgA)
	c20Race(r, imgA, imgB)
}

func buildRace(dir string) (string, error) {
	bin := filepath.Join(dir, "race.test")
	args := []string{"test", "-c", "-race", "-tags", "verif", "-vet=off", "-o", bin}
	if ov := os.Getenv("VERIF_OVERLAY"); ov != "" {
		args = append(args, "-overlay", ov)
	}
	args = append(args, "./race20")
	cmd := exec.Command("go", args...)
	cmd.Dir = ev.Root
	if _, e := os.Stat(filepath.Join(ev.Root, "go.mod")); e != nil {
		cmd.Dir = "/verif"
	}
	cmd.Env = append(os.Environ(), "GOTOOLCHAIN=local", "GOFLAGS=-mod=mod", "GOPROXY=off", "GOSUMDB=off", "CGO_ENABLED=1")
	out, err := cmd.CombinedOutput()
	if err != nil {
		return "", fmt.Errorf("go test -race -c ./race20: %v\n%s", err, clipS(string(out), 1500))
	}
	return bin, nil
}

var reRaceFunc = regexp.MustCompile(`(?m)^  (github\.com/alicebob/sqlittle[^\s(]*)\(`)

func c20Race(r *ev.Run, imgA, imgB []byte) {
	dir := ev.TmpDir("c20")
	defer os.RemoveAll(dir)
	bin, err := buildRace(dir)
	if err != nil {
		r.Harness("C20 race build: %v", err)
		r.NotExhaustive("race pass not run")
		return
	}
	fa, fb := filepath.Join(dir, "a.sqlite"), filepath.Join(dir, "b.sqlite")
	os.WriteFile(fa, imgA, 0o644)
	os.WriteFile(fb, imgB, 0o644)
	cmd := exec.Command(bin, "-test.run", "^TestRace$", "-test.v", "-test.count", "2")
	cmd.Env = append(os.Environ(), "VERIF_RACE_FILES="+fa+":"+fb, "GORACE=halt_on_error=0")
	out, err := cmd.CombinedOutput()
	s := string(out)
	r.Eval(1)
	r.Trans(1)
	races := strings.Count(s, "WARNING: DATA RACE")
	r.Set("race_pass_reports", races)
	r.Set("race_pass_ran", strings.Contains(s, "RACEPASS"))
	if races > 0 {
		// signature: the sqlittle functions on the racing stacks
		fs := map[string]bool{}
		var names []string
		for _, m := range reRaceFunc.FindAllStringSubmatch(s, -1) {
			f := strings.TrimPrefix(m[1], "github.com/alicebob/sqlittle")
			if !fs[f] && len(names) < 3 {
				fs[f] = true
				names = append(names, f)
			}
		}
		i := strings.Index(s, "WARNING: DATA RACE")
		r.Violation("C20:data-race:"+strings.Join(names, ","), fmt.Sprintf("%d data race reports from independent handles used by concurrent goroutines; first: %s", races, clipS(s[i:], 900)), map[string]interface{}{"report": clipS(s[i:], 4000)})
		return
	}
	if strings.Contains(s, "RACEPASS mismatches=") && !strings.Contains(s, "RACEPASS mismatches=0 ") {
		r.Violation("C20:free-running-result-differs", "free-running goroutines on independent handles got results that differ from the solo results: "+clipS(s, 400), nil)
		return
	}
	if err != nil || !strings.Contains(s, "RACEPASS") {
		if strings.Contains(s, "panic:") || strings.Contains(s, "fatal error") {
			r.Violation("C20:free-running-crash", "the free-running pass crashed: "+clipS(s, 600), map[string]interface{}{"output": clipS(s, 3000)})
		} else {
			r.Harness("C20 race pass: %v %s", err, clipS(s, 400))
		}
	}
}
