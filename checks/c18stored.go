package checks

// C18, stored values: the rows Scan sees in practice come out of the whole
// read pipeline (record decoding, the rowid alias, DEFAULTs of columns added
// later with every declared type). Every cell of every row of databases
// written by SQLite is scanned into every destination type.

import (
	"fmt"
	"strings"

	"verif/internal/ev"
	"verif/internal/lite"
	"verif/internal/vpager"

	"github.com/alicebob/sqlittle"
)

func c18Stored(r *ev.Run) {
	dests := c18Dests()
	scripts := append(fwScripts(false), fwScript{"defaults-of-every-type", defaultsScript()}) // the DEFAULT of every declared type x literal form, read from rows stored before the ALTER
	cells, tables := 0, 0
	for _, sc := range scripts {
		l, err := lite.OpenMem()
		if err != nil {
			r.Harness("lite: %v", err)
			return
		}
		l.MustExec("PRAGMA page_size=1024")
		ok := true
		for k, st := range sc.Stmts {
			if err := l.Exec(st); err != nil {
				r.Harness("C18 stored %s stmt %d: %v", sc.Name, k, err)
				ok = false
				break
			}
		}
		if !ok {
			l.Close()
			continue
		}
		img := l.Serialize()
		liteTables := map[string]*TableDump{}
		if ld, err := LiteDump(l); err == nil {
			liteTables = ld.Tables
		}
		l.Close()
		r.Validated(1)
		h, d, _, err := vpager.OpenImage(img)
		if err != nil {
			continue // C01's business
		}
		d.RLock()
		names, _ := d.Tables()
		d.RUnlock()
		for _, tn := range names {
			cols, err := h.Columns(tn)
			if err != nil {
				continue // a definition sqlittle does not accept
			}
			tables++
			var rows []sqlittle.Row
			if err := h.Select(tn, func(row sqlittle.Row) { rows = append(rows, cloneRow(row)) }, cols...); err != nil {
				continue
			}
			// what SQLite stores there (same order: rowid / primary key)
			var lrows [][]interface{}
			if lt := liteTables[strings.ToLower(tn)]; lt != nil && len(lt.Cols) == len(cols) {
				lrows = lt.Rows
			}
			rowsAll := rows
			if len(rows) > 40 {
				rows = rows[:40]
			}
			for ri, row := range rows {
				for c := range row {
					cells++
					art := map[string]interface{}{"family": "stored-values", "script": sc.Name, "table": tn, "column": cols[c], "row": ri}
					if lrows != nil && ri < len(lrows) && len(lrows) == len(rowsAll) {
						// the rowid column leads SQLite's dump of rowid tables
						lv := lrows[ri][len(lrows[ri])-len(row)+c]
						// text and blobs reach Scan byte for byte (SQLite does not validate or normalise text)
						switch x := lv.(type) {
						case string:
							var b []byte
							if err := row.Scan(c18Skip(c, &b)...); err == nil && string(b) != x {
								r.Violation("C18:stored-bytes:text", fmt.Sprintf("%s.%s of %s, row %d: Scan into []byte gives %q, SQLite stores the text %q", tn, cols[c], sc.Name, ri, b, x), art)
							}
						case []byte:
							var b []byte
							if err := row.Scan(c18Skip(c, &b)...); err == nil && string(b) != string(x) {
								r.Violation("C18:stored-bytes:blob", fmt.Sprintf("%s.%s of %s, row %d: Scan into []byte gives %x, SQLite stores the blob %x", tn, cols[c], sc.Name, ri, b, x), art)
							}
						}
						if (lv == nil) != (row[c] == nil) {
							r.Violation("C18:stored-null", fmt.Sprintf("%s.%s of %s, row %d: the row holds %s, SQLite stores %s (a stored NULL scans to the zero value, a missing column to its default)", tn, cols[c], sc.Name, ri, VS(row[c]), VS(lv)), art)
						}
					}
					switch row[c].(type) {
					case nil, int64, float64, string, []byte:
					default:
						r.Violation("C18:stored-class", fmt.Sprintf("%s.%s of %s: the row holds a %T (%v); Scan documents NULL, int64, float64, string and []byte", tn, cols[c], sc.Name, row[c], row[c]), art)
						continue
					}
					for _, ds := range dests {
						r.Eval(1)
						r.Trans(1)
						var got string
						var err error
						if p := Safely(func() { got, err = ds.scan(row, c) }); p != nil {
							r.Violation("C18:panic:"+ds.name, fmt.Sprintf("Scan of %s.%s (%s) into %s panics: %v", tn, cols[c], VS(row[c]), ds.name, p), art)
							continue
						}
						want, ok := ds.ref(row[c], true)
						if ok != (err == nil) {
							r.Violation("C18:errorness:"+c11Class(row[c])+"->"+ds.name, fmt.Sprintf("Scan of %s.%s = %s into %s: error=%v", tn, cols[c], VS(row[c]), ds.name, err), art)
						} else if ok && got != want {
							r.Violation("C18:value:"+c11Class(row[c])+"->"+ds.name, fmt.Sprintf("Scan of %s.%s = %s into %s gives %s, documented conversion gives %s", tn, cols[c], VS(row[c]), ds.name, got, want), art)
						}
					}
				}
				if p := Safely(func() { row.ScanStrings() }); p != nil {
					r.Violation("C18:panic:scanstring", fmt.Sprintf("ScanStrings on a row of %s panics: %v", tn, p), map[string]interface{}{"family": "stored-values", "script": sc.Name, "table": tn, "row": ri})
				}
			}
		}
	}
	r.Set("stored_cells", cells)
	r.Set("stored_tables", tables)
}

// c18Skip: Scan arguments that skip the first c columns and scan column c into dst
func c18Skip(c int, dst interface{}) []interface{} {
	args := make([]interface{}, c+1)
	for i := 0; i < c; i++ {
		args[i] = nil
	}
	args[c] = dst
	return args
}
