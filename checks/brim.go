package checks

// Brim-full leaves: a table leaf whose last (lowest-address) cell spills to
// exactly one, partly filled overflow page, with the rest of the page filled
// to the brim by the cells that follow it physically. This is the one shape
// in which "append the overflow bytes to the in-page part" can be done in
// place inside the cached page (and destroy the neighbours) - reads in more
// than one order on the same handle must not depend on it.

import (
	"encoding/binary"
	"fmt"
	"strings"

	"verif/internal/dbgen"
)

func brimLocal(ps int, payload int) int {
	u := ps
	x := u - 35
	if payload <= x {
		return payload
	}
	m := ((u-12)*32)/255 - 23
	k := m + (payload-m)%(u-4)
	if k <= x {
		return k
	}
	return m
}

// brimInspect: (free bytes in the root leaf, room behind the big cell's in-page part minus its overflow tail; ok)
func brimInspect(img *dbgen.Image, ps int) (free int, slack int, ok bool) {
	root := img.Roots["t1"]
	if root <= 1 || img.Depth["t1"] != 1 {
		return 0, 0, false
	}
	p := img.Bytes[(root-1)*ps : root*ps]
	n := int(binary.BigEndian.Uint16(p[3:5]))
	cs := int(binary.BigEndian.Uint16(p[5:7]))
	free = cs - (8 + 2*n)
	off := int(binary.BigEndian.Uint16(p[8+2*(n-1):]))
	if off != cs {
		return free, 0, false // the last row is not at the lowest address
	}
	pl, n1 := brimVarint(p[off:])
	_, n2 := brimVarint(p[off+n1:])
	local := brimLocal(ps, int(pl))
	if local == int(pl) || int(pl)-local > ps-4 {
		return free, 0, false // no overflow, or more than one overflow page
	}
	tail := int(pl) - local
	ovOff := off + n1 + n2 + local
	return free, ps - ovOff - tail, true
}

// brimImage searches (deterministically) for such an image at page size ps
func brimImage(ps int) (*ShapeImage, error) {
	for nf := 2; nf <= 4; nf++ {
		for bigLen := ps - 80; bigLen < 2*ps; bigLen++ {
			build := func(fill []int) (*dbgen.Spec, *dbgen.Image, error) {
				t1 := T1(rowidSet(nf+1, 0), 0)
				for i := range t1.Rows {
					t1.Rows[i].Short = 0
					if i < nf {
						t1.Rows[i].Vals[2] = strings.Repeat(string(rune('f'+i)), fill[i])
					} else {
						t1.Rows[i].Vals[2] = strings.Repeat("B", bigLen)
					}
				}
				t1.Tree = &dbgen.Tree{N: nf + 1}
				spec := &dbgen.Spec{PageSize: ps, Tables: []dbgen.Table{t1}}
				img, err := dbgen.Build(spec)
				return spec, img, err
			}
			fill := make([]int, nf)
			// quick reject: the big row must keep only M bytes in the page and have a single overflow page
			_, img, err := build(fill)
			if err != nil {
				continue
			}
			if _, _, ok := brimInspect(img, ps); !ok {
				continue
			}
			// fill the page: grow the fillers evenly while the page still holds everything
			for step := ps; step >= 1; step /= 2 {
				for {
					try := append([]int{}, fill...)
					for i := range try {
						try[i] += step
					}
					if try[0] > ps-100 {
						break // fillers stay in their page
					}
					if _, im2, err := build(try); err == nil && im2.Depth["t1"] == 1 {
						fill = try
					} else {
						break
					}
				}
			}
			for i := range fill { // and one by one
				for {
					fill[i]++
					if _, im2, err := build(fill); fill[i] > ps-100 || err != nil || im2.Depth["t1"] != 1 {
						fill[i]--
						break
					}
				}
			}
			spec, img, err := build(fill)
			if err != nil {
				continue
			}
			free, slack, ok := brimInspect(img, ps)
			if ok && slack >= 0 {
				return &ShapeImage{Spec: spec, Img: img, Object: "t1", Desc: map[string]interface{}{"family": "brim-full-leaf", "page_size": ps, "fillers": fmt.Sprint(fill), "big": bigLen, "free_bytes": free, "room_behind_minus_tail": slack}}, nil
			}
		}
	}
	return nil, fmt.Errorf("no brim-full leaf found at page size %d", ps)
}

func brimVarint(b []byte) (int64, int) {
	var v int64
	for i := 0; i < 8 && i < len(b); i++ {
		v = v<<7 | int64(b[i]&0x7f)
		if b[i]&0x80 == 0 {
			return v, i + 1
		}
	}
	if len(b) > 8 {
		return v<<8 | int64(b[8]), 9
	}
	return v, len(b)
}
