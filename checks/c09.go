package checks

// C09 — A crashed writer's unfinished transaction is never read as data.
// Kind E over crash points: real SQLite write transactions are recorded once
// under a logging VFS; for EVERY prefix of the recorded file operations (the
// writer dies before operation k) and every torn variant of the write in
// flight, the (database, journal) pair is materialised and read.

import (
	"bytes"
	"fmt"
	"os"
	"path/filepath"
	"strings"
	"sync"

	"verif/internal/ev"
	"verif/internal/lite"
)

func init() { Registry["C09"] = Check{Level: "fault_enumeration", Fn: runC09} }

type c09Txn struct {
	name  string
	setup string // extra setup after the common one
	pre   string // pragmas on the recording connection
	sql   string
	bare  bool // setup replaces the common setup (a database of very few pages)
}

const c09Setup = `
CREATE TABLE t (id INTEGER PRIMARY KEY, v, pad);
CREATE INDEX t_v ON t (v);
CREATE TABLE w (k TEXT PRIMARY KEY, v) WITHOUT ROWID;
WITH RECURSIVE n(i) AS (SELECT 1 UNION ALL SELECT i+1 FROM n WHERE i<40)
INSERT INTO t SELECT i, 'v'||(i%7), substr('pppppppppppppppppppppppppppppppppppppppppppppppppppppppppppppppppppppppp', 1, 10+i%60) FROM n;
INSERT INTO w VALUES ('a', 1), ('b', 2), ('c', 3);
`

func c09Txns() []c09Txn {
	bulk := `WITH RECURSIVE n(i) AS (SELECT 1000 UNION ALL SELECT i+1 FROM n WHERE i<1120) INSERT INTO t SELECT i, 'bulk'||(i%5), 'xxxxxxxxxxxxxxxxxxxxxxxxxxxxxxxxxxxxxxxxxxxxxxxxxxxxxxxxxxxxxxxxxxxxxxxxxxxxxxxxxxxxxxxxxxxxxxxxxxxxxxxxxxxxxx'||i FROM n`
	return []c09Txn{
		{"small-update", "", "", `BEGIN; UPDATE t SET v = 'changed' WHERE id IN (3, 17); DELETE FROM w WHERE k = 'b'; INSERT INTO w VALUES ('z', 26); COMMIT`, false},
		{"spill", "", "PRAGMA cache_size=1", `BEGIN; ` + bulk + `; UPDATE t SET v = 'u' WHERE id < 20; COMMIT`, false},
		{"grow", "", "", `BEGIN; ` + bulk + `; COMMIT`, false},
		{"autovacuum-truncate", "", "PRAGMA cache_size=2", `BEGIN; DELETE FROM t WHERE id > 5; COMMIT`, false},
		{"schema-change", "", "", `BEGIN; CREATE TABLE n (a, b); INSERT INTO n VALUES (1, 2); DROP INDEX t_v; ALTER TABLE t ADD COLUMN extra DEFAULT 'd'; COMMIT`, false},
		{"rollback", "", "PRAGMA cache_size=1", `BEGIN; ` + bulk + `; ROLLBACK`, false},
		{"tiny", "", "", `UPDATE w SET v = 9 WHERE k = 'a'`, false},
		{"two-page-db", `CREATE TABLE m (a); INSERT INTO m VALUES (1);`, "", `UPDATE m SET a = 2`, true},
		// the first transaction ever on a file of 0 bytes: nothing to journal (page count 0, initial size 0); recovery = truncate to nothing
		{"first-transaction-on-empty-file", "", "", `BEGIN; CREATE TABLE first (a, b); CREATE INDEX first_b ON first (b); INSERT INTO first VALUES (1, 'x'), (2, 'y'), (3, 'z'); COMMIT`, true},
		{"first-transaction-on-empty-file-spill", "", "PRAGMA cache_size=1", `BEGIN; CREATE TABLE first (a, b); WITH RECURSIVE n(i) AS (SELECT 1 UNION ALL SELECT i+1 FROM n WHERE i<150) INSERT INTO first SELECT i, 'xxxxxxxxxxxxxxxxxxxxxxxxxxxxxxxxxxxxxxxxxxxxxxxxxxxxxxxxxxxxxxxxxxxxxxxxxxxxxxxxxxxxxxxxxxxx'||i FROM n; COMMIT`, true},
		// a writer that never syncs (synchronous=OFF) writes the journal header once, with the record count
		// 0xFFFFFFFF: "as many records as the file holds"
		{"small-update-sync-off", "", "PRAGMA synchronous=OFF", `BEGIN; UPDATE t SET v = 'changed' WHERE id IN (3, 17); DELETE FROM w WHERE k = 'b'; COMMIT`, false},
		{"spill-sync-off", "", "PRAGMA synchronous=OFF; PRAGMA cache_size=1", `BEGIN; UPDATE t SET v = 'u' WHERE id < 30; INSERT INTO w VALUES ('y', 25); COMMIT`, false},
		// journals of 1..27 bytes after a completed commit (journal_size_limit below the header size)
		{"size-limit-16", "", "PRAGMA journal_size_limit=16; PRAGMA cache_size=1", `BEGIN; UPDATE t SET v = 'limited' WHERE id < 25; COMMIT`, false},
		{"size-limit-1", "", "PRAGMA journal_size_limit=1", `UPDATE w SET v = 5 WHERE k = 'c'`, false},
		{"size-limit-27-exclusive", "", "PRAGMA journal_size_limit=27; PRAGMA locking_mode=EXCLUSIVE", `BEGIN; UPDATE t SET v = 'excl' WHERE id = 3; COMMIT`, false},
	}
}

type c09Config struct {
	txn    c09Txn
	mode   string
	ps     int
	sector int
	autov  bool
}

func (c c09Config) String() string {
	return fmt.Sprintf("%s/%s/page%d/sector%d", c.txn.name, c.mode, c.ps, c.sector)
}

type c09Files struct {
	db      []byte
	journal []byte
	hasJ    bool
}

func (f *c09Files) apply(op lite.VfsOp, torn int) {
	target := &f.db
	if op.Kind == 1 {
		target = &f.journal
	}
	switch op.Op {
	case 'O':
		if op.Kind == 1 {
			f.hasJ = true
			f.journal = nil
		}
	case 'D':
		if op.Kind == 1 {
			f.hasJ = false
			f.journal = nil
		}
	case 'T':
		if int64(len(*target)) > op.Off {
			*target = (*target)[:op.Off]
		} else {
			for int64(len(*target)) < op.Off {
				*target = append(*target, 0)
			}
		}
	case 'W':
		data := op.Data
		if torn >= 0 && torn < len(data) {
			data = data[:torn]
		}
		end := op.Off + int64(len(data))
		for int64(len(*target)) < end {
			*target = append(*target, 0)
		}
		copy((*target)[op.Off:], data)
		if op.Kind == 1 {
			f.hasJ = true
		}
	}
}

var c09RecordMu sync.Mutex

// record one transaction under the logging VFS
func c09Record(dir string, cfg c09Config) (b0 []byte, ops []lite.VfsOp, endDB, endJ []byte, endHasJ bool, err error) {
	c09RecordMu.Lock()
	defer c09RecordMu.Unlock()
	if err = lite.VfsLogRegister(); err != nil {
		return
	}
	path := filepath.Join(dir, "rec.sqlite")
	os.Remove(path)
	os.Remove(path + "-journal")
	l, err := lite.Open(path, "")
	if err != nil {
		return
	}
	av := ""
	if cfg.autov {
		av = "PRAGMA auto_vacuum=FULL;"
	}
	setup := c09Setup
	if cfg.txn.bare {
		setup = ""
	}
	if err = l.Exec(fmt.Sprintf("PRAGMA page_size=%d; %s %s %s", cfg.ps, av, setup, cfg.txn.setup)); err != nil {
		l.Close()
		return
	}
	l.Close()
	b0, _ = os.ReadFile(path)
	// the pager asks for the sector size when the file is opened
	lite.VfsLogStart(cfg.sector)
	lite.VfsLogStop()
	l, err = lite.Open(path, "vfslog")
	if err != nil {
		return
	}
	defer l.Close()
	if len(b0) == 0 {
		// nothing is stored yet, the page size included
		if err = l.Exec(fmt.Sprintf("PRAGMA page_size=%d", cfg.ps)); err != nil {
			return
		}
	}
	if _, err = l.Query("PRAGMA journal_mode=" + cfg.mode); err != nil {
		return
	}
	if cfg.txn.pre != "" {
		if err = l.Exec(cfg.txn.pre); err != nil {
			return
		}
	}
	// make sure the connection has read the schema (no reads are logged, but keep the log to the transaction)
	l.Query("SELECT count(*) FROM sqlite_master")
	lite.VfsLogStart(cfg.sector)
	err = l.Exec(cfg.txn.sql)
	ops = lite.VfsLogStop()
	if err != nil {
		return
	}
	endDB, _ = os.ReadFile(path)
	if j, e := os.ReadFile(path + "-journal"); e == nil {
		endJ, endHasJ = j, true
	}
	return
}

func runC09(r *ev.Run) {
	r.Rule = "real SQLite write transactions (one-row autocommit update, small update, spilling bulk insert with cache_size=1, file-growing insert, delete with auto-vacuum truncation, schema change, spilled rollback, the first transaction ever on a file of 0 bytes, a writer with synchronous=OFF whose journal header carries the record count 0xFFFFFFFF) recorded under a logging VFS, journal modes DELETE/TRUNCATE/PERSIST, page sizes {512 (+1024, 4096 thorough)}, sector sizes {512, 4096}; for the log of N file operations: every prefix 0..N (the writer process dies before operation k; completed system calls persist) and for every write its torn variants (first 512 bytes, first half rounded to 512; for small writes every 4-byte prefix); oracle: real SQLite opens a copy of the pair, performs its own recovery and dumps it; sqlittle on the original either fails or returns exactly that dump; every image is read by a fresh handle (operation boundaries: also one that opens the file through a symbolic link, by a relative name, and through `link/../name` behind a symbolically linked directory) and by handles opened before the writer started (one of them by a relative name in a process that changes its working directory afterwards, one that read next to a cold journal file which was removed before the dead writer made its own, one in a process that has used up its file descriptors when it reads): one that read everything, one that was only opened, one that only listed the tables, (operation boundaries) one that was refused a read once while another process held EXCLUSIVE, and a fresh handle while another process is in the middle of a read; from the commit point on (journal deleted / truncated / header zeroed) and before the first operation it must succeed. conformance: replaying the whole log reproduces the files the real run left behind, byte for byte. non-trivial = images with a journal on disk"
	dir := ev.TmpDir("c09")
	defer os.RemoveAll(dir)
	c09Peers = make(chan *Peer, 8)
	for i := 0; i < cap(c09Peers); i++ {
		p, err := StartPeer()
		if err != nil {
			r.Harness("peer: %v", err)
			return
		}
		defer p.Stop()
		c09Peers <- p
	}
	txns := c09Txns()
	var cfgs []c09Config
	modes := []string{"DELETE", "TRUNCATE", "PERSIST"}
	if r.Thorough() {
		for _, t := range txns {
			for _, m := range modes {
				for _, ps := range []int{512, 1024, 4096} {
					for _, sec := range []int{512, 4096} {
						cfgs = append(cfgs, c09Config{txn: t, mode: m, ps: ps, sector: sec, autov: t.name == "autovacuum-truncate"})
					}
				}
			}
		}
	} else {
		for _, t := range txns {
			for _, m := range modes {
				if (t.name == "grow" || t.name == "schema-change" || t.name == "rollback" || t.name == "tiny" || t.name == "two-page-db") && m != "DELETE" {
					continue
				}
				if t.name == "small-update-sync-off" && m != "DELETE" || t.name == "spill-sync-off" && m == "TRUNCATE" {
					continue
				}
				if strings.HasPrefix(t.name, "size-limit") && m != "PERSIST" && !(t.name == "size-limit-27-exclusive" && m == "DELETE") {
					continue
				}
				cfgs = append(cfgs, c09Config{txn: t, mode: m, ps: 512, sector: 512, autov: t.name == "autovacuum-truncate"})
			}
		}
		cfgs = append(cfgs, c09Config{txn: txns[1], mode: "DELETE", ps: 1024, sector: 4096}, c09Config{txn: txns[0], mode: "PERSIST", ps: 4096, sector: 4096},
			c09Config{txn: txns[0], mode: "DELETE", ps: 512, sector: 4096}, c09Config{txn: txns[6], mode: "DELETE", ps: 512, sector: 4096}, c09Config{txn: txns[6], mode: "PERSIST", ps: 1024, sector: 4096},
			c09Config{txn: txns[7], mode: "DELETE", ps: 512, sector: 4096}, c09Config{txn: txns[7], mode: "DELETE", ps: 512, sector: 512})
	}
	// every other legal page size (65536 is the one whose header field cannot hold it: 1 in the database header, the
	// number itself in the journal header)
	for _, ps := range []int{2048, 8192, 16384, 32768, 65536} {
		cfgs = append(cfgs, c09Config{txn: txns[0], mode: "DELETE", ps: ps, sector: 512})
		if r.Thorough() || ps == 65536 {
			cfgs = append(cfgs, c09Config{txn: txns[1], mode: "PERSIST", ps: ps, sector: 4096})
		}
	}
	r.Set("configurations", len(cfgs))
	for ci, cfg := range cfgs {
		b0, ops, endDB, endJ, endHasJ, err := c09Record(dir, cfg)
		if err != nil {
			r.Harness("C09 record %s: %v", cfg, err)
			continue
		}
		// conformance: the replay of the whole log is what the real run left behind
		full := &c09Files{db: append([]byte{}, b0...)}
		for _, op := range ops {
			full.apply(op, -1)
		}
		if !bytes.Equal(full.db, endDB) || full.hasJ != endHasJ || (endHasJ && !bytes.Equal(full.journal, endJ)) {
			r.Harness("C09 %s: replaying the recorded log does not reproduce the real files (db %d vs %d bytes, journal %v/%d vs %v/%d)", cfg, len(full.db), len(endDB), full.hasJ, len(full.journal), endHasJ, len(endJ))
			continue
		}
		r.Validated(1)
		// the commit point
		commit := -1
		for i, op := range ops {
			if op.Kind != 1 {
				continue
			}
			if op.Op == 'D' || (op.Op == 'T' && op.Off == 0) || (op.Op == 'W' && op.Off == 0 && len(op.Data) <= 28 && bytes.Equal(op.Data, make([]byte, len(op.Data)))) {
				commit = i
			}
		}
		rollbackTxn := cfg.txn.name == "rollback"
		// crash images
		type image struct {
			k    int
			torn int
		}
		var images []image
		for k := 0; k <= len(ops); k++ {
			images = append(images, image{k, -1})
			if k < len(ops) && ops[k].Op == 'W' {
				n := len(ops[k].Data)
				seen := map[int]bool{}
				add := func(t int) {
					if t > 0 && t < n && !seen[t] {
						seen[t] = true
						images = append(images, image{k, t})
					}
				}
				if n > 512 {
					add(512)
					add((n / 2) / 512 * 512)
					add(n - 512)
				} else {
					for t := 4; t < n && t <= 28; t += 4 {
						add(t)
					}
					add(n / 2 / 4 * 4)
				}
			}
		}
		r.Set(fmt.Sprintf("ops[%s]", cfg), len(ops))
		opsS := make([]string, 0, len(ops))
		for _, op := range ops {
			opsS = append(opsS, op.String())
		}
		if ci == 1 {
			r.Sample(map[string]interface{}{"config": cfg.String(), "operations": clip(opsS), "n_operations": len(ops), "commit_point_op": commit})
		}
		// build prefix states incrementally, then fan out
		states := make([]c09Files, len(ops)+1)
		cur := c09Files{db: append([]byte{}, b0...)}
		for k := 0; k <= len(ops); k++ {
			states[k] = c09Files{db: append([]byte{}, cur.db...), journal: append([]byte{}, cur.journal...), hasJ: cur.hasJ}
			if k < len(ops) {
				cur.apply(ops[k], -1)
			}
		}
		ev.Parallel(len(images), func(ii int) {
			im := images[ii]
			f := c09Files{db: append([]byte{}, states[im.k].db...), journal: append([]byte{}, states[im.k].journal...), hasJ: states[im.k].hasJ}
			desc := fmt.Sprintf("writer dies before operation %d of %d", im.k, len(ops))
			if im.torn >= 0 {
				f.apply(ops[im.k], im.torn)
				desc = fmt.Sprintf("writer dies during operation %d of %d (%s): only the first %d bytes reach the file", im.k, len(ops), ops[im.k], im.torn)
			}
			mustSucceed := im.torn < 0 && ((im.k == 0 && len(b0) > 0) || (commit >= 0 && im.k > commit) || (rollbackTxn && im.k == len(ops)))
			c09Image(r, dir, fmt.Sprintf("c%d-i%d", ci, ii), cfg, &f, desc, mustSucceed, im.k, opsS, nil)
			// the same pair seen by a handle that was opened (and used) before the writer started
			c09Image(r, dir, fmt.Sprintf("c%d-l%d", ci, ii), cfg, &f, desc, mustSucceed, im.k, opsS, b0)
			// ... opened before but never used (only the header is remembered), or used for the table list only
			c09ImageKind(r, dir, fmt.Sprintf("c%d-o%d", ci, ii), cfg, &f, desc, mustSucceed, im.k, opsS, b0, "opened-only")
			c09ImageKind(r, dir, fmt.Sprintf("c%d-s%d", ci, ii), cfg, &f, desc, mustSucceed, im.k, opsS, b0, "schema-only")
			if im.torn < 0 {
				// a fresh handle that opens the file by another of its names
				for _, kind := range []string{"fresh-by-symlink", "fresh-by-relative-name", "fresh-by-dotdot-behind-a-symlinked-directory"} {
					c09ImageKind(r, dir, fmt.Sprintf("c%d-n%d", ci, ii), cfg, &f, desc, mustSucceed, im.k, opsS, nil, kind)
				}
				// ... or read next to a cold journal file that has been removed since (the dead writer's journal is another file of the same name)
				c09ImageKind(r, dir, fmt.Sprintf("c%d-j%d", ci, ii), cfg, &f, desc, mustSucceed, im.k, opsS, b0, "saw-a-cold-journal")
				// ... or a handle in a process that has no file descriptor left when it reads (the journal cannot be opened:
				// that is no reason to take it for absent)
				if ii%4 == 0 {
					c09ImageKind(r, dir, fmt.Sprintf("c%d-f%d", ci, ii), cfg, &f, desc, false, im.k, opsS, b0, "out-of-file-descriptors")
				}
				// ... or a handle opened by a relative name in a process that changes its working directory afterwards
				c09ImageKind(r, dir, fmt.Sprintf("c%d-w%d", ci, ii), cfg, &f, desc, mustSucceed, im.k, opsS, b0, "relative-name-then-chdir")
				// ... or was refused a read once (another process held the EXCLUSIVE lock), then read fine
				c09ImageKind(r, dir, fmt.Sprintf("c%d-r%d", ci, ii), cfg, &f, desc, mustSucceed, im.k, opsS, b0, "refused-before")
				// ... and a fresh handle while ANOTHER process is in the middle of a read (holds SHARED): the dead
				// writer's journal is as hot as ever
				c09ImageKind(r, dir, fmt.Sprintf("c%d-x%d", ci, ii), cfg, &f, desc, mustSucceed, im.k, opsS, b0, "fresh-with-another-reader")
			}
		})
	}
}

// peers (other processes) that can hold SQLite's EXCLUSIVE lock on a file of this process
var c09Peers chan *Peer

func c09Image(r *ev.Run, dir, name string, cfg c09Config, f *c09Files, desc string, mustSucceed bool, k int, opsS []string, before []byte) {
	c09ImageKind(r, dir, name, cfg, f, desc, mustSucceed, k, opsS, before, "long-lived")
}

// kind (with before != nil): what the handle did before the writer started: "long-lived" read everything,
// "opened-only" nothing (Open remembers the header), "schema-only" listed the tables
func c09ImageKind(r *ev.Run, dir, name string, cfg c09Config, f *c09Files, desc string, mustSucceed bool, k int, opsS []string, before []byte, kind string) {
	if kind == "relative-name-then-chdir" || kind == "out-of-file-descriptors" {
		c09Chdir(r, dir, name, cfg, f, desc, mustSucceed, k, opsS, before, kind)
		return
	}
	// the journal is found by name: vary the database file's name (extension, dots, none)
	exts := []string{".sqlite", ".db", "", ".a.b", "-journal.sqlite", ".SQLITE", ".sqlite3"}
	ext := exts[(k+len(name))%len(exts)]
	orig := filepath.Join(dir, name+ext)
	cp := filepath.Join(dir, name+"-copy"+ext)
	defer func() {
		for _, p := range []string{orig, cp} {
			os.Remove(p)
			os.Remove(p + "-journal")
		}
	}()
	var long *Env
	var otherReader *Peer
	defer func() {
		if otherReader != nil {
			otherReader.Do("lrelease")
			c09Peers <- otherReader
		}
	}()
	handle := "fresh"
	// the name the file is opened by is an input too: SQLite names the journal after the file itself (symbolic
	// links followed, made absolute when the file is opened), whatever name the caller used
	openName := orig
	if before == nil && kind != "" {
		handle = kind
		switch kind {
		case "fresh-by-symlink":
			openName = filepath.Join(dir, name+"-link"+ext)
			os.Symlink(orig, openName)
			defer os.Remove(openName)
		case "fresh-by-relative-name":
			if cwd, err := os.Getwd(); err == nil {
				if rel, err := filepath.Rel(cwd, orig); err == nil {
					openName = rel
				}
			}
		case "fresh-by-dotdot-behind-a-symlinked-directory":
			// <dir>/<name>-d/x/y is a directory, <dir>/<name>-s a link to it: <name>-s/../f is <name>-d/x/f
			deep := filepath.Join(dir, name+"-d", "x", "y")
			os.MkdirAll(deep, 0o755)
			defer os.RemoveAll(filepath.Join(dir, name+"-d"))
			lnk := filepath.Join(dir, name+"-s")
			os.Symlink(deep, lnk)
			defer os.Remove(lnk)
			orig = filepath.Join(dir, name+"-d", "x", name+ext)
			openName = lnk + "/../" + name + ext
		}
	}
	if before != nil && len(before) == 0 {
		return // no handle can have been opened on a file of 0 bytes
	}
	if before != nil {
		// a long-lived handle: opened and read on the state before the transaction
		handle = kind
		os.WriteFile(orig, before, 0o644)
		var err error
		long, err = OpenEnv(orig)
		if err != nil {
			r.Harness("C09 open before: %v", err)
			return
		}
		defer func() {
			if long != nil {
				long.H.Close()
			}
		}()
		if kind == "fresh-with-another-reader" {
			long.H.Close()
			long = nil
			otherReader = <-c09Peers
			if st, _ := otherReader.Do("lhold " + orig); st != "ok" {
				otherReader.Do("lrelease")
				c09Peers <- otherReader
				otherReader = nil
			}
		}
		switch kind {
		case "saw-a-cold-journal":
			// a journal file left behind by an earlier PERSIST / TRUNCATE connection lies there, cold, while the handle
			// reads; a later commit in DELETE mode removes it; the dead writer's journal is a NEW file of that name
			os.WriteFile(orig+"-journal", make([]byte, 1024), 0o644)
			_, err := LittleDump(long.H, long.D)
			os.Remove(orig + "-journal")
			if err != nil {
				r.Harness("C09 read next to a cold journal: %v", err)
				return
			}
		case "long-lived":
			if _, err := LittleDump(long.H, long.D); err != nil {
				r.Harness("C09 read before: %v", err)
				return
			}
		case "refused-before":
			p := <-c09Peers
			st, _ := p.Do("open " + orig)
			if st == "ok" {
				st, _ = p.Do("exec BEGIN EXCLUSIVE")
			}
			if st == "ok" {
				LittleDump(long.H, long.D) // refused (what it returns is C07's business)
				p.Do("exec ROLLBACK")
			}
			p.Do("close")
			c09Peers <- p
			os.Remove(orig + "-journal")
			if _, err := LittleDump(long.H, long.D); err != nil {
				r.Harness("C09 read after the refused read: %v", err)
				return
			}
		case "schema-only":
			if err := long.D.RLock(); err == nil {
				_, err = long.D.Tables()
				long.D.RUnlock()
				if err != nil {
					r.Harness("C09 tables before: %v", err)
					return
				}
			}
		}
		// the writer's file operations happen in place (same inode)
		fh, err := os.OpenFile(orig, os.O_WRONLY, 0)
		if err != nil {
			r.Harness("C09 rewrite: %v", err)
			return
		}
		fh.WriteAt(f.db, 0)
		fh.Truncate(int64(len(f.db)))
		fh.Close()
	} else {
		os.WriteFile(orig, f.db, 0o644)
	}
	os.WriteFile(cp, f.db, 0o644)
	if f.hasJ {
		os.WriteFile(orig+"-journal", f.journal, 0o644)
		os.WriteFile(cp+"-journal", f.journal, 0o644)
	}
	r.Eval(1)
	if f.hasJ {
		r.NontrivialN(1)
	}
	r.StateBytes(append(append([]byte{}, f.db...), f.journal...))
	from := k - 3
	if from < 0 {
		from = 0
	}
	art := map[string]interface{}{"config": cfg.String(), "crash": desc, "handle": handle, "journal_bytes": len(f.journal), "journal_exists": f.hasJ, "db_bytes": len(f.db), "operations_before": opsS[from:k]}
	// the oracle: SQLite's own recovery on the copy
	var want string
	sqliteOK := false
	if l, err := lite.Open(cp, ""); err == nil {
		if d, err := LiteDump(l); err == nil {
			want = d.String()
			sqliteOK = true
		}
		l.Close()
	}
	// sqlittle on the pair as the dead writer left it
	var got string
	var gerr error
	if p := Safely(func() {
		e := long
		if e == nil {
			var err error
			e, err = OpenEnv(openName)
			if err != nil {
				gerr = err
				return
			}
			defer e.H.Close()
		}
		d, err := LittleDump(e.H, e.D)
		if err != nil {
			gerr = err
			return
		}
		got = d.String()
	}); p != nil {
		r.Violation("C09:panic", fmt.Sprintf("%s, %s: reading panics: %v", cfg, desc, p), art)
		return
	}
	r.Trans(1)
	if gerr != nil {
		r.Outcome("refused")
		if mustSucceed {
			r.Violation("C09:refused-after-commit:"+cfg.mode+":"+handle, fmt.Sprintf("%s, %s: the transaction is complete (or has not started) but reading fails: %v", cfg, desc, gerr), art)
		}
		return
	}
	r.Outcome("read")
	if !sqliteOK {
		// SQLite itself cannot read the copy (does not happen for process-death images): nothing to compare with
		r.Outcome("sqlite-cannot-read")
		return
	}
	r.Validated(1)
	if got != want {
		r.Violation("C09:unrecovered-data:"+cfg.mode+":"+handle, fmt.Sprintf("%s, %s (%s handle): sqlittle reads content that differs from what SQLite reports after its recovery: %s", cfg, desc, handle, firstLineDiff(got, want)), art)
	}
}

// c09Chdir: the handle lives in another process (a working directory belongs to a process): it is opened by
// a relative name on the state before the transaction and lists the tables; the process changes its working
// directory; the dead writer's files appear; the handle reads. SQLite makes the journal's name absolute when
// the file is opened.
func c09Chdir(r *ev.Run, dir, name string, cfg c09Config, f *c09Files, desc string, mustSucceed bool, k int, opsS []string, before []byte, handle string) {
	if len(before) == 0 {
		return
	}
	sub := filepath.Join(dir, name+"-wd")
	os.MkdirAll(sub, 0o755)
	defer os.RemoveAll(sub)
	orig := filepath.Join(sub, "db.sqlite")
	cp := filepath.Join(sub, "copy.sqlite")
	os.WriteFile(orig, before, 0o644)
	p := <-c09Peers
	defer func() {
		p.Do("freefds")
		p.Do("eclose")
		p.Do("chdir /")
		c09Peers <- p
	}()
	if st, rest := p.Do("chdir " + sub); st != "ok" {
		r.Harness("C09 chdir: %s", rest)
		return
	}
	if st, rest := p.Do("eopen db.sqlite"); st != "ok" {
		r.Harness("C09 open by relative name: %s", rest)
		return
	}
	if st, rest := p.Do("etables"); st != "ok" {
		r.Harness("C09 tables before: %s", rest)
		return
	}
	p.Do("chdir /")
	fh, err := os.OpenFile(orig, os.O_WRONLY, 0)
	if err != nil {
		r.Harness("C09 rewrite: %v", err)
		return
	}
	fh.WriteAt(f.db, 0)
	fh.Truncate(int64(len(f.db)))
	fh.Close()
	os.WriteFile(cp, f.db, 0o644)
	if f.hasJ {
		os.WriteFile(orig+"-journal", f.journal, 0o644)
		os.WriteFile(cp+"-journal", f.journal, 0o644)
	}
	r.Eval(1)
	r.Trans(1)
	if f.hasJ {
		r.NontrivialN(1)
	}
	from := k - 3
	if from < 0 {
		from = 0
	}
	art := map[string]interface{}{"config": cfg.String(), "crash": desc, "handle": handle, "journal_bytes": len(f.journal), "journal_exists": f.hasJ, "db_bytes": len(f.db), "operations_before": opsS[from:k]}
	var want string
	sqliteOK := false
	if l, err := lite.Open(cp, ""); err == nil {
		if d, err := LiteDump(l); err == nil {
			want = d.String()
			sqliteOK = true
		}
		l.Close()
	}
	if handle == "out-of-file-descriptors" {
		p.Do("eatfds")
	}
	st, got := p.Do("edump")
	if handle == "out-of-file-descriptors" {
		p.Do("freefds")
	}
	if st != "ok" {
		r.Outcome("refused")
		if mustSucceed {
			r.Violation("C09:refused-after-commit:"+cfg.mode+":"+handle, fmt.Sprintf("%s, %s: the transaction is complete (or has not started) but reading fails: %s", cfg, desc, got), art)
		}
		return
	}
	r.Outcome("read")
	if !sqliteOK {
		r.Outcome("sqlite-cannot-read")
		return
	}
	r.Validated(1)
	if got != want {
		r.Violation("C09:unrecovered-data:"+cfg.mode+":"+handle, fmt.Sprintf("%s, %s (%s handle): sqlittle reads content that differs from what SQLite reports after its recovery: %s", cfg, desc, handle, firstLineDiff(got, want)), art)
	}
}
