package checks

// C16 — The SQL parser is total, deterministic and local in what it reports.
// Kind S over programs: every short string over a character alphabet, every
// short token sequence, and every ordered pair/triple of column definitions,
// indexed columns and table constraints.

import (
	"fmt"
	"os"
	"reflect"
	"strings"
	"sync"
	"sync/atomic"
	"time"

	"verif/internal/ev"
	"verif/internal/lite"

	"github.com/alicebob/sqlittle/sql"
)

func init() { Registry["C16"] = Check{Level: "model_checking", Fn: runC16} }

var c16Chars = []string{"a", "_", "é", "1", ".", "e", "x", "+", "-", "'", `"`, "`", "[", "]", "(", ")", ",", "*", " ", "\x80", "<", ">", "=", "|", "!", "/"}

var c16Tokens = []string{
	"CREATE", "TABLE", "INDEX", "UNIQUE", "SELECT", "FROM", "ON", "WHERE", "PRIMARY", "KEY", "NOT", "NULL", "DEFAULT", "COLLATE", "CHECK", "REFERENCES",
	"WITHOUT", "ROWID", "ASC", "DESC", "AUTOINCREMENT", "CONSTRAINT", "FOREIGN", "REPLACE", "CONFLICT", "DEFERRABLE", "INITIALLY", "DEFERRED", "DELETE", "SET", "AND", "IS",
	"t", "a", "éa", `"q"`, "[b]", "`c`", "'lit'", "'un", `"un`, "''''", "(", ")", ",", "*", "+", "-", "=", "||", "<>",
	"1", "9223372036854775807", "9223372036854775808", "0x10", "0xFFFFFFFFFFFFFFFF", "0x1FFFFFFFFFFFFFFFF", "1e999", "1e", "1.2.3", "1.5", ".", "1x",
}

// the watchdog: a parse that is "current" for longer than this is a hang.
// Fault-free cost is microseconds; the limit is wall time with > 10^6 slack.
const c16HangSeconds = 30

type c16Watch struct {
	cur   atomic.Value // string
	since atomic.Int64 // serial number of the call in progress
	// the watchdog's own view: which call it saw at its last tick, and for how many ticks in a row
	lastSeen int64
	ticks    int
}

var c16Serial atomic.Int64

var (
	c16WatchMu  sync.Mutex
	c16Watchers []*c16Watch
)

// newC16Watch makes a watch the hang watchdog looks at
func newC16Watch() *c16Watch {
	w := &c16Watch{}
	c16WatchMu.Lock()
	c16Watchers = append(c16Watchers, w)
	c16WatchMu.Unlock()
	return w
}

func (w *c16Watch) set(s string) {
	w.cur.Store(s)
	w.since.Store(c16Serial.Add(1))
}

func c16Parse(w *c16Watch, s string) (res interface{}, err error, panicked interface{}) {
	if w != nil {
		w.set(s)
	}
	defer func() {
		if p := recover(); p != nil {
			panicked = p
		}
		if w != nil {
			w.set("")
		}
	}()
	res, err = sql.Parse(s)
	return
}

func runC16(r *ev.Run) {
	r.Rule = "(i) every string of length <=5 (6 thorough) over a 26-symbol character alphabet taken from the tokenizer's branches (letters, digits, quotes, brackets, operator characters, an invalid byte), each parsed twice in a row; (i'') every string of length <=3 over all 100 characters (printable ASCII, tab, newline, NUL, an invalid byte, a non-ASCII letter), bare and as a column definition; (i') every operator string of length <=3 (4 thorough) over 12 operator characters inside 6 statement templates, each parsed 16 times (map iteration order is the one source of nondeterminism no scheduler controls); (ii) every token sequence of length <=4 (5 over a reduced alphabet, thorough) over a 63-token alphabet (each parsed twice in a row) incl. extreme numbers, unterminated and doubled quotes, multi-byte identifiers, and every one-token deletion/replacement/insertion of SQLite-valid CREATE statements; (iii) locality: an alphabet of column definitions, indexed columns and table constraints (all accepted by real SQLite), every ordered pair and triple (quadruple thorough) as one statement: what is reported for element i must equal what is reported for the same text as the only element; (iii') the same one level down: every ordered list of <=3 (4 thorough) column constraints of different kinds (primary key, unique, null, collate, default, check, references in 21 forms) on one column: the fields a constraint owns are reported as for that constraint alone; determinism: same result twice and after parsing any other statement of the alphabet, which includes 25 lexical corner cases (every quoting style, with and without a doubled quote, terminated and not, open comments, malformed numbers, invalid bytes) - for these also every ordered triple. oracle: returns (no panic, no hang), deep-equal results. non-trivial = inputs the parser accepts"
	w := newC16Watch()
	go func() {
		for {
			time.Sleep(2 * time.Second)
			c16WatchMu.Lock()
			all := append([]*c16Watch{}, c16Watchers...)
			c16WatchMu.Unlock()
			for _, ww := range all {
				// time is counted in ticks of this loop during which the SAME call was in progress: when the process or
				// the machine is stopped for a while (or the clock steps) that is one late tick, not half a minute of parsing
				s, _ := ww.cur.Load().(string)
				if id := ww.since.Load(); s == "" || id != ww.lastSeen {
					ww.lastSeen, ww.ticks = id, 0
					continue
				}
				ww.ticks++
				if ww.ticks*2 > c16HangSeconds {
					r.Violation("C16:hang", fmt.Sprintf("sql.Parse(%q) does not return within %d s", s, c16HangSeconds), map[string]interface{}{"input": s})
					os.Exit(r.Finish())
				}
			}
		}
	}()

	// ---- (i) strings over the character alphabet
	maxLen := 5
	if r.Thorough() {
		maxLen = 6
	}
	r.Set("string_max_len", maxLen)
	n := len(c16Chars)
	var accepted int64
	// shard by the first two symbols
	ev.Parallel(n*n, func(sh int) {
		lw := newC16Watch()
		first := []int{sh / n, sh % n}
		var rec func(prefix []int)
		count := 0
		rec = func(prefix []int) {
			var sb strings.Builder
			for _, c := range prefix {
				sb.WriteString(c16Chars[c])
			}
			s := sb.String()
			count++
			res, err, p := c16Twice(r, lw, s)
			if p != nil {
				r.Violation("C16:panic:string", fmt.Sprintf("sql.Parse(%q) panics: %v", s, p), map[string]interface{}{"input": s})
			} else if err == nil {
				atomic.AddInt64(&accepted, 1)
				_ = res
			}
			if len(prefix) < maxLen {
				for c := 0; c < n; c++ {
					rec(append(prefix, c))
				}
			}
		}
		rec(first)
		r.Eval(count)
		r.Trans(count)
	})
	for l := 0; l <= 1; l++ { // lengths 0 and 1
		if l == 0 {
			c16Parse(w, "")
		} else {
			for _, c := range c16Chars {
				if _, _, p := c16Parse(w, c); p != nil {
					r.Violation("C16:panic:string", fmt.Sprintf("sql.Parse(%q) panics: %v", c, p), map[string]interface{}{"input": c})
				}
			}
		}
	}
	// (i'') every string of length <= 3 over ALL printable ASCII characters plus tab, newline, NUL, an invalid byte
	// and a non-ASCII letter (a character class the tokenizer forgot must not loop or panic)
	var all []string
	for c := byte(0x20); c < 0x7f; c++ {
		all = append(all, string([]byte{c}))
	}
	all = append(all, "\t", "\n", "\x00", "\x80", "é")
	na := len(all)
	ev.Parallel(na*na, func(sh int) {
		lw := newC16Watch()
		pre := all[sh/na] + all[sh%na]
		count := 0
		for _, s := range append([]string{""}, all...) {
			for _, frame := range []string{"%s", "CREATE TABLE t (a, %s)"} {
				in := fmt.Sprintf(frame, pre+s)
				count++
				if _, _, p := c16Parse(lw, in); p != nil {
					r.Violation("C16:panic:string", fmt.Sprintf("sql.Parse(%q) panics: %v", in, p), map[string]interface{}{"input": in})
				}
			}
		}
		r.Eval(count)
		r.Trans(count)
	})
	r.Sample(map[string]interface{}{"family": "strings", "example": "a'(é", "alphabet": c16Chars})

	// ---- (ii) token sequences
	toks := c16Tokens
	maxTok := 4
	nt := len(toks)
	ev.Parallel(nt*nt, func(sh int) {
		lw := newC16Watch()
		count := 0
		var rec func(seq []int)
		rec = func(seq []int) {
			parts := make([]string, len(seq))
			for i, t := range seq {
				parts[i] = toks[t]
			}
			s := strings.Join(parts, " ")
			count++
			_, err, p := c16Twice(r, lw, s)
			if p != nil {
				r.Violation("C16:panic:tokens", fmt.Sprintf("sql.Parse(%q) panics: %v", s, p), map[string]interface{}{"input": s})
			} else if err == nil {
				atomic.AddInt64(&accepted, 1)
				r.Nontrivial(s)
			}
			if len(seq) < maxTok {
				for t := 0; t < nt; t++ {
					rec(append(seq, t))
				}
			}
		}
		rec([]int{sh / nt, sh % nt})
		r.Eval(count)
		r.Trans(count)
	})
	if r.Thorough() {
		// length 5 over a reduced alphabet (the keywords that start or continue a statement + one of each token class)
		red := []string{"CREATE", "TABLE", "INDEX", "UNIQUE", "SELECT", "FROM", "ON", "PRIMARY", "KEY", "NOT", "NULL", "DEFAULT", "COLLATE", "WITHOUT", "ROWID", "DESC", "t", "éa", `"q"`, "'lit'", "(", ")", ",", "*", "-", "1", "0x10", "1.5", "1e", "'un"}
		nr := len(red)
		ev.Parallel(nr*nr, func(sh int) {
			lw := newC16Watch()
			count := 0
			var rec func(seq []int)
			rec = func(seq []int) {
				if len(seq) == 5 {
					parts := make([]string, 5)
					for i, t := range seq {
						parts[i] = red[t]
					}
					s := strings.Join(parts, " ")
					count++
					if _, _, p := c16Parse(lw, s); p != nil {
						r.Violation("C16:panic:tokens", fmt.Sprintf("sql.Parse(%q) panics: %v", s, p), map[string]interface{}{"input": s})
					}
					return
				}
				for t := 0; t < nr; t++ {
					rec(append(seq, t))
				}
			}
			rec([]int{sh / nr, sh % nr})
			r.Eval(count)
			r.Trans(count)
		})
	}
	r.Sample(map[string]interface{}{"family": "tokens", "example": "CREATE TABLE éa ( 0x1FFFFFFFFFFFFFFFF", "alphabet_size": nt})

	c16Operators(r)
	c16Edits(r, w)
	c16Locality(r, w)
	c16ConstraintLocality(r, w)
	r.Set("accepted_inputs", accepted)
}

// c16Same: two results of parsing the same string are the same result
func c16Same(r1 interface{}, e1 error, r2 interface{}, e2 error) bool {
	if (e1 == nil) != (e2 == nil) {
		return false
	}
	if e1 != nil {
		return e1.Error() == e2.Error()
	}
	return reflect.DeepEqual(r1, r2)
}

// c16Twice parses s twice in a row and reports a difference as a violation
func c16Twice(r *ev.Run, w *c16Watch, s string) (interface{}, error, interface{}) {
	res, err, p := c16Parse(w, s)
	if p != nil {
		return res, err, p
	}
	res2, err2, p2 := c16Parse(w, s)
	if p2 != nil {
		return res2, err2, p2
	}
	if !c16Same(res, err, res2, err2) {
		r.Violation("C16:nondeterministic:repeat", fmt.Sprintf("sql.Parse(%q) twice in a row: first %v / %v, then %v / %v", s, res, err, res2, err2), map[string]interface{}{"input": s})
	}
	return res, err, nil
}

// c16Operators: every string of length <= n over the operator characters, as the operator of an
// expression in four statement templates (with and without surrounding blanks), each parsed 16 times:
// one result. Iteration order of a Go map is the one source of nondeterminism a parser can
// have without any shared state; it is not controllable, hence the repetitions.
func c16Operators(r *ev.Run) {
	chars := []string{"+", "-", "*", "/", "%", "<", ">", "=", "!", "|", "&", "~"}
	maxLen := 3
	if r.Thorough() {
		maxLen = 4
	}
	var ops []string
	var rec func(cur string, n int)
	rec = func(cur string, n int) {
		if n > 0 {
			ops = append(ops, cur)
		}
		if n == maxLen {
			return
		}
		for _, c := range chars {
			rec(cur+c, n+1)
		}
	}
	rec("", 0)
	templates := []string{
		"CREATE INDEX i ON t (a %s b)",
		"CREATE INDEX i ON t (a%sb)",
		"CREATE INDEX i ON t (a) WHERE a %s 1",
		"CREATE TABLE t (a CHECK (a %s 1))",
		"CREATE TABLE t (a DEFAULT (1%s2), b)",
		"SELECT a FROM t WHERE a %s 'x'",
	}
	r.Set("operator_strings", len(ops))
	ev.Parallel(len(ops), func(i int) {
		lw := newC16Watch()
		for _, tpl := range templates {
			s := fmt.Sprintf(tpl, ops[i])
			res, err, p := c16Parse(lw, s)
			r.Eval(1)
			r.Trans(16)
			if p != nil {
				r.Violation("C16:panic:operators", fmt.Sprintf("sql.Parse(%q) panics: %v", s, p), map[string]interface{}{"input": s})
				continue
			}
			if err == nil {
				r.Nontrivial(s)
			}
			for k := 1; k < 16; k++ {
				res2, err2, p2 := c16Parse(lw, s)
				if p2 != nil {
					r.Violation("C16:panic:operators", fmt.Sprintf("sql.Parse(%q) panics: %v", s, p2), map[string]interface{}{"input": s})
					break
				}
				if !c16Same(res, err, res2, err2) {
					r.Violation("C16:nondeterministic:operators", fmt.Sprintf("sql.Parse(%q): parse 1 gives %v / %v, parse %d gives %v / %v", s, res, err, k+1, res2, err2), map[string]interface{}{"input": s})
					break
				}
			}
		}
	})
}

// tokens of a statement, split on spaces (the statements below are written
// with one space between tokens)
func c16ValidStatements() []string {
	return []string{
		`CREATE TABLE t ( a INTEGER PRIMARY KEY , b TEXT COLLATE NOCASE NOT NULL DEFAULT 'x' , c UNIQUE , UNIQUE ( b , c ) )`,
		`CREATE TABLE t ( a , b , PRIMARY KEY ( b DESC , a ) ) WITHOUT ROWID`,
		`CREATE TABLE "t" ( [a] INT ( 5 ) DEFAULT -1 CHECK ( a > 0 ) REFERENCES o ( x ) ON DELETE CASCADE , b DEFAULT NULL )`,
		`CREATE UNIQUE INDEX i ON t ( a COLLATE RTRIM DESC , b , a + 1 ) WHERE a > 3`,
		`CREATE INDEX i ON t ( lower ( a ) , b )`,
		`SELECT a , * , rowid FROM t`,
	}
}

func c16Edits(r *ev.Run, w *c16Watch) {
	count := 0
	for _, st := range c16ValidStatements() {
		toks := strings.Split(st, " ")
		try := func(parts []string) {
			s := strings.Join(parts, " ")
			count++
			if _, _, p := c16Parse(w, s); p != nil {
				r.Violation("C16:panic:edit", fmt.Sprintf("sql.Parse(%q) panics: %v", s, p), map[string]interface{}{"input": s})
			}
		}
		if _, err, _ := c16Parse(w, st); err != nil {
			r.Outcome("valid-statement-rejected")
		}
		for i := range toks {
			// delete
			try(append(append([]string{}, toks[:i]...), toks[i+1:]...))
			for _, t := range c16Tokens {
				// replace
				rep := append([]string{}, toks...)
				rep[i] = t
				try(rep)
				// insert
				ins := append(append(append([]string{}, toks[:i]...), t), toks[i:]...)
				try(ins)
				if r.Thorough() {
					for j := i + 1; j < len(toks) && j < i+4; j++ {
						rep2 := append([]string{}, rep...)
						rep2[j] = t
						try(rep2)
						try(append(append([]string{}, rep[:j]...), rep[j+1:]...))
					}
				}
			}
		}
	}
	r.Eval(count)
	r.Trans(count)
}

// ---------------------------------------------------------------- locality

var c16ColDefs = []string{
	`a`, `a INTEGER`, `a TEXT`, `a INT(5)`, `a VARCHAR(10, 2)`, `a PRIMARY KEY`, `a INTEGER PRIMARY KEY`, `a INTEGER PRIMARY KEY AUTOINCREMENT`, `a PRIMARY KEY DESC`,
	`a UNIQUE`, `a NOT NULL`, `a NULL`, `a COLLATE NOCASE`, `a TEXT COLLATE RTRIM UNIQUE`, `a DEFAULT 1`, `a DEFAULT 'x'`, `a DEFAULT NULL`, `a DEFAULT -2`,
	`a CHECK (a > 0)`, `a REFERENCES o(x)`, `a REFERENCES o(x) DEFERRABLE`, `a REFERENCES o(x) DEFERRABLE INITIALLY DEFERRED`, `a REFERENCES o(x) ON DELETE CASCADE`,
	`a REFERENCES o(x) ON DELETE SET NULL ON UPDATE NO ACTION`, `a NOT NULL DEFAULT 'q' COLLATE NOCASE`, `a UNIQUE NOT NULL`, `"a" TEXT`, `[a]`, "`a` INT", `éa TEXT`, `éa`,
	`"a""q" TEXT`, "`a``q`", "`a``q` INT UNIQUE", `[a q] COLLATE NOCASE`, `"a""q"`,
	// what opens or closes a comment outside quotes, inside a literal (and a real comment)
	`a DEFAULT '/*'`, `a DEFAULT '*/'`, `a DEFAULT '--'`, `a /* c */ TEXT`,
}

var c16IdxCols = []string{`a`, `a DESC`, `a ASC`, `a COLLATE NOCASE`, `a COLLATE RTRIM DESC`, `a COLLATE BINARY ASC`, `"a"`, `[a] DESC`, `a + 1`, `lower(a)`, `a COLLATE nocase`, `éa`}

var c16TblCons = []string{`PRIMARY KEY (a)`, `PRIMARY KEY (a DESC, b)`, `UNIQUE (a)`, `UNIQUE (b, a)`, `UNIQUE (a COLLATE NOCASE)`, `FOREIGN KEY (a) REFERENCES o(x)`,
	`FOREIGN KEY (a) REFERENCES o(x) ON DELETE CASCADE`, `CONSTRAINT cn UNIQUE (a DESC)`, `FOREIGN KEY (a) REFERENCES o(x) DEFERRABLE INITIALLY DEFERRED`, `UNIQUE (a) ON CONFLICT REPLACE`}

// rename the column "a" of an element to a distinct name so that several
// elements fit in one statement; returns text and the name used
func c16Rename(el string, i int) (string, string) {
	name := fmt.Sprintf("c%d", i)
	var out strings.Builder
	// replace the identifier a / "a" / [a] / `a` / éa at the start, and `(a ` inside CHECK
	repl := func(s, old, new string) string { return strings.Replace(s, old, new, 1) }
	switch {
	case strings.HasPrefix(el, `"a""q"`): // a doubled quote inside a quoted name, in every quoting style that has one
		el = repl(el, `"a""q"`, `"`+name+`""q"`)
		name += `"q`
	case strings.HasPrefix(el, "`a``q`"):
		el = repl(el, "`a``q`", "`"+name+"``q`")
		name += "`q"
	case strings.HasPrefix(el, `[a q]`):
		el = repl(el, `[a q]`, `[`+name+` q]`)
		name += " q"
	case strings.HasPrefix(el, `"a"`):
		el = repl(el, `"a"`, `"`+name+`"`)
	case strings.HasPrefix(el, `[a]`):
		el = repl(el, `[a]`, `[`+name+`]`)
	case strings.HasPrefix(el, "`a`"):
		el = repl(el, "`a`", "`"+name+"`")
	case strings.HasPrefix(el, `éa`):
		name = "é" + name
		el = repl(el, `éa`, name)
	case strings.HasPrefix(el, `a`):
		el = name + el[1:]
	}
	el = strings.Replace(el, "(a > 0)", "("+name+" > 0)", 1)
	out.WriteString(el)
	return out.String(), name
}

func c16Locality(r *ev.Run, w *c16Watch) {
	// the alphabet must be valid for real SQLite (property: "for every statement SQLite itself accepts")
	l, err := lite.OpenMem()
	if err != nil {
		r.Harness("lite: %v", err)
		return
	}
	defer l.Close()
	sqliteOK := func(stmt string) bool {
		l.Exec("DROP TABLE IF EXISTS t; DROP TABLE IF EXISTS o; CREATE TABLE o (x PRIMARY KEY);")
		return l.Exec(stmt) == nil
	}

	// --- column definitions
	single := map[string]*sql.ColumnDef{}
	for _, el := range c16ColDefs {
		txt, name := c16Rename(el, 0)
		// the element alone, with blanks around it so that nothing else touches it
		stmt := "CREATE TABLE t ( " + txt + " )"
		res, err, p := c16Parse(w, stmt)
		if p != nil {
			r.Violation("C16:panic:locality", fmt.Sprintf("sql.Parse(%q) panics: %v", stmt, p), nil)
			continue
		}
		if err != nil {
			r.Outcome("coldef-rejected")
			continue
		}
		ct, ok := res.(sql.CreateTableStmt)
		if !ok || len(ct.Columns) != 1 {
			if sqliteOK(stmt) {
				r.Violation("C16:local:coldef-count", fmt.Sprintf("%q: one column definition reported as %d columns", stmt, len(ct.Columns)), map[string]interface{}{"statement": stmt})
			}
			continue
		}
		c := ct.Columns[0]
		c.Checks = make([]sql.Expression, len(c.Checks)) // the CHECK text names the (renamed) column
		if !strings.EqualFold(c.Name, name) && sqliteOK(stmt) {
			r.Violation("C16:local:name", fmt.Sprintf("%q: column name reported as %q", stmt, c.Name), map[string]interface{}{"statement": stmt})
		}
		c.Name = ""
		single[el] = &c
	}
	maxK := 3
	if r.Thorough() {
		maxK = 4
	}
	var els []string
	for _, el := range c16ColDefs {
		if single[el] != nil {
			els = append(els, el)
		}
	}
	count := 0
	var tuples [][]int
	var gen func(cur []int)
	gen = func(cur []int) {
		if len(cur) >= 2 {
			tuples = append(tuples, append([]int{}, cur...))
		}
		if len(cur) < maxK {
			for i := range els {
				gen(append(cur, i))
			}
		}
	}
	gen(nil)
	var validated int64
	var mu = make(chan struct{}, 1)
	mu <- struct{}{}
	ev.Parallel(len(tuples), func(ti int) {
		tu := tuples[ti]
		lw := newC16Watch()
		var parts, names []string
		pk := 0
		for i, e := range tu {
			txt, name := c16Rename(els[e], i)
			if strings.Contains(txt, "PRIMARY KEY") {
				pk++
			}
			parts = append(parts, txt)
			names = append(names, name)
		}
		if pk > 1 {
			return // SQLite: more than one primary key
		}
		stmt := "CREATE TABLE t (" + strings.Join(parts, ", ") + ")"
		res, err, p := c16Parse(lw, stmt)
		atomic.AddInt64(&validated, 0)
		r.Eval(1)
		r.Trans(1)
		art := map[string]interface{}{"statement": stmt}
		if p != nil {
			r.Violation("C16:panic:locality", fmt.Sprintf("sql.Parse(%q) panics: %v", stmt, p), art)
			return
		}
		if err != nil {
			// each element alone is accepted; together they are rejected
			<-mu
			ok := sqliteOK(stmt)
			mu <- struct{}{}
			if ok {
				r.Violation("C16:local:combination-rejected", fmt.Sprintf("%q rejected (%v) although every column definition alone is accepted", stmt, err), art)
			}
			return
		}
		r.NontrivialN(1)
		ct, ok := res.(sql.CreateTableStmt)
		if !ok || len(ct.Columns) != len(tu) {
			<-mu
			sok := sqliteOK(stmt)
			mu <- struct{}{}
			if sok {
				r.Violation("C16:local:coldef-count", fmt.Sprintf("%q: %d column definitions reported as %d (SQLite accepts the statement)", stmt, len(tu), len(ct.Columns)), art)
			}
			return
		}
		for i, e := range tu {
			c := ct.Columns[i]
			gotName := c.Name
			c.Name = ""
			c.Checks = make([]sql.Expression, len(c.Checks))
			if !reflect.DeepEqual(&c, single[els[e]]) || !strings.EqualFold(gotName, names[i]) {
				<-mu
				sok := sqliteOK(stmt)
				mu <- struct{}{}
				if !sok {
					return
				}
				r.Violation("C16:local:coldef:"+c16DiffFields(&c, single[els[e]], gotName, names[i]),
					fmt.Sprintf("%q: column %d (%s) reported as %+v (name %q), alone it is %+v", stmt, i, parts[i], c, gotName, *single[els[e]]), art)
				return
			}
		}
	})
	count += len(tuples)
	r.Sample(map[string]interface{}{"family": "locality", "example": "CREATE TABLE t (c0 REFERENCES o(x) DEFERRABLE, c1 TEXT, c2 INTEGER PRIMARY KEY)", "column_defs": len(els), "tuples": len(tuples)})

	// --- indexed columns (CREATE INDEX and table constraints use the same rule)
	singleIx := map[string]*sql.IndexedColumn{}
	for _, el := range c16IdxCols {
		stmt := "CREATE INDEX i ON t ( " + el + " )"
		res, err, _ := c16Parse(w, stmt)
		if err != nil {
			continue
		}
		if ci, ok := res.(sql.CreateIndexStmt); ok && len(ci.IndexedColumns) == 1 {
			c := ci.IndexedColumns[0]
			singleIx[el] = &c
		}
	}
	var ixEls []string
	for _, el := range c16IdxCols {
		if singleIx[el] != nil {
			ixEls = append(ixEls, el)
		}
	}
	var ixTuples [][]int
	var genIx func(cur []int)
	genIx = func(cur []int) {
		if len(cur) >= 2 {
			ixTuples = append(ixTuples, append([]int{}, cur...))
		}
		if len(cur) < maxK {
			for i := range ixEls {
				genIx(append(cur, i))
			}
		}
	}
	genIx(nil)
	for _, tu := range ixTuples {
		var parts []string
		for _, e := range tu {
			parts = append(parts, ixEls[e])
		}
		for _, tmpl := range []string{"CREATE INDEX i ON t (%s)", "CREATE UNIQUE INDEX i ON t (%s) WHERE a > 1", "CREATE TABLE t (a, b, éa, UNIQUE (%s))"} {
			stmt := fmt.Sprintf(tmpl, strings.Join(parts, ", "))
			res, err, p := c16Parse(w, stmt)
			r.Eval(1)
			r.Trans(1)
			art := map[string]interface{}{"statement": stmt}
			if p != nil {
				r.Violation("C16:panic:locality", fmt.Sprintf("sql.Parse(%q) panics: %v", stmt, p), art)
				continue
			}
			if err != nil {
				continue
			}
			r.NontrivialN(1)
			var got []sql.IndexedColumn
			switch v := res.(type) {
			case sql.CreateIndexStmt:
				got = v.IndexedColumns
			case sql.CreateTableStmt:
				for _, c := range v.Constraints {
					if u, ok := c.(sql.TableUnique); ok {
						got = u.IndexedColumns
					}
				}
			}
			if len(got) != len(tu) {
				r.Violation("C16:local:idxcol-count", fmt.Sprintf("%q: %d indexed columns reported as %d", stmt, len(tu), len(got)), art)
				continue
			}
			for i, e := range tu {
				if !reflect.DeepEqual(&got[i], singleIx[ixEls[e]]) {
					r.Violation("C16:local:idxcol:"+c16IxDiff(&got[i], singleIx[ixEls[e]]), fmt.Sprintf("%q: indexed column %d (%s) reported as %+v, alone it is %+v", stmt, i, parts[i], got[i], *singleIx[ixEls[e]]), art)
					break
				}
			}
		}
	}

	// --- table constraints
	singleTc := map[string]interface{}{}
	for _, el := range c16TblCons {
		stmt := "CREATE TABLE t (a, b, " + el + " )"
		res, err, _ := c16Parse(w, stmt)
		if err != nil {
			continue
		}
		if ct, ok := res.(sql.CreateTableStmt); ok && len(ct.Constraints) == 1 {
			singleTc[el] = ct.Constraints[0]
		}
	}
	var tcEls []string
	for _, el := range c16TblCons {
		if singleTc[el] != nil {
			tcEls = append(tcEls, el)
		}
	}
	var tcTuples [][]int
	var genTc func(cur []int)
	genTc = func(cur []int) {
		if len(cur) >= 2 {
			tcTuples = append(tcTuples, append([]int{}, cur...))
		}
		if len(cur) < maxK {
			for i := range tcEls {
				genTc(append(cur, i))
			}
		}
	}
	genTc(nil)
	for _, tu := range tcTuples {
		var parts []string
		npk := 0
		for _, e := range tu {
			if strings.HasPrefix(tcEls[e], "PRIMARY") {
				npk++
			}
			parts = append(parts, tcEls[e])
		}
		if npk > 1 {
			continue
		}
		for _, lastCol := range []string{"b", "b REFERENCES o(x) DEFERRABLE", "b COLLATE NOCASE", "b INTEGER PRIMARY KEY AUTOINCREMENT"} {
			if npk > 0 && strings.Contains(lastCol, "PRIMARY") {
				continue
			}
			stmt := "CREATE TABLE t (a, " + lastCol + ", " + strings.Join(parts, ", ") + ")"
			res, err, p := c16Parse(w, stmt)
			r.Eval(1)
			r.Trans(1)
			art := map[string]interface{}{"statement": stmt}
			if p != nil {
				r.Violation("C16:panic:locality", fmt.Sprintf("sql.Parse(%q) panics: %v", stmt, p), art)
				continue
			}
			if err != nil {
				continue
			}
			r.NontrivialN(1)
			ct, _ := res.(sql.CreateTableStmt)
			if len(ct.Constraints) != len(tu) {
				if sqliteOK(stmt) {
					r.Violation("C16:local:constraint-count", fmt.Sprintf("%q: %d table constraints reported as %d", stmt, len(tu), len(ct.Constraints)), art)
				}
				continue
			}
			for i, e := range tu {
				if !reflect.DeepEqual(ct.Constraints[i], singleTc[tcEls[e]]) {
					if sqliteOK(stmt) {
						r.Violation("C16:local:constraint", fmt.Sprintf("%q: table constraint %d (%s) reported as %+v, alone it is %+v", stmt, i, parts[i], ct.Constraints[i], singleTc[tcEls[e]]), art)
					}
					break
				}
			}
		}
	}

	// --- determinism: the same text gives the same result, whatever was parsed before
	var stmts []string
	for _, el := range c16ColDefs {
		stmts = append(stmts, "CREATE TABLE t ("+el+", b, c)")
	}
	for _, el := range c16IdxCols {
		stmts = append(stmts, "CREATE INDEX i ON t (b, "+el+", c)")
	}
	for _, el := range c16TblCons {
		stmts = append(stmts, "CREATE TABLE t (a, b, "+el+")")
	}
	stmts = append(stmts, c16ValidStatements()...)
	stmts = append(stmts, "garbage (", "SELECT * FROM", "")
	// lexical corner cases: every quoting style, with and without a doubled (escaped) quote, terminated and not;
	// what one parse leaves behind (scratch buffers, pooled objects) must not show in the next
	lexical := []string{
		`CREATE TABLE t ("a""b" INT, c)`, `CREATE TABLE t (c DEFAULT 'it''s', "d""e")`, "CREATE TABLE t (`a``b`, c)", `CREATE TABLE t ([a b], c)`,
		`CREATE INDEX i ON t ("a""b" DESC, 'c''d')`, `CREATE TABLE t (a CHECK (a <> 'x''y'), "q""r" TEXT COLLATE NOCASE)`,
		`SELECT "x""y FROM t`, `SELECT 'x''y FROM t`, "SELECT `x``y FROM t", `SELECT [xy FROM t`, `CREATE TABLE t ("a`, `CREATE TABLE t ('a''`, `CREATE TABLE t ("a""`,
		`CREATE TABLE t (a DEFAULT 'unterminated`, `CREATE TABLE t (a) /* open comment`, `CREATE TABLE t (a) -- comment without newline`,
		`CREATE TABLE t (a DEFAULT 1e)`, `CREATE TABLE t (a DEFAULT 0x)`, `CREATE TABLE t (a DEFAULT 1.2.3)`, "CREATE TABLE t (\x80)", "CREATE TABLE \xe9 (a)",
		`CREATE TABLE t ("""")`, `CREATE TABLE t ('''' TEXT)`, `SELECT "" FROM t`, `SELECT '' FROM t`,
	}
	stmts = append(stmts, lexical...)
	first := make([]interface{}, len(stmts))
	firstErr := make([]string, len(stmts))
	for i, s := range stmts {
		res, err, _ := c16Parse(w, s)
		first[i] = res
		firstErr[i] = errS(err)
	}
	for i, s := range stmts {
		for j := range stmts {
			c16Parse(w, stmts[j])
			res, err, _ := c16Parse(w, s)
			r.Eval(1)
			r.Trans(2)
			if !reflect.DeepEqual(res, first[i]) || errS(err) != firstErr[i] {
				r.Violation("C16:nondeterministic", fmt.Sprintf("sql.Parse(%q) after parsing %q gives %+v (%v); the first time it gave %+v (%s)", s, stmts[j], res, err, first[i], firstErr[i]), map[string]interface{}{"statement": s, "before": stmts[j]})
			}
		}
	}
	// triples over the lexical corner cases: B after A2 after A1
	lfirst := map[string]int{}
	for i, s := range stmts {
		lfirst[s] = i
	}
	for _, a1 := range lexical {
		for _, a2 := range lexical {
			for _, b := range lexical {
				c16Parse(w, a1)
				c16Parse(w, a2)
				res, err, _ := c16Parse(w, b)
				r.Eval(1)
				r.Trans(3)
				if i := lfirst[b]; !reflect.DeepEqual(res, first[i]) || errS(err) != firstErr[i] {
					r.Violation("C16:nondeterministic", fmt.Sprintf("sql.Parse(%q) after parsing %q and %q gives %+v (%v); the first time it gave %+v (%s)", b, a1, a2, res, err, first[i], firstErr[i]), map[string]interface{}{"statement": b, "before": []string{a1, a2}})
				}
			}
		}
	}
	r.State(fmt.Sprint(len(stmts)))
	for _, s := range stmts {
		r.State(s)
	}
}

func c16DiffFields(got, want *sql.ColumnDef, gotName, wantName string) string {
	var d []string
	if !strings.EqualFold(gotName, wantName) {
		d = append(d, "name")
	}
	if got.Type != want.Type {
		d = append(d, "type")
	}
	if got.PrimaryKey != want.PrimaryKey || got.PrimaryKeyDir != want.PrimaryKeyDir {
		d = append(d, "primarykey")
	}
	if got.AutoIncrement != want.AutoIncrement {
		d = append(d, "autoincrement")
	}
	if got.Null != want.Null {
		d = append(d, "null")
	}
	if got.Unique != want.Unique {
		d = append(d, "unique")
	}
	if !reflect.DeepEqual(got.Default, want.Default) {
		d = append(d, "default")
	}
	if got.Collate != want.Collate {
		d = append(d, "collate")
	}
	if !reflect.DeepEqual(got.References, want.References) {
		d = append(d, "references")
	}
	if !reflect.DeepEqual(got.Checks, want.Checks) {
		d = append(d, "checks")
	}
	if len(d) == 0 {
		return "other"
	}
	return strings.Join(d, "+")
}

func c16IxDiff(got, want *sql.IndexedColumn) string {
	var d []string
	if got.Column != want.Column {
		d = append(d, "column")
	}
	if got.Expression != want.Expression {
		d = append(d, "expression")
	}
	if got.Collate != want.Collate {
		d = append(d, "collate")
	}
	if got.SortOrder != want.SortOrder {
		d = append(d, "sortorder")
	}
	return strings.Join(d, "+")
}
