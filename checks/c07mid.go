package checks

// C07, second family: a read that is in progress while a real SQLite writer
// in another process moves through its transaction. The reader is parked in
// its row callback; at row j the writer opens its transaction and changes
// every row with a one page cache (so it wants to spill, i.e. needs
// EXCLUSIVE), at row k >= j it tries to COMMIT. Every (j, k) is enumerated,
// on a fresh handle and on a handle that was opened before another process
// made the file three times as large.

import (
	"fmt"
	"os"
	"path/filepath"
	"strings"
	"sync/atomic"
	"time"

	"verif/internal/ev"

	"github.com/alicebob/sqlittle"
)

const c07MidSetup = `
PRAGMA page_size=512;
CREATE TABLE s (id INTEGER PRIMARY KEY, v, pad);
CREATE INDEX s_v ON s (v);
WITH RECURSIVE n(i) AS (SELECT 1 UNION ALL SELECT i+1 FROM n WHERE i<10)
INSERT INTO s SELECT i, 'v'||(i%4), 'committed-'||i||'-pppppppppppppppppppppppppppppppppppppppppppppppppppppppppppppppppppppppppppppppppppppppppppppppppppppppppppppp' FROM n;
`

const c07MidGrow = `WITH RECURSIVE n(i) AS (SELECT 11 UNION ALL SELECT i+1 FROM n WHERE i<34)
INSERT INTO s SELECT i, 'v'||(i%4), 'committed-'||i||'-gggggggggggggggggggggggggggggggggggggggggggggggggggggggggggggggggggggggggggggggggggggggggggggggggggggggggggggg' FROM n`

type c07MidOp struct {
	name string
	run  func(h *sqlittle.DB, cb func(row []interface{})) error
}

var c07MidSeq int64

func c07MidRead(r *ev.Run) {
	dir := ev.TmpDir("c07m")
	defer os.RemoveAll(dir)
	ops := []c07MidOp{
		{"Select(s)", func(h *sqlittle.DB, cb func([]interface{})) error {
			return h.Select("s", func(row sqlittle.Row) { cb(CopyRow(row)) }, "id", "v", "pad")
		}},
		{"IndexedSelect(s,s_v)", func(h *sqlittle.DB, cb func([]interface{})) error {
			return h.IndexedSelect("s", "s_v", func(row sqlittle.Row) { cb(CopyRow(row)) }, "id", "v", "pad")
		}},
	}
	// base images through a peer
	setup, err := StartPeer()
	if err != nil {
		r.Harness("peer: %v", err)
		return
	}
	basePath := filepath.Join(dir, "base.sqlite")
	setup.MustOK("open " + basePath)
	setup.MustOK("exec " + c07MidSetup)
	setup.MustOK("close")
	setup.Stop()
	base, _ := os.ReadFile(basePath)
	r.StateBytes(base)
	type job struct {
		op     int
		grown  bool
		commit bool // the writer ends with COMMIT (else ROLLBACK)
		j, k   int
		nest   bool // the callback of the first row makes a select-like call on the same handle itself
		warm   bool // the handle has made complete calls (Columns, the operation itself) before the writer begins
	}
	var jobs []job
	for oi := range ops {
		for _, grown := range []bool{false, true} {
			n := 10
			if grown {
				n = 34
			}
			for _, commit := range []bool{true, false} {
				for j := 0; j <= n; j++ {
					for k := j; k <= n; k++ {
						if !r.Thorough() && grown && k != j && (k-j)%3 != 1 && k != n {
							continue // quick: a third of the (j, k) pairs on the larger file
						}
						jobs = append(jobs, job{oi, grown, commit, j, k, false, false})
						if j >= 1 && (k-j)%3 == 0 {
							jobs = append(jobs, job{oi, grown, commit, j, k, true, false})
						}
						if !grown && (r.Thorough() || k == j || (k-j)%3 == 1 || k == n) {
							jobs = append(jobs, job{oi, grown, commit, j, k, false, true})
						}
					}
				}
			}
		}
	}
	r.Set("mid_read_executions", len(jobs))
	nw := 6
	peers := make(chan *Peer, nw)
	for i := 0; i < nw; i++ {
		p, err := StartPeer()
		if err != nil {
			r.Harness("peer: %v", err)
			return
		}
		defer p.Stop()
		peers <- p
	}
	ev.Parallel(len(jobs), func(i int) {
		w := <-peers
		defer func() { peers <- w }()
		jb := jobs[i]
		c07MidOne(r, dir, base, w, ops[jb.op], jb.grown, jb.commit, jb.j, jb.k, jb.nest, jb.warm)
	})
}

func c07MidOne(r *ev.Run, dir string, base []byte, w *Peer, op c07MidOp, grown, commit bool, j, k int, nest, warm bool) {
	id := atomic.AddInt64(&c07MidSeq, 1)
	path := filepath.Join(dir, fmt.Sprintf("m%d.sqlite", id))
	os.WriteFile(path, base, 0o644)
	defer os.Remove(path)
	defer os.Remove(path + "-journal")
	handle := "fresh"
	if grown {
		handle = "opened before the file grew"
	}
	end := "COMMIT"
	if !commit {
		end = "ROLLBACK"
	}
	if nest {
		handle += ", nested call in the first callback"
	}
	if warm {
		handle = "used before (Columns and the operation itself, run to the end)"
	}
	art := map[string]interface{}{"family": "mid-read", "operation": op.name, "handle": handle, "writer_begins_and_updates_at_row": j, "writer_ends_at_row": k, "writer_ends_with": end}
	r.Eval(1)
	r.Trans(3)
	r.NontrivialN(1)
	var e *Env
	var err error
	if grown {
		if e, err = OpenEnv(path); err != nil {
			r.Harness("open: %v", err)
			return
		}
	}
	w.MustOK("open " + path)
	defer w.Do("close")
	if grown {
		w.MustOK("exec " + c07MidGrow)
	}
	w.MustOK("exec PRAGMA cache_size=1")
	if e == nil {
		if e, err = OpenEnv(path); err != nil {
			r.Harness("open: %v", err)
			return
		}
	}
	defer e.H.Close()
	// the committed content before the writer starts, through a second handle (C01's subject, not the oracle's)
	ref, err := OpenEnv(path)
	if err != nil {
		r.Harness("open: %v", err)
		return
	}
	var pre [][]interface{}
	if err := op.run(ref.H, func(row []interface{}) { pre = append(pre, row) }); err != nil {
		r.Harness("reference read: %v", err)
		ref.H.Close()
		return
	}
	ref.H.Close()
	if warm {
		// lock cycles this handle has been through before the one under test
		if _, err := e.H.Columns("s"); err != nil {
			r.Harness("warm-up Columns: %v", err)
			return
		}
		if err := op.run(e.H, func([]interface{}) {}); err != nil {
			r.Harness("warm-up read: %v", err)
			return
		}
	}

	wpid := 0
	if st, rest := w.Do("pid"); st == "ok" {
		fmt.Sscan(rest, &wpid)
	}
	inTx, committed, ended := false, false, false
	var midCommit bool
	begin := func() {
		if st, _ := w.Do("exec BEGIN IMMEDIATE"); st != "ok" {
			return
		}
		inTx = true
		// wants to spill: needs EXCLUSIVE, which it must not get while the read is in progress
		w.Do("exec UPDATE s SET pad = 'UNCOMMITTED-' || id || substr(pad, 20)")
	}
	finish := func(reading bool) {
		if !inTx || ended {
			return
		}
		st, _ := w.Do("exec " + end)
		if st == "ok" {
			ended = true
			inTx = false
			if commit {
				committed = true
				if reading {
					midCommit = true
				}
			}
		}
	}
	type ev1 struct {
		row  []interface{}
		done bool
		err  error
	}
	yield := make(chan ev1)
	resume := make(chan struct{})
	var got [][]interface{}
	var rerr error
	exclusiveSeen := ""
	point := func(n int, reading bool) {
		if n == j && !inTx && !ended {
			begin()
		}
		if n == k {
			finish(reading)
		}
		if reading && wpid != 0 {
			if locks, err := FileLocks(path); err == nil {
				if lv := StateOf(locks, wpid).SQLiteLevel(); lv == "EXCLUSIVE" {
					exclusiveSeen = fmt.Sprintf("after row %d", n)
				}
			}
		}
	}
	point(0, false) // row 0: before the read starts
	committedBeforeStart := committed
	go func() {
		first := true
		err := op.run(e.H, func(row []interface{}) {
			if nest && first {
				// re-entrant use of the handle (refused today); the outer read's lock must survive it
				Safely(func() { e.H.SelectRowid("s", 1, "v") })
			}
			first = false
			yield <- ev1{row: row}
			<-resume
		})
		yield <- ev1{done: true, err: err}
	}()
	started := time.Now()
	for {
		var x ev1
		got1 := false
		// two minutes, granted in slices of a second (a stopped machine or a stepping clock uses up one slice)
		for slice := 0; slice < 120 && !got1; slice++ {
			select {
			case x = <-yield:
				got1 = true
			case <-time.After(time.Second):
			}
		}
		if !got1 {
			r.Violation("C07:mid-read:hang", fmt.Sprintf("%s: no row and no return for 2 minutes (started %v ago)", op.name, time.Since(started)), art)
			return
		}
		if x.done {
			rerr = x.err
			break
		}
		got = append(got, x.row)
		point(len(got), true)
		resume <- struct{}{}
	}
	// the read is over: the writer must be able to finish now
	if inTx && !ended {
		if st, rest := w.Do("exec " + end); st != "ok" {
			r.Violation("C07:mid-read:writer-blocked-after-return", fmt.Sprintf("%s (%s handle): after the read returned the writer's %s fails: %s %s", op.name, handle, end, st, rest), art)
		}
	}
	uncommitted := 0
	for _, row := range got {
		if s, ok := row[2].(string); ok && strings.HasPrefix(s, "UNCOMMITTED") {
			uncommitted++
		}
	}
	kind := "fresh"
	if grown {
		kind = "grown"
	}
	if nest {
		kind += "+nested"
	}
	if warm {
		kind = "warm"
	}
	if exclusiveSeen != "" {
		r.Violation("C07:mid-read:writer-exclusive-during-read:"+kind, fmt.Sprintf("%s (%s handle), writer begins at row %d: the writer holds EXCLUSIVE %s while the read is still delivering rows", op.name, handle, j, exclusiveSeen), art)
	}
	if midCommit {
		r.Violation("C07:mid-read:commit-during-read:"+kind, fmt.Sprintf("%s (%s handle): the writer's COMMIT at row %d succeeded while the read was in progress", op.name, handle, k), art)
	}
	if committedBeforeStart {
		// the whole transaction preceded the read: it must be visible (C08's domain; only uncommitted data matters here)
		return
	}
	if rerr != nil {
		// failing is within the property; delivering uncommitted rows before failing is not
		if uncommitted > 0 {
			r.Violation("C07:mid-read:uncommitted-rows:"+kind, fmt.Sprintf("%s (%s handle): %d rows of the writer's unfinished transaction were delivered before the error %v", op.name, handle, uncommitted, rerr), art)
		}
		r.Outcome("mid-read:error")
		return
	}
	r.Outcome("mid-read:ok")
	if !RowsEq(got, pre, false) {
		what := "differs from the state committed when the read started"
		if uncommitted > 0 {
			what = fmt.Sprintf("contains %d rows of the writer's uncommitted transaction", uncommitted)
		}
		r.Violation("C07:mid-read:rows:"+kind, fmt.Sprintf("%s (%s handle), writer begins at row %d and tries %s at row %d: the result %s: %s", op.name, handle, j, end, k, what, firstDiffSafe(got, pre)), art)
	}
}
