package checks

// C06 — A read holds SQLite's SHARED lock from its first page read until it
// returns. Kind I: the operation under test runs on the REAL file pager under
// a tracing pager that parks it at every lock/unlock/page event and at every
// row callback; the other participants (a real SQLite writer in another
// process, a second sqlittle handle in the same process, a sqlittle handle in
// another process) move in atomic steps; all interleavings within a
// preemption bound; invariants are evaluated on the kernel's lock table.

import (
	"database/sql"
	"fmt"
	"os"
	"path/filepath"
	"runtime"
	"strings"
	"sync"
	"sync/atomic"
	"time"

	"verif/internal/ev"
	"verif/internal/lite"
	"verif/internal/mc"
	"verif/internal/vpager"

	"github.com/alicebob/sqlittle"
	sdb "github.com/alicebob/sqlittle/db"
	_ "github.com/alicebob/sqlittle/driver"
)

func init() { Registry["C06"] = Check{Level: "model_checking", Fn: runC06} }

func c06Image() []byte {
	big := strings.Repeat("0123456789", 140) // 1400 bytes: overflow chain of 3 pages at page size 512 (not cached: page reads between callbacks)
	return MustMakeDB(512, `CREATE TABLE t (id INTEGER PRIMARY KEY, v, pad);
CREATE INDEX t_v ON t (v);
INSERT INTO t VALUES (1, 'a', '`+big+`'), (2, 'b', '`+big+`x'), (3, 'a', '`+big+`y');
CREATE TABLE w (k TEXT PRIMARY KEY, v, pad) WITHOUT ROWID;
CREATE INDEX w_v ON w (v);
INSERT INTO w VALUES ('x', 1, '`+big+`'), ('y', 2, '`+big+`z');`)
}

// an operation under test: gets the env and a row hook (returns true to stop)
type c06Op struct {
	name    string
	rows    int // rows the callback sees in a normal run
	canStop bool
	run     func(e *Env, onRow func() bool) error
}

func c06Ops() []c06Op {
	return []c06Op{
		{"Select", 3, false, func(e *Env, onRow func() bool) error {
			return e.H.Select("t", func(r sqlittle.Row) { onRow() }, "id", "v", "pad")
		}},
		{"SelectDone", 3, true, func(e *Env, onRow func() bool) error {
			return e.H.SelectDone("t", func(r sqlittle.Row) bool { return onRow() }, "id", "pad")
		}},
		{"SelectDone(w)", 2, true, func(e *Env, onRow func() bool) error {
			return e.H.SelectDone("w", func(r sqlittle.Row) bool { return onRow() }, "k", "pad")
		}},
		{"SelectRowid", 1, false, func(e *Env, onRow func() bool) error {
			r, err := e.H.SelectRowid("t", 2, "pad")
			if r != nil {
				onRow()
			}
			return err
		}},
		{"IndexedSelect", 3, false, func(e *Env, onRow func() bool) error {
			return e.H.IndexedSelect("t", "t_v", func(r sqlittle.Row) { onRow() }, "id", "pad")
		}},
		{"IndexedSelect(w)", 2, false, func(e *Env, onRow func() bool) error {
			return e.H.IndexedSelect("w", "w_v", func(r sqlittle.Row) { onRow() }, "k", "pad")
		}},
		{"IndexedSelectEq", 2, false, func(e *Env, onRow func() bool) error {
			return e.H.IndexedSelectEq("t", "t_v", sqlittle.Key{"a"}, func(r sqlittle.Row) { onRow() }, "id", "pad")
		}},
		{"PKSelect", 1, false, func(e *Env, onRow func() bool) error {
			return e.H.PKSelect("w", sqlittle.Key{"y"}, func(r sqlittle.Row) { onRow() }, "pad")
		}},
		{"PKSelect(t)", 1, false, func(e *Env, onRow func() bool) error {
			// the primary key is the rowid: another code path than a key in an index
			return e.H.PKSelect("t", sqlittle.Key{int64(2)}, func(r sqlittle.Row) { onRow() }, "pad")
		}},
		{"Columns", 0, false, func(e *Env, onRow func() bool) error {
			_, err := e.H.Columns("t")
			return err
		}},
		{"Select(nosuchtable)", 0, false, func(e *Env, onRow func() bool) error {
			return e.H.Select("nosuch", func(r sqlittle.Row) { onRow() }, "id")
		}},
		{"Select(nosuchcolumn)", 0, false, func(e *Env, onRow func() bool) error {
			return e.H.Select("t", func(r sqlittle.Row) { onRow() }, "id", "nosuch")
		}},
		{"IndexedSelect(nosuchindex)", 0, false, func(e *Env, onRow func() bool) error {
			return e.H.IndexedSelect("t", "nosuch", func(r sqlittle.Row) { onRow() }, "id")
		}},
	}
}

// ---- the H1 coroutine

type c06Event struct {
	kind string // lock unlock page reserved close row done
	pre  bool
	err  error
	page int
}

type c06H1 struct {
	yield  chan c06Event
	resume chan string // "" continue | "stop" | "panic" (for row events)
	// derived from the event stream
	locked    bool // between a successful lock and the unlock
	pagesIn   int
	pagesOut  int // page reads outside the locked interval (after the handle was opened)
	started   bool
	finished  bool
	err       error
	panicked  interface{}
	rowsSeen  int
	lastEvent string
	calls     int
}

// ---- one execution

type c06Scenario struct {
	op       c06Op
	stopAt   int    // ask to stop at this row (0: never)
	panicAt  int    // callback panics at this row
	faultAt  int    // fault at the k-th page read of the call (0: none)
	others   string // "", "W", "H2", "H3", "H2+W"
	h2Select bool
	grown    bool // the file grows (a committed bulk insert by another process) after the handle was opened, before the call
	repeat   bool // the same handle makes the call a second time after the first returned (whatever its outcome)
	hot      bool // between Open and the call a writer dies in mid-transaction: spilled pages in the file, a valid journal next to it
	readOnly bool // the file has no write permission bit when it is opened (other processes may still write: root, an earlier open, a later chmod)
	nestAt   int  // the callback of this row makes select-like calls on the same handle itself (refused today: "trying to lock a locked lock")
}

func (s *c06Scenario) String() string {
	x := s.op.name
	if s.stopAt > 0 {
		x += fmt.Sprintf(" stop@%d", s.stopAt)
	}
	if s.panicAt > 0 {
		x += fmt.Sprintf(" panic@%d", s.panicAt)
	}
	if s.faultAt > 0 {
		x += fmt.Sprintf(" fault@%d", s.faultAt)
	}
	if s.others != "" {
		x += " with " + s.others
	}
	if s.hot {
		x += " with a hot journal left by a dead writer"
	}
	if s.readOnly {
		x += " on a file without write permission bits"
	}
	if s.grown {
		x += " on a file grown after Open"
	}
	if s.repeat {
		x += ", called twice"
	}
	if s.nestAt > 0 {
		x += fmt.Sprintf(", nested calls from the callback of row %d", s.nestAt)
	}
	return x
}

type c06Worker struct {
	dir   string
	W, H3 *Peer
	n     int
}

var c06Seq int64

type c06Result struct {
	pageReads int
	sched     []string
}

func c06Run(r *ev.Run, c *mc.Ctx, wk *c06Worker, sc *c06Scenario, img []byte) c06Result {
	id := atomic.AddInt64(&c06Seq, 1)
	path := filepath.Join(wk.dir, fmt.Sprintf("x%d.sqlite", id))
	os.WriteFile(path, img, 0o644)
	defer os.Remove(path)
	defer os.Remove(path + "-journal")
	if sc.readOnly {
		os.Chmod(path, 0o444)
	}
	mypid := os.Getpid()
	var res c06Result

	// participants other than H1, as lists of atomic steps
	type step struct {
		who, name string
		do        func() string
	}
	var wSteps, h2Steps, h3Steps []step
	var h2 *sdb.Database
	h2Locked := false
	taint := "" // set when a same-process handle step dropped the lock (known finding): downstream checks are consequences
	if strings.Contains(sc.others, "WR") {
		// another process write-locks the shared byte range without the pending byte (SQLite >= 3.41 rolling a hot
		// journal back does): the call passes the pending byte and is refused on the shared range
		wSteps = []step{
			{"W", "LOCK SHARED RANGE", func() string { s, _ := wk.W.Do("rawlock " + path); return s }},
			{"W", "UNLOCK", func() string { s, _ := wk.W.Do("rawunlock"); return s }},
			{"W", "LOCK SHARED RANGE", func() string { s, _ := wk.W.Do("rawlock " + path); return s }},
			{"W", "UNLOCK", func() string { s, _ := wk.W.Do("rawunlock"); return s }},
		}
		defer wk.W.Do("rawunlock")
	} else if strings.Contains(sc.others, "WX") {
		// a writer that takes the EXCLUSIVE lock at once: a read attempted meanwhile must fail and leave nothing locked
		wk.W.MustOK("open " + path)
		wSteps = []step{
			{"W", "BEGIN EXCLUSIVE", func() string { s, _ := wk.W.Do("exec BEGIN EXCLUSIVE"); return s }},
			{"W", "INSERT", func() string { s, _ := wk.W.Do("exec INSERT INTO t VALUES (98, 'wx', 'p')"); return s }},
			{"W", "COMMIT", func() string { s, _ := wk.W.Do("exec COMMIT"); return s }},
		}
		defer wk.W.Do("close")
	} else if strings.Contains(sc.others, "W") {
		wk.W.MustOK("open " + path)
		if strings.Contains(sc.others, "WO") {
			// a writer that never syncs writes its journal header complete at once: the reader finds a journal
			// that looks valid and asks the kernel who holds RESERVED (an extra lock query inside the call)
			wk.W.MustOK("exec PRAGMA synchronous=OFF")
		}
		wSteps = []step{
			{"W", "BEGIN IMMEDIATE", func() string { s, _ := wk.W.Do("exec BEGIN IMMEDIATE"); return s }},
			{"W", "INSERT", func() string { s, _ := wk.W.Do("exec INSERT INTO t VALUES (99, 'w', 'p')"); return s }},
			{"W", "COMMIT", func() string { s, _ := wk.W.Do("exec COMMIT"); return s }},
		}
		defer wk.W.Do("close")
	}
	if strings.Contains(sc.others, "H2") {
		if sc.h2Select {
			h2Steps = []step{
				{"H2", "Open+Select+Close", func() string {
					e, err := OpenEnv(path)
					if err != nil {
						return "err"
					}
					e.H.Select("w", func(sqlittle.Row) {}, "k")
					e.H.Close()
					return "ok"
				}},
			}
		} else {
			h2Steps = []step{
				{"H2", "Open", func() string {
					var err error
					h2, err = sdb.OpenFile(path)
					if err != nil {
						return "err"
					}
					return "ok"
				}},
				{"H2", "RLock", func() string {
					if h2 == nil {
						return "skip"
					}
					if h2.RLock() == nil {
						h2Locked = true
					}
					return "ok"
				}},
				{"H2", "RUnlock", func() string {
					if h2 == nil || !h2Locked {
						return "skip"
					}
					h2.RUnlock()
					h2Locked = false
					return "ok"
				}},
				{"H2", "Close", func() string {
					if h2 == nil {
						return "skip"
					}
					h2.Close()
					h2 = nil
					return "ok"
				}},
			}
		}
		defer func() {
			if h2 != nil {
				h2.Close()
			}
		}()
	}
	if strings.Contains(sc.others, "H3") {
		h3Steps = []step{
			{"H3", "Open", func() string { s, _ := wk.H3.Do("lopen " + path); return s }},
			{"H3", "Select", func() string { s, _ := wk.H3.Do("lselect w"); return s }},
			{"H3", "Close", func() string { s, _ := wk.H3.Do("lclose"); return s }},
		}
		defer wk.H3.Do("lclose")
	}

	// H1: real file pager -> fault injector -> tracer
	real, err := sdb.VerifFilePager(path)
	if err != nil {
		r.Harness("C06 file pager: %v", err)
		return res
	}
	fp := &vpager.FaultPager{P: real}
	h1 := &c06H1{yield: make(chan c06Event), resume: make(chan string)}
	tracing := false
	tp := &vpager.TracePager{P: fp, On: func(pre bool, e vpager.Event) {
		if !tracing {
			return
		}
		// scheduling points: before every page read / reserved probe, before and after lock and unlock
		if !pre && e.Kind != "lock" && e.Kind != "unlock" {
			return
		}
		h1.yield <- c06Event{kind: e.Kind, pre: pre, err: e.Err, page: e.Page}
		<-h1.resume
	}}
	d, err := sdb.VerifOpen(tp, path+"-journal")
	if err != nil {
		r.Harness("C06 open: %v", err)
		real.Close()
		return res
	}
	env := &Env{H: sqlittle.VerifWrap(d), D: d}
	defer real.Close()
	if sc.hot {
		db, j := c06HotPair(img)
		if j == nil {
			r.Harness("C06: no hot journal pair")
			return res
		}
		os.WriteFile(path, db, 0o644) // same inode: the open handle sees the new content
		os.WriteFile(path+"-journal", j, 0o644)
	}
	if sc.grown {
		// another process commits a transaction that makes the file (and table t) much larger than at Open
		wk.H3.MustOK("open " + path)
		wk.H3.MustOK("exec WITH RECURSIVE n(i) AS (SELECT 100 UNION ALL SELECT i+1 FROM n WHERE i<130) INSERT INTO t SELECT i, 'g', 'growgrowgrowgrowgrowgrowgrowgrowgrowgrowgrowgrowgrowgrowgrowgrowgrowgrowgrowgrowgrowgrowgrowgrowgrowgrowgrow'||i FROM n")
		wk.H3.MustOK("close")
	}

	art := func() map[string]interface{} {
		return map[string]interface{}{"scenario": sc.String(), "schedule": append([]string{}, res.sched...), "choices": c.Taken()}
	}
	violation := func(sig, what string) {
		if taint != "" {
			return
		}
		r.Violation(sig, sc.String()+": "+what, art())
	}

	startH1 := func() {
		h1.started = true
		h1.finished = false
		h1.rowsSeen = 0
		h1.calls++
		tracing = true
		if sc.faultAt > 0 {
			fp.Arm(sc.faultAt, vpager.FaultError)
		} else {
			fp.Arm(0, vpager.FaultNone)
		}
		go func() {
			var err error
			var pv interface{}
			func() {
				defer func() {
					if p := recover(); p != nil {
						pv = p
					}
				}()
				rowNo := 0
				err = sc.op.run(env, func() bool {
					rowNo++
					if sc.nestAt > 0 && rowNo == sc.nestAt {
						// re-entrant use of the handle: whatever these return, the outer call's lock must survive them
						Safely(func() { env.H.Columns("t") })
						Safely(func() { env.H.SelectRowid("t", 1, "v") })
					}
					h1.yield <- c06Event{kind: "row"}
					switch <-h1.resume {
					case "stop":
						return true
					case "panic":
						panic("callback panics (harness)")
					}
					return false
				})
			}()
			h1.err, h1.panicked = err, pv
			h1.yield <- c06Event{kind: "done"}
		}()
	}
	// consume H1's next event (H1 is parked again afterwards, or finished)
	h1Next := func() {
		e := <-h1.yield
		h1.lastEvent = e.kind
		switch e.kind {
		case "done":
			h1.finished = true
			tracing = false
			return
		case "lock":
			if !e.pre && e.err == nil {
				h1.locked = true
			}
		case "unlock":
			if e.pre {
				h1.locked = false
			}
		case "page":
			if e.pre {
				res.pageReads++
				if h1.locked {
					h1.pagesIn++
				} else {
					h1.pagesOut++
					violation("C06:page-read-outside-lock:"+opKind(sc.op.name), fmt.Sprintf("page %d is read while the read lock is not held", e.page))
				}
			}
		case "row":
			h1.rowsSeen++
			if !h1.locked && sc.op.name != "SelectRowid" { // SelectRowid has no callback: the harness reports its row after the call returned
				violation("C06:callback-outside-lock:"+opKind(sc.op.name), fmt.Sprintf("the callback of row %d runs while the read lock is not held", h1.rowsSeen))
			}
		}
	}
	resumeH1 := func() {
		msg := ""
		if h1.lastEvent == "row" {
			if sc.stopAt > 0 && h1.rowsSeen == sc.stopAt {
				msg = "stop"
			}
			if sc.panicAt > 0 && h1.rowsSeen == sc.panicAt {
				msg = "panic"
			}
		}
		h1.resume <- msg
		h1Next()
	}

	// invariants on the kernel's lock table
	check := func(after string) {
		if taint != "" {
			return // the lock was already lost to a same-process handle (known finding); everything later is a consequence
		}
		locks, err := FileLocks(path)
		if err != nil {
			r.Harness("proc locks: %v", err)
			return
		}
		me := StateOf(locks, mypid)
		inCall := h1.started && !h1.finished
		if inCall && h1.locked && !me.SharedRead {
			// "not there" is only believed when several more looks agree (a single look at a long, changing
			// kernel lock list can skip an entry)
			for i := 0; i < 5 && !me.SharedRead; i++ {
				if l2, err := FileLocks(path); err == nil {
					me = StateOf(l2, mypid)
				}
			}
		}
		if inCall && h1.locked {
			if !me.SharedRead {
				if strings.HasPrefix(after, "H2:") {
					// POSIX record locks are per process: another handle of this process dropped it
					sig := "C06:lock-dropped-by-same-process-handle:" + strings.TrimPrefix(after, "H2:")
					r.Violation(sig, fmt.Sprintf("%s: after %s of a second handle in the same process the SHARED lock of the running call is gone (process locks: %s)", sc.String(), after, me.Description), art())
					taint = sig
				} else {
					violation("C06:lock-not-held:"+opKind(sc.op.name), fmt.Sprintf("inside the call (after %s) the process does not hold READ on the shared range (process locks: %s)", after, me.Description))
				}
			}
		}
		if h1.finished && sc.hot {
			if h1.err == nil {
				violation("C06:hot-journal-read:"+opKind(sc.op.name), "the call succeeds although a dead writer's journal lies next to the file")
			} else {
				r.Outcome("hot journal: the call is refused")
			}
		}
		if h1.finished && !h2Locked {
			if me.AnyShared || me.PendingAny {
				violation("C06:lock-leaked:"+opKind(sc.op.name), fmt.Sprintf("after the call returned (err=%v panic=%v) the process still holds: %s", h1.err, h1.panicked != nil, me.Description))
			}
		}
	}

	wi, h2i, h3i := 0, 0, 0
	last := ""
	who := func(name string) string {
		if i := strings.IndexByte(name, ':'); i > 0 {
			return name[:i]
		}
		return name
	}
	wBlocked := false // a COMMIT that came back BUSY is retried only after somebody else has moved
	for {
		type alt struct {
			name string
			run  func()
		}
		var alts []alt
		if !h1.finished || (sc.repeat && h1.calls < 2) {
			alts = append(alts, alt{"H1", func() {
				if !h1.started || h1.finished {
					startH1()
					h1Next()
				} else {
					resumeH1()
				}
			}})
		}
		if wi < len(wSteps) && !wBlocked {
			s := wSteps[wi]
			alts = append(alts, alt{"W:" + s.name, func() {
				inInterval := h1.started && !h1.finished && h1.locked
				st := s.do()
				if (s.name == "BEGIN EXCLUSIVE" || s.name == "LOCK SHARED RANGE") && st == "busy" {
					wBlocked = true
					if h1.finished && !h2Locked && taint == "" && h3i != 1 && h3i != 2 {
						violation("C06:writer-blocked-after-return:"+opKind(sc.op.name), "after the call returned another process cannot write-lock the shared range (SQLITE_BUSY for a SQLite writer)")
						wi = len(wSteps)
					}
					return
				}
				if s.name == "LOCK SHARED RANGE" && st == "ok" && inInterval && taint == "" {
					violation("C06:write-lock-granted-during-read:"+opKind(sc.op.name), "another process got a write lock on the shared byte range while the call was between its lock and its unlock")
				}
				if s.name == "COMMIT" {
					if st == "ok" && inInterval && taint == "" {
						violation("C06:writer-committed-during-read:"+opKind(sc.op.name), "a SQLite writer in another process committed while the call was between its lock and its unlock")
					}
					if st == "busy" {
						// retry later: keep the step
						wBlocked = true
						if h1.finished && !h2Locked && h3i != 1 && h3i != 2 {
							// nobody reads any more: the commit must go through
							if taint == "" {
								violation("C06:writer-blocked-after-return:"+opKind(sc.op.name), "after the call returned a SQLite writer still cannot commit (SQLITE_BUSY)")
							}
							wi++
						}
						return
					}
				}
				wi++
			}})
		}
		if h2i < len(h2Steps) {
			s := h2Steps[h2i]
			alts = append(alts, alt{"H2:" + s.name, func() { s.do(); h2i++ }})
		}
		if h3i < len(h3Steps) {
			s := h3Steps[h3i]
			alts = append(alts, alt{"H3:" + s.name, func() { s.do(); h3i++ }})
		}
		if len(alts) == 0 {
			if wBlocked && wi < len(wSteps) && h1.finished && !h2Locked && taint == "" && h3i != 1 && h3i != 2 {
				// everybody else is done and nobody reads: the writer must get through now
				if st := wSteps[wi].do(); st != "ok" {
					violation("C06:writer-blocked-after-return:"+opKind(sc.op.name), "after the call returned (and every other reader finished) a SQLite writer still cannot commit: "+st)
				}
			}
			break
		}
		// canonical order: the participant that ran last first (if it can still move), then H1, W, H2, H3.
		// Switching away from a participant that could still move is a preemption (cost 1), for every participant.
		lastIdx := -1
		for i, a := range alts {
			if who(a.name) == last {
				lastIdx = i
			}
		}
		if lastIdx > 0 {
			la := alts[lastIdx]
			copy(alts[1:lastIdx+1], alts[:lastIdx])
			alts[0] = la
			lastIdx = 0
		}
		ch := c.Choose(len(alts), func(i int) int {
			if lastIdx == 0 && i > 0 {
				return 1
			}
			return 0
		})
		a := alts[ch]
		last = who(a.name)
		res.sched = append(res.sched, a.name)
		if !strings.HasPrefix(a.name, "W:") {
			wBlocked = false
		}
		a.run()
		check(a.name)
		if len(res.sched) > 400 {
			r.Harness("C06 schedule too long: %s", sc.String())
			break
		}
	}
	// exit path expectations
	if h1.finished {
		if sc.panicAt > 0 && h1.panicked == nil && h1.rowsSeen >= sc.panicAt {
			r.Harness("C06: callback panic not propagated? %s", sc.String())
		}
		if sc.faultAt > 0 && fp.Hit > 0 && h1.err == nil && taint == "" {
			violation("C06:fault-swallowed", "an injected page read fault did not surface as an error")
		}
	}
	return res
}

func runC06(r *ev.Run) {
	r.Rule = "operation under test H1 in {Select, SelectDone, SelectRowid, IndexedSelect, IndexedSelectEq, PKSelect, Columns, on rowid and WITHOUT ROWID tables with overflow rows} x exit paths {normal, stop at row k for every k, callback panics at row k, no such table/column/index, fault at page read k for every k} run on the real file pager under a tracing pager (scheduling points: before/after every lock, unlock, page read, reserved-lock probe, and every row callback); other participants in atomic steps: W = real SQLite writer in another process (BEGIN IMMEDIATE, INSERT, COMMIT with busy_timeout 0; or BEGIN EXCLUSIVE; or a bare write lock on the shared byte range without the pending byte, taken and dropped twice), H2 = second sqlittle handle in the same process (Open, RLock, RUnlock, Close / a whole Select), H3 = sqlittle handle in another process; every interleaving with preemption bound 2 (pairs: unbounded in thorough); invariants at every point from /proc/locks: inside the call the process holds READ on the whole shared range, every page read lies inside the locked interval, a COMMIT attempted inside is BUSY, after return nothing is held on the pending byte and shared range and the writer can commit; select-like calls made from inside a row callback on the same handle (alone and against the writer); the same handle calling twice (after a refused, an overlapped and a plain first call); plus database/sql result sets left open after k rows; plus every select-like call on a handle the caller does not keep a reference to, with a forced garbage collection in every row callback. non-trivial = executions with at least one preemption or a non-normal exit path"
	img := c06Image()
	ops := c06Ops()
	// exit-path scenarios, alone (sequential monitor)
	var scen []c06Scenario
	for _, op := range ops {
		scen = append(scen, c06Scenario{op: op})
		for k := 1; k <= op.rows; k++ {
			if op.canStop {
				scen = append(scen, c06Scenario{op: op, stopAt: k})
			}
			scen = append(scen, c06Scenario{op: op, panicAt: k})
		}
	}
	// fault at every page read: count reads first
	dir := ev.TmpDir("c06")
	defer os.RemoveAll(dir)
	nw := runtime.NumCPU()
	if nw > 6 {
		nw = 6 // keeps the kernel's lock list within one 4 KB chunk of /proc/locks (atomic snapshots)
	}
	newWorker := func(w int) interface{} {
		wk := &c06Worker{dir: dir}
		var err error
		if wk.W, err = StartPeer(); err != nil {
			r.Harness("peer: %v", err)
		}
		if wk.H3, err = StartPeer(); err != nil {
			r.Harness("peer: %v", err)
		}
		return wk
	}
	var workers []*c06Worker
	defer func() {
		for _, w := range workers {
			w.W.Stop()
			w.H3.Stop()
		}
	}()
	for w := 0; w < nw; w++ {
		workers = append(workers, newWorker(w).(*c06Worker))
	}
	probe := workers[0]
	for _, op := range ops {
		c := &mc.Ctx{}
		sc := c06Scenario{op: op}
		res := c06Run(r, c, probe, &sc, img)
		for k := 1; k <= res.pageReads; k++ {
			scen = append(scen, c06Scenario{op: op, faultAt: k})
		}
	}
	// interleaving scenarios
	inter := []string{"W", "H2", "H3"}
	bound := 2
	pairBound := 2
	if r.Thorough() {
		pairBound = 3
	}
	pairOps := []string{"SelectDone", "IndexedSelect(w)", "Select", "IndexedSelectEq", "PKSelect", "PKSelect(t)"}
	tripleOp := "SelectRowid"
	if r.Thorough() {
		tripleOp = "SelectDone"
	}
	for _, op := range ops {
		for _, name := range pairOps {
			if op.name != name {
				continue
			}
			for _, o := range inter {
				scen = append(scen, c06Scenario{op: op, others: o})
				if op.canStop {
					scen = append(scen, c06Scenario{op: op, others: o, stopAt: 2})
				}
			}
			scen = append(scen, c06Scenario{op: op, others: "H2", h2Select: true})
			scen = append(scen, c06Scenario{op: op, others: "WO"})
		}
		if op.name == "Select" || op.name == "IndexedSelect" || op.name == "SelectRowid" {
			scen = append(scen, c06Scenario{op: op, grown: true})
		}
		if op.name == "SelectRowid" {
			scen = append(scen, c06Scenario{op: op, others: "W", grown: true})
		}
		if op.name == "Select" || op.name == "PKSelect" || op.name == "Columns" || op.name == "IndexedSelectEq" {
			scen = append(scen, c06Scenario{op: op, hot: true}, c06Scenario{op: op, hot: true, repeat: true}, c06Scenario{op: op, hot: true, others: "H3"})
		}
		if os.Geteuid() == 0 && (op.name == "Select" || op.name == "PKSelect" || op.name == "Columns") {
			// permission bits say nothing about writers (root, a descriptor opened earlier): the lock is needed all the same
			scen = append(scen, c06Scenario{op: op, others: "W", readOnly: true}, c06Scenario{op: op, readOnly: true})
		}
		if op.name == "SelectDone" || op.name == "Columns" || op.name == "IndexedSelect(w)" {
			scen = append(scen, c06Scenario{op: op, others: "WX"})
			scen = append(scen, c06Scenario{op: op, others: "WR"}, c06Scenario{op: op, others: "WR", repeat: true})
		}
		if op.name == "SelectDone" || op.name == "Columns" || op.name == "IndexedSelectEq" || op.name == "PKSelect" {
			// the same handle calls again after a call that was refused (writer in EXCLUSIVE), that overlapped a writer, or that simply returned
			scen = append(scen, c06Scenario{op: op, others: "WX", repeat: true}, c06Scenario{op: op, others: "W", repeat: true}, c06Scenario{op: op, repeat: true})
			scen = append(scen, c06Scenario{op: op, others: "WO", repeat: true})
		}
		if op.rows >= 2 && (op.name == "Select" || op.name == "SelectDone(w)" || op.name == "IndexedSelect" || op.name == "IndexedSelectEq") {
			scen = append(scen, c06Scenario{op: op, nestAt: 1}, c06Scenario{op: op, nestAt: 1, others: "W"})
		}
		if op.name == tripleOp {
			scen = append(scen, c06Scenario{op: op, others: "H2+W"}, c06Scenario{op: op, others: "H3+W"})
		}
	}
	r.Set("scenarios", len(scen))
	r.Set("preemption_bound", fmt.Sprintf("pairs %d, triples %d", pairBound, bound))
	var totalExec, totalPre int64
	perScenario := map[string]int{}
	// scenarios run one after the other; the schedules of one scenario in parallel
	for si := range scen {
		sc := &scen[si]
		b := bound
		if !strings.Contains(sc.others, "+") {
			b = pairBound
		}
		maxExec := 20000
		if r.Thorough() {
			maxExec = 400000
		}
		st := mc.Explore(b, maxExec, nw, func(w int) interface{} { return workers[w] }, func(c *mc.Ctx, ws interface{}) {
			res := c06Run(r, c, ws.(*c06Worker), sc, img)
			r.Eval(1)
			r.Trans(len(res.sched))
			r.State(sc.String() + "|" + strings.Join(res.sched, ","))
			if c.Cost() > 0 || sc.stopAt > 0 || sc.panicAt > 0 || sc.faultAt > 0 {
				r.NontrivialN(1)
				atomic.AddInt64(&totalPre, 1)
			}
			if c.Diverged != "" {
				r.Harness("C06 replay divergence in %s: %s", sc.String(), c.Diverged)
			}
			if c.Cost() == 2 && sc.others == "W" {
				r.Sample(map[string]interface{}{"scenario": sc.String(), "schedule": res.sched})
			}
		})
		atomic.AddInt64(&totalExec, int64(st.Executions))
		perScenario[sc.String()] = st.Executions
		r.Outcome(fmt.Sprintf("others=%q", sc.others))
		if st.Capped {
			r.NotExhaustive(fmt.Sprintf("scenario %s capped at %d schedules", sc.String(), maxExec))
		}
	}
	r.Set("schedules", totalExec)
	r.Set("schedules_per_scenario", perScenario)
	c06Driver(r, dir, img)
	c06Unreferenced(r, dir, img)
}

// c06Driver: database/sql result sets left open after k rows hold the lock;
// Close releases it.
func c06Driver(r *ev.Run, dir string, img []byte) {
	path := filepath.Join(dir, "driver.sqlite")
	os.WriteFile(path, img, 0o644)
	mypid := os.Getpid()
	db, err := sql.Open("sqlittle", path)
	if err != nil {
		r.Harness("sql.Open: %v", err)
		return
	}
	defer db.Close()
	for k := 1; k <= 3; k++ {
		rows, err := db.Query("SELECT id, pad FROM t")
		if err != nil {
			r.Violation("C06:driver-query", fmt.Sprintf("query: %v", err), nil)
			return
		}
		for i := 0; i < k && rows.Next(); i++ {
		}
		r.Eval(1)
		r.Trans(2)
		art := map[string]interface{}{"scenario": "database/sql result set open after k rows", "k": k}
		locks, _ := FileLocks(path)
		me := StateOf(locks, mypid)
		// after the last row the producer may already have finished; for k < 3 it is parked inside the callback
		if k < 3 && !me.SharedRead {
			r.Violation("C06:driver-lock-not-held", fmt.Sprintf("result set open after %d of 3 rows but the process does not hold the shared lock (%s)", k, me.Description), art)
		}
		rows.Close()
		locks, _ = FileLocks(path)
		me = StateOf(locks, mypid)
		if me.AnyShared || me.PendingAny {
			r.Violation("C06:driver-lock-leaked", fmt.Sprintf("after rows.Close() at row %d the process still holds %s", k, me.Description), art)
		}
	}
}

// c06HotPair: what a writer that dies in the middle of a transaction leaves behind: the database with
// spilled pages of the unfinished transaction and the journal (made once, by a real SQLite connection on
// a scratch copy)
var c06HotOnce sync.Once
var c06HotDB, c06HotJ []byte

func c06HotPair(img []byte) ([]byte, []byte) {
	c06HotOnce.Do(func() {
		dir := ev.TmpDir("c06hot")
		defer os.RemoveAll(dir)
		p := filepath.Join(dir, "hot.sqlite")
		os.WriteFile(p, img, 0o644)
		l, err := lite.Open(p, "")
		if err != nil {
			return
		}
		defer l.Close()
		if err := l.Exec("PRAGMA cache_size=1; BEGIN; UPDATE t SET v = 'uncommitted'; UPDATE w SET v = 99; INSERT INTO t VALUES (77, 'u', 'p')"); err != nil {
			return
		}
		db, _ := os.ReadFile(p)
		j, _ := os.ReadFile(p + "-journal")
		l.Exec("ROLLBACK")
		if len(j) > 512 {
			c06HotDB, c06HotJ = db, j
		}
	})
	return c06HotDB, c06HotJ
}

// c06Unreferenced: the caller does not hold on to the handle (no variable, no deferred Close): the only
// reference is the receiver of the call in progress. A garbage collection - forced here in every row
// callback, followed by a moment for finalizers to run - must not take the file descriptor, and with it the
// lock, away from the call. Plain sqlittle.Open handles on the real file, every select-like call.
func c06Unreferenced(r *ev.Run, dir string, img []byte) {
	// (a file of its own for every call: descriptors of garbage handles of the SAME file that are closed by the
	// collector would drop the lock as well - that is known finding F14, not what is looked at here)
	path := ""
	mypid := os.Getpid()
	type call struct {
		name string
		run  func(cb func()) error
	}
	open := func() *sqlittle.DB {
		h, err := sqlittle.Open(path)
		if err != nil {
			return nil
		}
		return h
	}
	calls := []call{
		{"Select", func(cb func()) error { return open().Select("t", func(sqlittle.Row) { cb() }, "id", "pad") }},
		{"SelectDone", func(cb func()) error {
			return open().SelectDone("t", func(sqlittle.Row) bool { cb(); return false }, "id", "pad")
		}},
		{"IndexedSelect", func(cb func()) error {
			return open().IndexedSelect("t", "t_v", func(sqlittle.Row) { cb() }, "id", "pad")
		}},
		{"IndexedSelectEq", func(cb func()) error {
			return open().IndexedSelectEq("t", "t_v", sqlittle.Key{"a"}, func(sqlittle.Row) { cb() }, "id", "pad")
		}},
		{"PKSelect(w)", func(cb func()) error {
			return open().PKSelect("w", sqlittle.Key{"y"}, func(sqlittle.Row) { cb() }, "pad")
		}},
		{"Select(w)", func(cb func()) error { return open().Select("w", func(sqlittle.Row) { cb() }, "k", "pad") }},
	}
	for ci, c := range calls {
		path = filepath.Join(dir, fmt.Sprintf("unreferenced%d.sqlite", ci))
		os.WriteFile(path, img, 0o644)
		rows := 0
		lost := ""
		err := c.run(func() {
			rows++
			runtime.GC()
			runtime.Gosched()
			time.Sleep(2 * time.Millisecond) // the finalizer goroutine gets its turn
			runtime.GC()
			if lost != "" {
				return
			}
			if locks, lerr := FileLocks(path); lerr == nil {
				if me := StateOf(locks, mypid); !me.SharedRead {
					lost = fmt.Sprintf("in the callback of row %d, after a garbage collection, the process does not hold the shared lock (%s)", rows, me.Description)
				}
			}
		})
		r.Eval(1)
		r.Trans(rows)
		r.NontrivialN(1)
		art := map[string]interface{}{"scenario": "a handle nobody holds on to, garbage collection in every row callback", "call": c.name}
		if lost != "" {
			r.Violation("C06:lock-lost-to-gc:"+opKind(c.name), c.name+" on a handle the caller does not keep: "+lost, art)
		} else if err != nil {
			r.Violation("C06:unreferenced-handle-error:"+opKind(c.name), fmt.Sprintf("%s on a handle the caller does not keep, garbage collection in every row callback: %v after %d rows", c.name, err, rows), art)
		}
	}
	runtime.GC()
}
