package checks

// C05, family "dag": b-trees whose interior pages share a child. Every page is well-formed and no page is its
// own ancestor (the depth limit does not apply), but a walk that takes the file for a tree visits the shared
// subtree once per reference: fan-out ^ depth page visits from a file of a dozen pages. Built from a valid
// image by moving a root leaf away and putting a tower of interior pages in its place, every cell of which
// (and the right-most pointer) names the next page of the tower.

import (
	"encoding/binary"
	"fmt"
	"sort"

	"verif/internal/dbgen"
)

type c05Dag struct {
	object string // a table or an index whose root is a leaf in the base
	depth  int    // interior pages in the tower
	fanout int    // cells per interior page (+1 right-most pointer)
}

func c05DagCases(b *dbgen.Image) []c05Dag {
	var objs []string
	for o := range b.Roots {
		objs = append(objs, o)
	}
	sort.Strings(objs)
	var out []c05Dag
	for _, o := range objs {
		for _, df := range [][2]int{{8, 60}, {3, 60}, {20, 2}, {30, 1}} {
			out = append(out, c05Dag{o, df[0], df[1]})
		}
	}
	return out
}

// c05DagImage builds the image; ok is false when the base has no such object with a leaf root
func c05DagImage(base *dbgen.Image, ps int, c c05Dag, index bool) ([]byte, bool) {
	root, ok := base.Roots[c.object]
	if !ok || root < 2 {
		return nil, false
	}
	orig := base.Bytes
	pages := len(orig) / ps
	leaf := orig[(root-1)*ps : root*ps]
	wantType := byte(13)
	interiorType := byte(5)
	if index {
		wantType, interiorType = 10, 2
	}
	if leaf[0] != wantType {
		return nil, false
	}
	img := append([]byte{}, orig...)
	// the tower occupies the root and depth-1 new pages; the leaf moves behind it
	tower := []int{root}
	for i := 1; i < c.depth; i++ {
		tower = append(tower, pages+i)
	}
	leafPage := pages + c.depth
	img = append(img, make([]byte, c.depth*ps)...)
	copy(img[(leafPage-1)*ps:], leaf)
	for ti, pg := range tower {
		child := leafPage
		if ti+1 < len(tower) {
			child = tower[ti+1]
		}
		p := make([]byte, ps)
		p[0] = interiorType
		binary.BigEndian.PutUint16(p[3:], uint16(c.fanout))
		binary.BigEndian.PutUint32(p[8:], uint32(child))
		// cells from the end of the page downwards
		end := ps
		for ci := 0; ci < c.fanout; ci++ {
			var cell []byte
			cell = binary.BigEndian.AppendUint32(cell, uint32(child))
			if index {
				// payload: a record of one small integer column (header size 2, serial type 1, value)
				cell = append(cell, 3, 2, 1, byte(ci+1))
			} else {
				cell = append(cell, byte(ci+1)) // the key: a one byte varint
			}
			end -= len(cell)
			copy(p[end:], cell)
			binary.BigEndian.PutUint16(p[12+2*ci:], uint16(end))
		}
		binary.BigEndian.PutUint16(p[5:], uint16(end))
		copy(img[(pg-1)*ps:], p)
	}
	// header: the file has grown
	binary.BigEndian.PutUint32(img[28:], uint32(len(img)/ps))
	return img, true
}

func c05DagDesc(c c05Dag) string {
	return fmt.Sprintf("the root leaf of %s replaced by a tower of %d interior pages, each with %d cells and a right-most pointer that all name the next page of the tower (%d^%d visits of the leaf for a walk that does not notice)", c.object, c.depth, c.fanout, c.fanout+1, c.depth)
}
