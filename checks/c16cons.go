package checks

// C16, locality one level down: the constraints of ONE column definition. Every constraint kind owns
// fields of the reported ColumnDef (REFERENCES owns References, COLLATE owns Collate, ...); in a list with
// at most one constraint per kind, what is reported in the fields a constraint owns must be what is
// reported for the column that carries that constraint alone - whatever stands before or behind it.

import (
	"fmt"
	"reflect"
	"strings"

	"verif/internal/ev"
	"verif/internal/lite"

	"github.com/alicebob/sqlittle/sql"
)

type c16Kind struct {
	name  string
	forms []string
	owns  func(c *sql.ColumnDef) interface{}
}

var c16Kinds = []c16Kind{
	{"primary-key", []string{"PRIMARY KEY", "PRIMARY KEY DESC", "PRIMARY KEY ASC", "PRIMARY KEY AUTOINCREMENT", "CONSTRAINT cpk PRIMARY KEY"}, func(c *sql.ColumnDef) interface{} {
		return []interface{}{c.PrimaryKey, c.PrimaryKeyDir, c.AutoIncrement}
	}},
	{"unique", []string{"UNIQUE", "CONSTRAINT cu UNIQUE"}, func(c *sql.ColumnDef) interface{} { return c.Unique }},
	{"null", []string{"NOT NULL", "NULL", "CONSTRAINT cn NOT NULL", "CONSTRAINT cnn NULL"}, func(c *sql.ColumnDef) interface{} { return c.Null }},
	{"collate", []string{"COLLATE NOCASE", "COLLATE RTRIM", "CONSTRAINT cc COLLATE NOCASE"}, func(c *sql.ColumnDef) interface{} { return c.Collate }},
	{"default", []string{"DEFAULT 1", "DEFAULT 'x'", "DEFAULT NULL", "DEFAULT -2", "DEFAULT TRUE", "DEFAULT bare", "CONSTRAINT cd DEFAULT 5"}, func(c *sql.ColumnDef) interface{} { return c.Default }},
	{"check", []string{"CHECK (a > 0)", "CHECK (a IS NOT NULL)", "CONSTRAINT ck CHECK (a > 0)"}, func(c *sql.ColumnDef) interface{} { return c.Checks }},
	{"references", []string{"REFERENCES o(x)", "REFERENCES o(x) ON DELETE CASCADE", "REFERENCES o(x) DEFERRABLE INITIALLY DEFERRED", "REFERENCES o ON UPDATE SET NULL ON DELETE NO ACTION", "REFERENCES o(x) MATCH FULL", "CONSTRAINT cr REFERENCES o(x)"}, func(c *sql.ColumnDef) interface{} {
		if c.References == nil {
			return nil
		}
		return *c.References
	}},
}

func c16ConstraintLocality(r *ev.Run, w *c16Watch) {
	l, err := lite.OpenMem()
	if err != nil {
		r.Harness("lite: %v", err)
		return
	}
	defer l.Close()
	sqliteOK := func(stmt string) bool {
		l.Exec("DROP TABLE IF EXISTS t; DROP TABLE IF EXISTS o; CREATE TABLE o (x PRIMARY KEY);")
		return l.Exec(stmt) == nil
	}
	parse := func(cons []string) (*sql.ColumnDef, string, bool) {
		stmt := "CREATE TABLE t ( a INTEGER " + strings.Join(cons, " ") + " , b )"
		res, err, p := c16Parse(w, stmt)
		if p != nil {
			r.Violation("C16:panic:constraint-locality", fmt.Sprintf("sql.Parse(%q) panics: %v", stmt, p), nil)
			return nil, stmt, false
		}
		if err != nil {
			return nil, stmt, false
		}
		ct, ok := res.(sql.CreateTableStmt)
		if !ok || len(ct.Columns) != 2 {
			return nil, stmt, false
		}
		return &ct.Columns[0], stmt, true
	}
	type item struct {
		kind int
		form string
	}
	var items []item
	alone := map[string]interface{}{}
	for ki, k := range c16Kinds {
		for _, f := range k.forms {
			c, _, ok := parse([]string{f})
			if !ok {
				r.Outcome("constraint-rejected:" + k.name)
				continue
			}
			alone[f] = k.owns(c)
			items = append(items, item{ki, f})
		}
	}
	maxK := 3
	if r.Thorough() {
		maxK = 4
	}
	n := 0
	var rec func(cur []item)
	rec = func(cur []item) {
		if len(cur) >= 2 {
			cons := make([]string, len(cur))
			for i, it := range cur {
				cons[i] = it.form
			}
			c, stmt, ok := parse(cons)
			n++
			r.Eval(1)
			r.Trans(1)
			if ok {
				r.NontrivialN(1)
				for i, it := range cur {
					got := c16Kinds[it.kind].owns(c)
					if !reflect.DeepEqual(got, alone[it.form]) && sqliteOK(stmt) {
						r.Violation("C16:local:column-constraint:"+c16Kinds[it.kind].name, fmt.Sprintf("%q: constraint %d (%s) reported as %+v, alone as %+v", stmt, i+1, it.form, got, alone[it.form]), map[string]interface{}{"statement": stmt, "constraint": it.form})
					}
				}
			}
		}
		if len(cur) == maxK {
			return
		}
	next:
		for _, it := range items {
			for _, c := range cur {
				if c.kind == it.kind {
					continue next
				}
			}
			rec(append(append([]item{}, cur...), it))
		}
	}
	rec(nil)
	r.Set("constraint_lists", n)
}
