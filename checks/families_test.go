package checks

import (
	"testing"

	"verif/internal/dbgen"
)

func TestConformBasic(t *testing.T) {
	for _, ps := range []int{512, 1024, 4096, 65536} {
		for _, big := range []int{0, 700, 3000} {
			spec := &dbgen.Spec{PageSize: ps, Tables: []dbgen.Table{T1(seqRowids(40), big), T2(25, big)}}
			img, err := dbgen.Build(spec)
			if err != nil {
				t.Fatalf("ps=%d big=%d build: %v", ps, big, err)
			}
			if err := Conform(spec, img); err != nil {
				t.Fatalf("ps=%d big=%d: %v", ps, big, err)
			}
			t.Logf("ps=%d big=%d pages=%d depth=%v spill=%v", ps, big, img.Pages, img.Depth, img.Spill)
		}
	}
}
