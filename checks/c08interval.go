package checks

// C08, interval family (kind H): between two commits the file can be unusable for a while - another
// connection switched it to WAL mode, or a writer died and left a hot journal - and usable again later (back
// to a rollback journal; recovered by the next SQLite connection). Every sequence up to a depth over
// {the handle reads, the file becomes unusable, it comes back with a change, a plain commit}: while it is
// unusable the handle's reads fail, whenever it is usable they return what a fresh handle returns - whatever
// the handle saw, or failed to see, before.

import (
	"fmt"
	"os"
	"path/filepath"
	"strings"

	"verif/internal/ev"
	"verif/internal/lite"
)

const c08iSetup = `PRAGMA page_size=512;
CREATE TABLE t (id INTEGER PRIMARY KEY, v, pad);
CREATE INDEX t_v ON t (v);
CREATE TABLE w (k TEXT PRIMARY KEY, v) WITHOUT ROWID;
WITH RECURSIVE n(i) AS (SELECT 1 UNION ALL SELECT i+1 FROM n WHERE i<120)
INSERT INTO t SELECT i, 'v'||(i%7), substr('pppppppppppppppppppppppppppppppppppppppppppppppppppppppppppppppppppppppp', 1, 10+i%60) FROM n;
INSERT INTO w VALUES ('a', 1), ('b', 2), ('c', 3);`

func c08Intervals(r *ev.Run) {
	dir := ev.TmpDir("c08i")
	defer os.RemoveAll(dir)
	depth := 5
	if r.Thorough() {
		depth = 6
	}
	// R: the handle reads. U: the file becomes unusable. B: it comes back, changed. C: a plain commit.
	alphabet := "RUBC"
	var seqs []string
	var rec func(cur string, usable bool)
	rec = func(cur string, usable bool) {
		if len(cur) > 0 && cur[len(cur)-1] == 'R' && strings.ContainsAny(cur, "U") {
			seqs = append(seqs, cur)
		}
		if len(cur) == depth {
			return
		}
		for _, a := range alphabet {
			switch a {
			case 'U':
				if usable {
					rec(cur+"U", false)
				}
			case 'B':
				if !usable {
					rec(cur+"B", true)
				}
			case 'C':
				if usable {
					rec(cur+"C", true)
				}
			case 'R':
				rec(cur+"R", usable)
			}
		}
	}
	rec("R", true) // every handle has read once: its caches are warm
	rec("", true)  // ... or has only been opened
	r.Set("interval_histories", len(seqs)*2)
	n := 0
	for _, kind := range []string{"wal", "hot-journal"} {
		for _, seq := range seqs {
			n++
			c08Interval(r, dir, n, kind, seq)
		}
	}
}

func c08Interval(r *ev.Run, dir string, n int, kind, seq string) {
	path := filepath.Join(dir, fmt.Sprintf("i%d.sqlite", n))
	defer func() {
		for _, ext := range []string{"", "-wal", "-shm", "-journal"} {
			os.Remove(path + ext)
		}
	}()
	l, err := lite.Open(path, "")
	if err != nil {
		r.Harness("C08 interval: %v", err)
		return
	}
	if err := l.Exec(c08iSetup); err != nil {
		r.Harness("C08 interval setup: %v", err)
		l.Close()
		return
	}
	l.Close()
	h, err := OpenEnv(path)
	if err != nil {
		r.Harness("C08 interval open: %v", err)
		return
	}
	defer h.H.Close()
	art := map[string]interface{}{"family": "unusable-interval", "unusable_by": kind, "history": seq, "legend": "R the handle reads, U the file becomes unusable, B it comes back with a change, C a plain commit", "setup": c08iSetup}
	r.Eval(1)
	r.Trans(len(seq))
	r.State(kind + "/" + seq)
	r.NontrivialN(1)
	usable := true
	var crashed *Peer
	defer func() {
		if crashed != nil {
			crashed.Stop()
		}
	}()
	commits := 0
	for i, a := range seq {
		switch a {
		case 'U':
			commits++
			if kind == "wal" {
				lw, err := lite.Open(path, "")
				if err != nil {
					r.Harness("C08 interval writer: %v", err)
					return
				}
				lw.Query("PRAGMA journal_mode=WAL")
				lw.Exec(fmt.Sprintf("INSERT INTO t VALUES (%d, 'in the wal', 'p')", 1000+commits))
				lw.Close()
			} else {
				// a writer in another process spills an unfinished transaction and dies
				p, err := StartPeer()
				if err != nil {
					r.Harness("peer: %v", err)
					return
				}
				p.MustOK("open " + path)
				p.MustOK("exec PRAGMA cache_size=1")
				p.MustOK("exec BEGIN")
				p.MustOK(fmt.Sprintf("exec UPDATE t SET v = 'uncommitted%d', pad = pad || 'xxxxxxxxxxxxxxxxxxxxxxxxxxxxxxxxxxxxxxxxxxxxxxxxxxxx'", commits))
				p.Stop() // killed: the journal stays, the locks go
				if _, err := os.Stat(path + "-journal"); err != nil {
					r.Harness("C08 interval: the dead writer left no journal")
					return
				}
			}
			usable = false
		case 'B', 'C':
			commits++
			lw, err := lite.Open(path, "")
			if err != nil {
				r.Harness("C08 interval writer: %v", err)
				return
			}
			if a == 'B' && kind == "wal" {
				lw.Query("PRAGMA journal_mode=DELETE")
			}
			// (for a hot journal the connection's first access rolls the dead writer's transaction back)
			if err := lw.Exec(fmt.Sprintf("UPDATE t SET v = 'commit%d' WHERE id %% 5 = %d; DELETE FROM w WHERE k = 'b'; INSERT OR REPLACE INTO w VALUES ('n%d', %d)", commits, commits%5, commits, commits)); err != nil {
				r.Harness("C08 interval writer: %v", err)
				lw.Close()
				return
			}
			lw.Close()
			usable = true
		case 'R':
			got, gerr := LittleDump(h.H, h.D)
			if !usable {
				if gerr == nil {
					r.Violation("C08:interval:unusable-file-read:"+kind, fmt.Sprintf("history %s, step %d: the file is unusable (%s) but the handle reads it without an error", seq, i+1, kind), art)
					return
				}
				continue
			}
			fresh, err := OpenEnv(path)
			if err != nil {
				r.Harness("C08 interval fresh open (history %s step %d): %v", seq, i+1, err)
				return
			}
			want, werr := LittleDump(fresh.H, fresh.D)
			fresh.H.Close()
			if werr != nil {
				r.Harness("C08 interval fresh read (history %s step %d): %v", seq, i+1, werr)
				return
			}
			if gerr != nil {
				r.Violation("C08:interval:read-error:"+kind, fmt.Sprintf("history %s, step %d: the file is usable again but the handle fails: %v", seq, i+1, gerr), art)
				return
			}
			if got.String() != want.String() {
				r.Violation("C08:interval:stale:"+kind, fmt.Sprintf("history %s, step %d: the handle reads something else than a fresh handle: %s", seq, i+1, firstLineDiff(got.String(), want.String())), art)
				return
			}
		}
	}
}
