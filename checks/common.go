// Package checks holds one exhaustive bounded exploration per property.
package checks

import (
	"bytes"
	"encoding/hex"
	"fmt"
	"math"
	"os"
	"regexp"
	"strconv"
	"strings"
	"unicode/utf8"

	"verif/internal/ev"
	"verif/internal/lite"

	"github.com/alicebob/sqlittle"
	sdb "github.com/alicebob/sqlittle/db"
)

type Check struct {
	Level string
	Fn    func(r *ev.Run)
}

var Registry = map[string]Check{}

// Subcommands are non-check entry points of vcheck (peer, worker, setup ...)
var Subcommands = map[string]func(args []string) int{}

// ---------------------------------------------------------------- values

// VS renders a value unambiguously (storage class + exact value)
func VS(v interface{}) string {
	switch t := v.(type) {
	case nil:
		return "NULL"
	case int64:
		return "i:" + strconv.FormatInt(t, 10)
	case int:
		return "i:" + strconv.Itoa(t)
	case float64:
		return "f:" + strconv.FormatFloat(t, 'g', -1, 64)
	case string:
		return "t:" + strconv.Quote(t)
	case []byte:
		return "b:" + hex.EncodeToString(t)
	default:
		return fmt.Sprintf("?%T:%v", v, v)
	}
}

func RowS(row []interface{}) string {
	s := make([]string, len(row))
	for i, v := range row {
		s[i] = VS(v)
	}
	return "[" + strings.Join(s, ", ") + "]"
}

func RowsS(rows [][]interface{}) []string {
	out := make([]string, len(rows))
	for i, r := range rows {
		out[i] = RowS(r)
	}
	return out
}

// ValEq is typed equality: got (from sqlittle) vs want (reference). An
// integral REAL may surface as an int64 (documented by sqlittle), only if
// intForReal.
func ValEq(got, want interface{}, intForReal bool) bool {
	switch w := want.(type) {
	case nil:
		return got == nil
	case int64:
		g, ok := got.(int64)
		return ok && g == w
	case float64:
		switch g := got.(type) {
		case float64:
			return g == w || (math.IsNaN(g) && math.IsNaN(w)) || math.Float64bits(g) == math.Float64bits(w)
		case int64:
			return intForReal && float64(g) == w && w == math.Trunc(w) && math.Abs(w) < 1e18
		}
		return false
	case string:
		g, ok := got.(string)
		return ok && g == w
	case []byte:
		g, ok := got.([]byte)
		return ok && bytes.Equal(g, w)
	}
	return false
}

func RowEq(got, want []interface{}, intForReal bool) bool {
	if len(got) != len(want) {
		return false
	}
	for i := range got {
		if !ValEq(got[i], want[i], intForReal) {
			return false
		}
	}
	return true
}

func RowsEq(got, want [][]interface{}, intForReal bool) bool {
	if len(got) != len(want) {
		return false
	}
	for i := range got {
		if !RowEq(got[i], want[i], intForReal) {
			return false
		}
	}
	return true
}

// CopyRow deep-copies a sqlittle row (values may point into page buffers)
func CopyRow(r sqlittle.Row) []interface{} {
	out := make([]interface{}, len(r))
	for i, v := range r {
		if b, ok := v.([]byte); ok {
			out[i] = append([]byte{}, b...)
		} else {
			out[i] = v
		}
	}
	return out
}

func CopyRec(r sdb.Record) []interface{} { return CopyRow(sqlittle.Row(r)) }

// ---------------------------------------------------------------- SQLite side helpers

// QI quotes an identifier for SQLite
func QI(s string) string { return `"` + strings.ReplaceAll(s, `"`, `""`) + `"` }

// SQLLit renders a value as an SQL literal of exactly that storage class
func SQLLit(v interface{}) string {
	switch t := v.(type) {
	case nil:
		return "NULL"
	case int64:
		if t == math.MinInt64 {
			return "(-9223372036854775807-1)"
		}
		return strconv.FormatInt(t, 10)
	case int:
		return strconv.Itoa(t)
	case float64:
		if math.IsInf(t, 1) {
			return "9e999"
		}
		if math.IsInf(t, -1) {
			return "-9e999"
		}
		s := strconv.FormatFloat(t, 'e', 17, 64)
		return s
	case string:
		if strings.IndexByte(t, 0) >= 0 || !utf8.ValidString(t) {
			return "CAST(x'" + hex.EncodeToString([]byte(t)) + "' AS TEXT)"
		}
		return "'" + strings.ReplaceAll(t, "'", "''") + "'"
	case []byte:
		return "x'" + hex.EncodeToString(t) + "'"
	}
	panic(fmt.Sprintf("SQLLit %T", v))
}

type LiteIndex struct {
	Name    string
	Unique  bool
	Origin  string // c, u, pk
	Partial bool
	Where   string // partial index WHERE text
	SQL     string
	// key + aux columns in b-tree order
	Cols []LiteIndexCol
	// the rowid keyword that is not shadowed by a declared column of the table
	RowidKw string
}

type LiteIndexCol struct {
	Cid  int64 // -1 rowid, -2 expression
	Name string
	Desc bool
	Coll string
	Key  bool
}

type LiteTable struct {
	Name         string
	SQL          string
	Cols         []string // visible columns, in order
	ColTypes     []string
	ColPK        []int64 // pk position (1-based) or 0
	WithoutRowid bool
	Indexes      []LiteIndex
}

var reWhere = regexp.MustCompile(`(?is)\)\s*WHERE\s+(.*)$`)

// LiteSchema describes all user tables of a database as SQLite sees them
func LiteSchema(l *lite.DB) ([]LiteTable, error) {
	rows, err := l.Query(`SELECT name, sql FROM sqlite_master WHERE type='table' AND name NOT LIKE 'sqlite_%' ORDER BY rowid`)
	if err != nil {
		return nil, err
	}
	var out []LiteTable
	for _, r := range rows {
		t := LiteTable{Name: r[0].(string)}
		if s, ok := r[1].(string); ok {
			t.SQL = s
		}
		xi, err := l.Query(`PRAGMA table_xinfo(` + QI(t.Name) + `)`)
		if err != nil {
			return nil, err
		}
		for _, c := range xi {
			// cid name type notnull dflt pk hidden
			if c[6].(int64) == 1 {
				continue // hidden column of a virtual table; generated columns (2, 3) are ordinary columns for SELECT *
			}
			t.Cols = append(t.Cols, c[1].(string))
			t.ColTypes = append(t.ColTypes, c[2].(string))
			t.ColPK = append(t.ColPK, c[5].(int64))
		}
		// WITHOUT ROWID: selecting rowid fails
		if _, err := l.Query(`SELECT rowid FROM ` + QI(t.Name) + ` LIMIT 0`); err != nil {
			t.WithoutRowid = true
		}
		il, err := l.Query(`PRAGMA index_list(` + QI(t.Name) + `)`)
		if err != nil {
			return nil, err
		}
		for _, ir := range il {
			// seq name unique origin partial
			ix := LiteIndex{Name: ir[1].(string), Unique: ir[2].(int64) != 0, Origin: ir[3].(string), Partial: ir[4].(int64) != 0, RowidKw: RowidKeyword(t.Cols)}
			sq, _ := l.Query(`SELECT sql FROM sqlite_master WHERE type='index' AND name=?1`, ix.Name)
			if len(sq) == 1 {
				if s, ok := sq[0][0].(string); ok {
					ix.SQL = s
					if ix.Partial {
						if m := reWhere.FindStringSubmatch(s); m != nil {
							ix.Where = m[1]
						}
					}
				}
			}
			xr, err := l.Query(`PRAGMA index_xinfo(` + QI(ix.Name) + `)`)
			if err != nil {
				return nil, err
			}
			for _, x := range xr {
				// seqno cid name desc coll key
				c := LiteIndexCol{Cid: x[1].(int64), Desc: x[3].(int64) != 0, Key: x[5].(int64) != 0}
				if s, ok := x[2].(string); ok {
					c.Name = s
				}
				if s, ok := x[4].(string); ok {
					c.Coll = s
				}
				ix.Cols = append(ix.Cols, c)
			}
			t.Indexes = append(t.Indexes, ix)
		}
		out = append(out, t)
	}
	return out, nil
}

// OrderBy gives the ORDER BY terms producing the index's b-tree order.
// exprs are the SQL texts of expression key columns (cid -2), in order.
func (ix *LiteIndex) OrderBy(exprs []string) (string, bool) {
	var terms []string
	e := 0
	for _, c := range ix.Cols {
		var t string
		switch {
		case c.Cid == -1:
			t = ix.RowidKw
			if t == "" {
				t = "rowid"
			}
		case c.Cid == -2:
			if e >= len(exprs) {
				return "", false
			}
			t = "(" + exprs[e] + ")"
			e++
		default:
			t = QI(c.Name)
		}
		if c.Coll != "" && c.Cid != -1 {
			t += " COLLATE " + c.Coll
		}
		if c.Desc {
			t += " DESC"
		}
		terms = append(terms, t)
	}
	return strings.Join(terms, ", "), true
}

func (t *LiteTable) Index(name string) *LiteIndex {
	for i := range t.Indexes {
		if SameID(t.Indexes[i].Name, name) {
			return &t.Indexes[i]
		}
	}
	return nil
}

// RowidKeyword gives the rowid keyword that no declared column shadows
// ("" if all three are taken: the rowid is then not accessible)
func RowidKeyword(cols []string) string {
	for _, kw := range []string{"rowid", "_rowid_", "oid"} {
		shadowed := false
		for _, c := range cols {
			if SameID(c, kw) {
				shadowed = true
			}
		}
		if !shadowed {
			return kw
		}
	}
	return ""
}

func (t *LiteTable) PKOrder(l *lite.DB) string {
	if !t.WithoutRowid {
		return RowidKeyword(t.Cols)
	}
	// the pk index of a WITHOUT ROWID table
	for i := range t.Indexes {
		if t.Indexes[i].Origin == "pk" {
			var terms []string
			for _, c := range t.Indexes[i].Cols {
				if !c.Key {
					continue
				}
				s := QI(c.Name)
				if c.Coll != "" {
					s += " COLLATE " + c.Coll
				}
				if c.Desc {
					s += " DESC"
				}
				terms = append(terms, s)
			}
			return strings.Join(terms, ", ")
		}
	}
	return "1"
}

func colList(cols []string) string {
	q := make([]string, len(cols))
	for i, c := range cols {
		q[i] = QI(c)
	}
	return strings.Join(q, ", ")
}

// ---------------------------------------------------------------- sqlittle side helpers

// SelectAll runs Select and copies the rows
func SelectAll(h *sqlittle.DB, table string, cols ...string) ([][]interface{}, error) {
	var rows [][]interface{}
	err := h.Select(table, func(r sqlittle.Row) { rows = append(rows, CopyRow(r)) }, cols...)
	return rows, err
}

func IndexedAll(h *sqlittle.DB, table, index string, cols ...string) ([][]interface{}, error) {
	var rows [][]interface{}
	err := h.IndexedSelect(table, index, func(r sqlittle.Row) { rows = append(rows, CopyRow(r)) }, cols...)
	return rows, err
}

// Safely runs fn and turns a panic into an error string
func Safely(fn func()) (panicked interface{}) {
	defer func() {
		if p := recover(); p != nil {
			panicked = p
		}
	}()
	fn()
	return nil
}

func errS(err error) string {
	if err == nil {
		return "<nil>"
	}
	return err.Error()
}

// MakeDB runs a script in a fresh in-memory SQLite with the page size and
// returns the serialized image.
func MakeDB(pageSize int, script string) ([]byte, error) {
	l, err := lite.OpenMem()
	if err != nil {
		return nil, err
	}
	defer l.Close()
	if err := l.Exec(fmt.Sprintf("PRAGMA page_size=%d;", pageSize)); err != nil {
		return nil, err
	}
	if err := l.Exec(script); err != nil {
		return nil, err
	}
	img := l.Serialize()
	if img == nil {
		return nil, fmt.Errorf("serialize failed")
	}
	return img, nil
}

func MustMakeDB(pageSize int, script string) []byte {
	b, err := MakeDB(pageSize, script)
	if err != nil {
		panic(fmt.Sprintf("MakeDB: %v\n%s", err, script))
	}
	return b
}

var PageSizes = []int{512, 1024, 2048, 4096, 8192, 16384, 32768, 65536}

func keyOf(vs ...interface{}) sqlittle.Key { return sqlittle.Key(vs) }

func dbKeyOf(vs ...interface{}) sdb.Key {
	k := make(sdb.Key, len(vs))
	for i, v := range vs {
		k[i].V = v
	}
	return k
}

func readHeader(path string) []byte {
	b, err := os.ReadFile(path)
	if err != nil || len(b) < 100 {
		return nil
	}
	return b[:100]
}

// FoldID folds an identifier the way SQLite compares identifiers: ASCII
// letters only ("é" and "É", "k" and the Kelvin sign are different names).
func FoldID(s string) string {
	b := []byte(s)
	for i, c := range b {
		if c >= 'A' && c <= 'Z' {
			b[i] = c + 'a' - 'A'
		}
	}
	return string(b)
}

// SameID: two identifiers name the same thing for SQLite
func SameID(a, b string) bool { return FoldID(a) == FoldID(b) }
