package checks

// C05 — Corrupt or hostile files never crash or hang the reader. Kind E: the
// deviation is a corrupted field / byte / truncation / hostile SQL text /
// journal content; every mutant runs every public operation inside a worker
// subprocess (panics recovered and reported, memory growth and CPU time
// watched, worker death attributed to the mutant announced last).

import (
	"bufio"
	"crypto/sha256"
	"encoding/binary"
	"encoding/json"
	"fmt"
	"os"
	"os/exec"
	"path/filepath"
	"runtime"
	"sort"
	"strconv"
	"strings"
	"sync"
	"sync/atomic"
	"syscall"
	"time"

	"verif/internal/dbgen"
	"verif/internal/ev"
	"verif/internal/vpager"

	"github.com/alicebob/sqlittle"
	sdb "github.com/alicebob/sqlittle/db"
)

func init() {
	Registry["C05"] = Check{Level: "exploration", Fn: runC05}
	Subcommands["c05worker"] = c05Worker
}

type c05Base struct {
	name string
	spec *dbgen.Spec
	img  *dbgen.Image
	only map[string]bool // nil: every family; else the families run on this base in the quick tier
}

func c05Bases() []c05Base {
	var out []c05Base
	add := func(name string, spec *dbgen.Spec) {
		img, err := dbgen.Build(spec)
		if err != nil {
			panic("c05 base " + name + ": " + err.Error())
		}
		out = append(out, c05Base{name, spec, img, nil})
	}
	// B0: two-level table tree + all T1 indexes (one of them two-level)
	t1 := T1(rowidSet(7, 2), 0)
	t1.Tree = &dbgen.Tree{Kids: []*dbgen.Tree{{N: 3}, {N: 2}, {N: 2}}}
	t1.Indexes[1].Tree = &dbgen.Tree{Kids: []*dbgen.Tree{{N: 3}, {N: 3}}}
	add("t1-two-level", &dbgen.Spec{PageSize: 512, Tables: []dbgen.Table{t1}})
	// B1: multi-page overflow chains in table and index cells
	t1b := T1(rowidSet(3, 0), 1300)
	t1b.Indexes = t1b.Indexes[:2]
	add("t1-overflow", &dbgen.Spec{PageSize: 512, Tables: []dbgen.Table{t1b}})
	// B2: WITHOUT ROWID, two-level, secondary index
	t2 := T2(7, 0)
	t2.Tree = &dbgen.Tree{Kids: []*dbgen.Tree{{N: 3}, {N: 3}}}
	add("t2-without-rowid", &dbgen.Spec{PageSize: 512, Tables: []dbgen.Table{t2}})
	// B3: multi-page sqlite_master, autoindex-backed primary key
	t3 := T3(5)
	add("t3-multipage-master", &dbgen.Spec{PageSize: 512, Tables: []dbgen.Table{t3, T2(2, 0)},
		MasterTree: &dbgen.Tree{Kids: []*dbgen.Tree{{N: 2}, {N: 2}, {N: 1}}}})
	// B4: overflow chains in sqlite_master (a definition longer than a page), in a WITHOUT ROWID table and in its index
	t2b := T2(4, 1300)
	t3b := T3(2)
	t3b.SQL = strings.Replace(t3b.SQL, "(", strings.Repeat(" ", 1100)+"(", 1)
	add("master-and-without-rowid-overflow", &dbgen.Spec{PageSize: 512, Tables: []dbgen.Table{t3b, t2b}})
	out[len(out)-1].only = map[string]bool{"chain": true, "field": true, "trunc": true}
	return out
}

// ---------------------------------------------------------------- mutants

type c05Mutant struct {
	Family string `json:"family"`
	Base   int    `json:"base"`
	N      int    `json:"n"` // index within (family, base)
	Desc   string `json:"desc"`
	Class  string `json:"class"` // canonical input class (for signatures)
	img    []byte
	sql    string // hostile-sql family: the statement placed in sqlite_master
}

func be(width int, v uint64) []byte {
	b := make([]byte, width)
	for i := width - 1; i >= 0; i-- {
		b[i] = byte(v)
		v >>= 8
	}
	return b
}

// boundary alphabet for a field
func c05FieldValues(f dbgen.Field, cur []byte, pages int, ps int) [][]byte {
	var out [][]byte
	w := f.Width
	var curV uint64
	for _, c := range cur {
		curV = curV<<8 | uint64(c)
	}
	addV := func(v uint64) { out = append(out, be(w, v)) }
	isVarint := f.Kind == "paylen" || f.Kind == "rowid" || f.Kind == "sepkey" || f.Kind == "rechdr" || f.Kind == "serial"
	if isVarint {
		// same width where possible, plus 9-byte negative / huge values written over the following bytes
		vals := [][]byte{{0}, {1}, {0x7f}, {0x80, 0x00}, {0x81, 0x00}, {0xff, 0x7f}, {0xff, 0xff, 0x7f},
			{0xff, 0xff, 0xff, 0xff, 0xff, 0xff, 0xff, 0xff, 0xff},                                        // -1
			{0x80, 0x80, 0x80, 0x80, 0x80, 0x80, 0x80, 0x80, 0x00},                                        // 0 in 9 bytes
			{0xc0, 0x80, 0x80, 0x80, 0x80, 0x80, 0x80, 0x80, 0x00},                                        // min int64
			{0xbf, 0xff, 0xff, 0xff, 0xff, 0xff, 0xff, 0xff, 0xff},                                        // max int64
			{0x88, 0x80, 0x80, 0x80, 0x00},                                                                // 2^31
			{0x8f, 0xff, 0xff, 0xff, 0x7f},                                                                // 2^32-1
			{byte(0x80 | (ps >> 7)), byte(ps & 0x7f)},                                                     // page size
			{byte(0x80 | ((ps * 4) >> 14)), byte(0x80 | (((ps * 4) >> 7) & 0x7f)), byte((ps * 4) & 0x7f)}, // 4 pages
		}
		if f.Kind == "serial" {
			for s := 0; s <= 13; s++ {
				vals = append(vals, []byte{byte(s)})
			}
		}
		if len(cur) == 1 {
			vals = append(vals, []byte{cur[0] + 1}, []byte{cur[0] - 1}, []byte{cur[0] + 2})
		}
		return vals
	}
	addV(0)
	addV(1)
	addV(curV + 1)
	addV(curV - 1)
	max := uint64(1)<<(8*uint(w)) - 1
	addV(max)
	addV(max >> 1)
	addV(max>>1 + 1)
	switch f.Kind {
	case "child", "rightmost", "overflow", "next-overflow", "hdr:freelisttrunk":
		addV(uint64(f.Page))      // self
		addV(uint64(pages))       // last page
		addV(uint64(pages + 1))   // one past the end
		addV(uint64(pages * 100)) // far out
		addV(2)
		for p := 1; p <= pages && p <= 16; p++ {
			addV(uint64(p))
		}
	case "pagetype":
		for _, v := range []uint64{2, 5, 10, 13, 3, 12} {
			addV(v)
		}
	case "cellptr", "contentstart", "firstfreeblock", "freeblock-next", "freeblock-size":
		addV(uint64(ps))
		addV(uint64(ps - 1))
		addV(uint64(ps - 4))
		addV(8)
		addV(12)
		addV(100)
		addV(curV + 4)
		addV(curV - 4)
	case "ncells":
		addV(uint64(ps / 2))
		addV(curV + 2)
		addV(200)
	case "hdr:pagesize":
		for _, v := range []uint64{512, 1024, 4096, 32768, 3, 513} {
			addV(v)
		}
	}
	return out
}

func c05TargetClass(f dbgen.Field, val []byte, pages int) string {
	var v uint64
	for _, c := range val {
		v = v<<8 | uint64(c)
	}
	switch f.Kind {
	case "child", "rightmost", "overflow", "next-overflow":
		switch {
		case v == 0:
			return "zero"
		case v == uint64(f.Page):
			return "self"
		case v > uint64(pages):
			return "out-of-range"
		default:
			return "other-page"
		}
	}
	if len(val) == 9 {
		return "9-byte-varint"
	}
	return "value"
}

// enumerate calls fn for every mutant of a family on a base image, in a
// deterministic order
func c05Enumerate(family string, bi int, b *c05Base, thorough bool, fn func(m *c05Mutant) bool) {
	n := 0
	emit := func(desc, class string, img []byte, sql string) bool {
		m := &c05Mutant{Family: family, Base: bi, N: n, Desc: desc, Class: class, img: img, sql: sql}
		n++
		return fn(m)
	}
	orig := b.img.Bytes
	ps := b.spec.PageSize
	switch family {
	case "field":
		for _, f := range b.img.Fields {
			cur := orig[f.Off : f.Off+f.Width]
			for _, val := range c05FieldValues(f, cur, b.img.Pages, ps) {
				if f.Off+len(val) > len(orig) {
					continue
				}
				if string(val) == string(orig[f.Off:f.Off+len(val)]) {
					continue
				}
				img := append([]byte{}, orig...)
				copy(img[f.Off:], val)
				if !emit(fmt.Sprintf("field %s (page %d, %s) at %d := %x", f.Kind, f.Page, f.Info, f.Off, val), f.Kind+"->"+c05TargetClass(f, val, b.img.Pages), img, "") {
					return
				}
			}
		}
	case "field2":
		// two related fields: pairs inside one page, restricted to structural kinds
		byPage := map[int][]dbgen.Field{}
		for _, f := range b.img.Fields {
			switch f.Kind {
			case "child", "rightmost", "overflow", "next-overflow", "paylen", "rechdr", "ncells", "cellptr", "pagetype":
				byPage[f.Page] = append(byPage[f.Page], f)
			}
		}
		for pg := 1; pg <= b.img.Pages; pg++ {
			fs := byPage[pg]
			for i := 0; i < len(fs); i++ {
				for j := i + 1; j < len(fs); j++ {
					v1 := c05FieldValues(fs[i], orig[fs[i].Off:fs[i].Off+fs[i].Width], b.img.Pages, ps)
					v2 := c05FieldValues(fs[j], orig[fs[j].Off:fs[j].Off+fs[j].Width], b.img.Pages, ps)
					for _, a := range v1 {
						for _, c := range v2 {
							if fs[i].Off+len(a) > len(orig) || fs[j].Off+len(c) > len(orig) {
								continue
							}
							img := append([]byte{}, orig...)
							copy(img[fs[i].Off:], a)
							copy(img[fs[j].Off:], c)
							if !emit(fmt.Sprintf("fields %s@%d:=%x, %s@%d:=%x (page %d)", fs[i].Kind, fs[i].Off, a, fs[j].Kind, fs[j].Off, c, pg),
								fs[i].Kind+"->"+c05TargetClass(fs[i], a, b.img.Pages)+"+"+fs[j].Kind+"->"+c05TargetClass(fs[j], c, b.img.Pages), img, "") {
								return
							}
						}
					}
				}
			}
		}
	case "byte":
		for off := 0; off < len(orig); off++ {
			c := orig[off]
			vals := []byte{0, 1, 0x7f, 0x80, 0xff, c + 1, c - 1, c ^ 0x80}
			if thorough {
				vals = vals[:0]
				for v := 0; v < 256; v++ {
					vals = append(vals, byte(v))
				}
			}
			seen := map[byte]bool{c: true}
			for _, v := range vals {
				if seen[v] {
					continue
				}
				seen[v] = true
				img := append([]byte{}, orig...)
				img[off] = v
				if !emit(fmt.Sprintf("byte %d (page %d) := %#x", off, off/ps+1, v), "byte", img, "") {
					return
				}
			}
		}
	case "trunc":
		for l := 0; l <= len(orig); l += 64 {
			if !emit(fmt.Sprintf("truncated to %d bytes", l), "truncated", append([]byte{}, orig[:l]...), "") {
				return
			}
			for _, d := range []int{-1, 1, 100} {
				if l%ps == 0 && l+d >= 0 && l+d <= len(orig) {
					if !emit(fmt.Sprintf("truncated to %d bytes", l+d), "truncated", append([]byte{}, orig[:l+d]...), "") {
						return
					}
				}
			}
		}
	case "dag":
		for _, c := range c05DagCases(b.img) {
			_, isIndex := b.img.IndexOwner[c.object]
			img, ok := c05DagImage(b.img, ps, c, isIndex)
			if !ok {
				continue
			}
			if !emit(c05DagDesc(c), "shared-subtree", img, "") {
				return
			}
		}
	case "sparse":
		// a page with nothing in it but a header: every page type x EVERY cell count (the pointer array of a count
		// that does not fit runs over bytes that are all valid pointers, so no other test refuses the page first),
		// in the place of sqlite_master's root and of every table and index root
		if b.only != nil || len(b.img.Roots) == 0 {
			return
		}
		roots := []int{1}
		var objs []string
		for o := range b.img.Roots {
			objs = append(objs, o)
		}
		sort.Strings(objs)
		for _, o := range objs {
			if r := b.img.Roots[o]; r >= 2 {
				roots = append(roots, r)
			}
		}
		if !thorough && len(roots) > 3 {
			roots = roots[:3]
		}
		for _, root := range roots {
			for _, typ := range []byte{13, 5, 10, 2} {
				for n := 0; n <= ps/2+2; n++ {
					img := append([]byte{}, orig...)
					pg := img[(root-1)*ps : root*ps]
					hdr := pg
					if root == 1 {
						hdr = pg[100:]
					}
					for i := range hdr {
						hdr[i] = 0
					}
					hdr[0] = typ
					hdr[3], hdr[4] = byte(n>>8), byte(n)
					if !emit(fmt.Sprintf("page %d := an empty page of type %d with cell count %d", root, typ, n), "sparse-page", img, "") {
						return
					}
				}
			}
		}
	case "chain":
		// overflow chains that cycle with a tail (the last page points back to the k-th page of the chain)
		// x declared payload lengths up to 2^62: a two-page, two-field corruption no single-field
		// mutant reaches. Applied to the first overflowing cells of every object that has any.
		var owners []string
		for o, n := range b.img.Spill {
			if n > 0 {
				owners = append(owners, o)
			}
		}
		sort.Strings(owners)
		seen := map[[32]byte]bool{sha256.Sum256(orig): true}
		for _, o := range owners {
			for nth := 0; nth < b.img.Spill[o] && nth < 2; nth++ {
				for _, decl := range []int64{0, 4000, 1 << 20, 1 << 31, 1 << 40, 1 << 62} {
					for loop := 0; loop <= 4; loop++ {
						spec := *b.spec
						spec.Chains = []dbgen.ChainHack{{Owner: o, Nth: nth, DeclLen: decl, LoopTo: loop}}
						img, err := dbgen.Build(&spec)
						if err != nil {
							continue
						}
						h := sha256.Sum256(img.Bytes)
						if seen[h] {
							continue
						}
						seen[h] = true
						cls := "chain-ends"
						if loop == 1 {
							cls = "cycle-through-first-page"
						} else if loop > 1 {
							cls = "cycle-with-tail"
						}
						if decl > 0 {
							cls += "+declared-length"
						}
						if !emit(fmt.Sprintf("overflow chain of cell #%d of %s: declared payload length %d (0 = real), last page points to page #%d of the chain (0 = end)", nth, o, decl, loop), cls, img.Bytes, "") {
							return
						}
					}
				}
			}
		}
	case "record":
		for i, raw := range c05HostileRecords() {
			for where := 0; where < 2; where++ {
				spec := *b.spec
				spec.Tables = append([]dbgen.Table{}, b.spec.Tables...)
				t := spec.Tables[0]
				t.Tree, spec.MasterTree = nil, nil
				if where == 0 {
					t.Rows = append([]dbgen.Row{}, t.Rows...)
					if len(t.Rows) == 0 {
						continue
					}
					rw := t.Rows[len(t.Rows)/2]
					rw.Raw = raw
					t.Rows[len(t.Rows)/2] = rw
					if t.WithoutRowid {
						continue
					}
				} else {
					if len(t.Indexes) == 0 {
						continue
					}
					t.Indexes = append([]dbgen.Index{}, t.Indexes...)
					ix := t.Indexes[len(t.Indexes)-1]
					ix.ExtraRaw = [][]byte{raw}
					ix.Tree = nil
					t.Indexes[len(t.Indexes)-1] = ix
				}
				spec.Tables[0] = t
				img, err := dbgen.Build(&spec)
				if err != nil {
					continue
				}
				if !emit(fmt.Sprintf("hostile record #%d %x as %s payload", i, clipB(raw, 24), []string{"table row", "index entry"}[where]), "hostile-record", img.Bytes, "") {
					return
				}
			}
		}
	case "sql":
		for _, s := range c05HostileSQL() {
			spec := *b.spec
			spec.Tables = append([]dbgen.Table{}, b.spec.Tables...)
			t := spec.Tables[0]
			if strings.HasPrefix(strings.ToUpper(strings.TrimSpace(s)), "CREATE INDEX") || strings.HasPrefix(strings.ToUpper(strings.TrimSpace(s)), "CREATE UNIQUE") {
				if len(t.Indexes) == 0 {
					continue
				}
				t.Indexes = append([]dbgen.Index{}, t.Indexes...)
				ix := t.Indexes[len(t.Indexes)-1]
				ix.SQL = s
				t.Indexes[len(t.Indexes)-1] = ix
			} else {
				t.SQL = s
			}
			spec.Tables[0] = t
			spec.MasterTree = nil
			img, err := dbgen.Build(&spec)
			if err != nil {
				continue
			}
			desc := strconv.Quote(s)
			if len(desc) > 400 {
				desc = fmt.Sprintf("%s ... %s (%d bytes)", desc[:200], desc[len(desc)-60:], len(s))
			}
			if !emit("sqlite_master sql := "+desc, "hostile-sql", img.Bytes, s) {
				return
			}
		}
	}
}

func clipB(b []byte, n int) []byte {
	if len(b) > n {
		return b[:n]
	}
	return b
}

// record payloads with hostile header sizes and serial types
func c05HostileRecords() [][]byte {
	v9 := func(b ...byte) []byte { return b }
	neg1 := v9(0xff, 0xff, 0xff, 0xff, 0xff, 0xff, 0xff, 0xff, 0xff)
	min64 := v9(0xc0, 0x80, 0x80, 0x80, 0x80, 0x80, 0x80, 0x80, 0x00)
	max64 := v9(0xbf, 0xff, 0xff, 0xff, 0xff, 0xff, 0xff, 0xff, 0xff)
	neg2 := v9(0xff, 0xff, 0xff, 0xff, 0xff, 0xff, 0xff, 0xff, 0xfe)
	big := v9(0x88, 0x80, 0x80, 0x80, 0x00)
	var out [][]byte
	rec := func(hdrSize []byte, serials [][]byte, body []byte) {
		var r []byte
		r = append(r, hdrSize...)
		for _, s := range serials {
			r = append(r, s...)
		}
		out = append(out, append(r, body...))
	}
	hs := func(n int) []byte { return []byte{byte(n)} }
	for _, st := range [][]byte{neg1, min64, max64, neg2, big, {10}, {11}, {12}, {13}, {0x81, 0x00}, {0xff, 0x7f}, {14}, {15}, {7}, {6}, {5}, {3}} {
		// one column of that serial type, short and long bodies, as first and as last column
		rec(hs(1+len(st)), [][]byte{st}, nil)
		rec(hs(1+len(st)), [][]byte{st}, []byte{1, 2, 3})
		rec(hs(2+len(st)), [][]byte{{1}, st}, []byte{5})
		rec(hs(2+len(st)), [][]byte{st, {1}}, []byte{5, 6, 7, 8, 9, 10, 11, 12, 13})
		rec(hs(3+len(st)), [][]byte{{0x17}, st, {9}}, []byte("hello"))
	}
	// header sizes: zero, smaller than itself, larger than the payload, 9-byte, negative
	rec(hs(0), nil, nil)
	rec(hs(0), [][]byte{{1}}, []byte{1})
	rec(hs(1), nil, nil)
	rec(hs(200), [][]byte{{1}}, []byte{1})
	rec(neg1, [][]byte{{1}}, []byte{1})
	rec(min64, [][]byte{{1}}, []byte{1})
	rec(max64, [][]byte{{1}}, []byte{1})
	rec([]byte{0x80, 0x80, 0x80, 0x80, 0x80, 0x80, 0x80, 0x80, 0x03}, [][]byte{{1}}, []byte{1})
	rec([]byte{0x80}, nil, nil)
	rec([]byte{0x80, 0x80}, nil, nil)
	out = append(out, []byte{}, []byte{0}, []byte{2, 0x80}, []byte{3, 0x80, 0x80}, []byte{10, 0xff, 0xff, 0xff, 0xff, 0xff, 0xff, 0xff, 0xff})
	return out
}

// definitions that are syntactically fine for sqlittle's parser but do not
// fit the table/index they are attached to, and plain garbage
func c05HostileSQL() []string {
	out := c05HostileSQLBase()
	// every ASCII punctuation character at the start of a token, inside a name, and at the very end of the text
	for c := byte(0x21); c < 0x7f; c++ {
		if (c >= '0' && c <= '9') || (c >= 'A' && c <= 'Z') || (c >= 'a' && c <= 'z') {
			continue
		}
		ch := string([]byte{c})
		out = append(out, "CREATE TABLE t1 (a, "+ch+"b, c)", "CREATE TABLE t1 (a"+ch+"b, c) "+ch)
	}
	// a very long run of doubled quotes inside a literal (28 MB of definition text): work per character must not
	// grow with the length, and no recursion per character either
	out = append(out, "CREATE TABLE t1 (a DEFAULT '"+strings.Repeat("''", 14000000)+"', b, c)")
	// an expression index over a sum of 120000 terms (240 KB of definition text): the work to interpret a definition
	// must stay proportional to its length
	out = append(out, "CREATE INDEX t1_part ON t1 ("+strings.Repeat("a+", 120000)+"a)")
	return out
}

func c05HostileSQLBase() []string {
	return []string{
		``, `x`, `CREATE`, `CREATE TABLE`, `CREATE TABLE t1`, `CREATE TABLE t1 (`, `CREATE TABLE t1 ()`, `SELECT a FROM t1`,
		`CREATE TABLE t1 (a)`, `CREATE TABLE t1 (a, PRIMARY KEY (nosuch))`, `CREATE TABLE t1 (a, PRIMARY KEY (a+1))`,
		`CREATE TABLE t1 (a, UNIQUE (nosuch))`, `CREATE TABLE t1 (a, UNIQUE (a+1, a))`,
		`CREATE TABLE t1 (a INTEGER, PRIMARY KEY (nosuch DESC))`, `CREATE TABLE t1 (a, PRIMARY KEY (nosuch)) WITHOUT ROWID`,
		`CREATE TABLE t1 (a, b, PRIMARY KEY (b, nosuch)) WITHOUT ROWID`, `CREATE TABLE t1 (a, PRIMARY KEY (a+1)) WITHOUT ROWID`,
		`CREATE TABLE t1 (a) WITHOUT ROWID`, `CREATE TABLE t1 (a PRIMARY KEY, b PRIMARY KEY) WITHOUT ROWID`,
		`CREATE TABLE t1 (a PRIMARY KEY, b, c, d, e, f, g, h) WITHOUT ROWID`,
		`CREATE TABLE t1 (a INTEGER PRIMARY KEY, a, a, a, a)`, `CREATE TABLE t1 (rowid, oid, _rowid_)`,
		`CREATE TABLE t1 (a COLLATE nosuch PRIMARY KEY, b COLLATE nosuch UNIQUE)`, `CREATE TABLE t1 (a, b, c, d, e, f, g, h, i, j, k, l, m)`,
		`CREATE TABLE t2 (a COLLATE nosuch, b, c, d, PRIMARY KEY (b DESC, a)) WITHOUT ROWID`,
		`CREATE TABLE t2 (a, b, PRIMARY KEY (b DESC, a, c, d, e)) WITHOUT ROWID`,
		`CREATE TABLE t2 (a, PRIMARY KEY (a, a, a)) WITHOUT ROWID`,
		`CREATE TABLE other (a INTEGER PRIMARY KEY, b, c, d, e)`, `CREATE TABLE t1 (a INTEGER PRIMARY KEY DESC)`,
		`CREATE TABLE "t1" ("a" INTEGER PRIMARY KEY, [b], ` + "`c`" + `, 'd', e DEFAULT -9223372036854775808)`,
		`CREATE TABLE t1 (a DEFAULT 0x8000000000000000, b DEFAULT 1e999, c DEFAULT '` + strings.Repeat("x", 600) + `')`,
		`CREATE TABLE t1 (` + strings.Repeat("c,", 300) + `z)`,
		`CREATE TABLE t1 (a` + strings.Repeat(" CHECK((((((((a))))))))", 40) + `)`,
		`CREATE TABLE t1 (a REFERENCES x(y) ON DELETE SET NULL ON UPDATE CASCADE DEFERRABLE INITIALLY DEFERRED, FOREIGN KEY (nosuch) REFERENCES z(q))`,
		`CREATE TABLE t1 (s, b, PRIMARY KEY (ſ))`, `CREATE TABLE t1 (k, b, UNIQUE (K))`, `CREATE TABLE t1 (σ, b, PRIMARY KEY (ς)) WITHOUT ROWID`, `CREATE TABLE t1 (µ, PRIMARY KEY (μ))`,
		`CREATE TABLE t1 (ß, ss, PRIMARY KEY (SS, ß))`, `CREATE TABLE t1 (i, İ, ı, I, PRIMARY KEY (İ, ı))`, `CREATE TABLE t1 (a, PRIMARY KEY (Å))`, `CREATE INDEX t1_part ON t1 (ſ, K)`,
		`CREATE TABLE t1 (éa, b)`, "CREATE TABLE t1 (a, b\x00c)", "CREATE TABLE t1 (a\xff\xfe)", `CREATE TABLE t1 (a, "unterminated)`,
		`CREATE INDEX t1_part ON t1 (nosuch)`, `CREATE INDEX t1_part ON other (c)`, `CREATE INDEX t1_part ON t1 (c, c, c, c, c, c, c, c)`,
		`CREATE INDEX t1_part ON t1 (c + 1 COLLATE nosuch DESC)`, `CREATE INDEX t1_part ON t1 (a, b, c, d, e)`, `CREATE UNIQUE INDEX t1_part ON t1 (c) WHERE`,
		`CREATE INDEX t2_c ON t2 (nosuch, a)`, `CREATE INDEX t2_c ON t2 (c, a, b, d, c, a, b, d)`, `CREATE INDEX t2_c ON t2 (c COLLATE nosuch)`,
		`CREATE INDEX x ON t1 (b)`, `CREATE INDEX t1_part ON t1 ()`, `CREATE TABLE t1 (a,`, `CREATE TABLE t1 (a) WITHOUT`, `CREATE TABLE t1 (a INTEGER(`, `CREATE TABLE t1 (a DEFAULT -)`,
	}
}

// ---------------------------------------------------------------- the operations run on every mutant

type c05Op struct {
	name string
	fn   func()
}

// every public operation on whatever the (possibly corrupt) database claims to contain
func c05AllOps(img []byte, names *[]string) []c05Op {
	var ops []c05Op
	var h *sqlittle.DB
	var d *sdb.Database
	add := func(name string, fn func()) { ops = append(ops, c05Op{name, fn}) }
	keys := []sqlittle.Key{{}, {int64(1)}, {"apple", nil}, {nil}, {[]byte{1}, 2.5, "x"}, {int64(20)}}
	dbkeys := []sdb.Key{{}, {{V: int64(1)}}, {{V: "apple", Collate: "nocase", Desc: true}, {V: nil}}, {{V: "q"}}, {{V: []byte{1}}, {V: 2.5}, {V: "x", Collate: "rtrim"}}}
	add("Open", func() {
		var err error
		h, d, _, err = vpager.OpenImage(img)
		if err != nil {
			h, d = nil, nil
		}
	})
	low := func(fn func()) func() {
		return func() {
			if d == nil {
				return
			}
			if d.RLock() != nil {
				return
			}
			defer d.RUnlock()
			fn()
		}
	}
	tables := []string{"t1", "t2", "t3", "sqlite_master", "nosuch"}
	indexes := []string{"t1_bc", "t1_c_rt", "t1_part", "sqlite_autoindex_t1_1", "t2_c", "sqlite_autoindex_t3_1", "sqlite_autoindex_t3_2", "nosuch"}
	add("Tables/Indexes/Info", low(func() {
		ts, _ := d.Tables()
		is, _ := d.Indexes()
		d.Info()
		*names = append(append([]string{}, ts...), is...)
	}))
	for _, t := range tables {
		t := t
		add("Schema("+t+")", low(func() { d.Schema(t) }))
		add("Table.Def/Scan/Rowid("+t+")", low(func() {
			tb, err := d.Table(t)
			if err != nil {
				return
			}
			tb.Def()
			n := 0
			tb.Scan(func(int64, sdb.Record) bool { n++; return n > 5000 })
			for _, id := range []int64{1, 20, 0, -1, 1 << 40} {
				tb.Rowid(id)
			}
		}))
		add("NonRowidTable.Scan/ScanEq("+t+")", low(func() {
			tb, err := d.NonRowidTable(t)
			if err != nil {
				return
			}
			tb.Def()
			n := 0
			tb.Scan(func(sdb.Record) bool { n++; return n > 5000 })
			for _, k := range dbkeys {
				n = 0
				tb.ScanEq(k, func(sdb.Record) bool { n++; return n > 5000 })
			}
		}))
		add("Columns/Select/SelectRowid/PKSelect("+t+")", func() {
			if h == nil {
				return
			}
			cols, _ := h.Columns(t)
			n := 0
			h.SelectDone(t, func(r sqlittle.Row) bool { r.ScanStrings(); n++; return n > 5000 }, cols...)
			h.Select(t, func(r sqlittle.Row) {}, "rowid")
			h.SelectRowid(t, 20, cols...)
			h.SelectRowid(t, 1, "a", "b")
			for _, k := range keys {
				h.PKSelect(t, k, func(r sqlittle.Row) { r.ScanStrings() }, cols...)
			}
		})
		add("Driver("+t+")", func() {
			if h == nil {
				return
			}
			c := &collector{stopAt: 5000}
			driverQuery(h, "SELECT * FROM "+t, c)
		})
		for _, ix := range indexes {
			ix := ix
			if !(strings.Contains(ix, t) || ix == "nosuch") {
				continue
			}
			add("IndexedSelect/Eq("+t+","+ix+")", func() {
				if h == nil {
					return
				}
				cols, _ := h.Columns(t)
				h.IndexedSelect(t, ix, func(r sqlittle.Row) { r.ScanStrings() }, cols...)
				for _, k := range keys {
					h.IndexedSelectEq(t, ix, k, func(r sqlittle.Row) {}, cols...)
				}
			})
		}
	}
	for _, ix := range indexes {
		ix := ix
		add("Index.Def/Scan/ScanMin/ScanEq/ScanRange("+ix+")", low(func() {
			in, err := d.Index(ix)
			if err != nil {
				return
			}
			in.Def()
			n := 0
			in.Scan(func(sdb.Record) bool { n++; return n > 5000 })
			for i, k := range dbkeys {
				n = 0
				in.ScanMin(k, func(sdb.Record) bool { n++; return n > 5000 })
				in.ScanEq(k, func(sdb.Record) bool { return false })
				in.ScanRange(k, dbkeys[(i+1)%len(dbkeys)], func(sdb.Record) bool { return false })
			}
		}))
	}
	return ops
}

// ---------------------------------------------------------------- worker

const (
	c05HeapLimit = 3 << 30 // bytes of live heap that count as "allocates without bound" (fault-free: < 1 MB)
	c05CPULimit  = 20.0    // CPU seconds for one operation on a <=16 page image (fault-free: microseconds)
)

func cpuSeconds() float64 {
	var ru syscall.Rusage
	syscall.Getrusage(syscall.RUSAGE_SELF, &ru)
	return float64(ru.Utime.Sec) + float64(ru.Utime.Usec)/1e6 + float64(ru.Stime.Sec) + float64(ru.Stime.Usec)/1e6
}

// panicSite gives the innermost sqlittle function on the stack of a panic
func panicSite(stack string) string {
	lines := strings.Split(stack, "\n")
	for _, l := range lines {
		if strings.HasPrefix(l, "github.com/alicebob/sqlittle") {
			f := l
			if i := strings.LastIndex(f, "("); i > 0 {
				f = f[:i]
			}
			f = strings.TrimPrefix(f, "github.com/alicebob/sqlittle")
			f = strings.TrimPrefix(f, "/")
			return f
		}
	}
	return "unknown"
}

// c05worker <family> <base> <from> <thorough>: enumerates the mutants of one
// (family, base) from index <from>, announcing each before running it.
func c05Worker(args []string) int {
	if len(args) < 5 {
		return 2
	}
	family := args[0]
	bi, _ := strconv.Atoi(args[1])
	from, _ := strconv.Atoi(args[2])
	to, _ := strconv.Atoi(args[3])
	thorough := args[4] == "1"
	// hard backstop on address space
	lim := syscall.Rlimit{Cur: 12 << 30, Max: 12 << 30}
	syscall.Setrlimit(syscall.RLIMIT_AS, &lim)
	bases := c05Bases()
	b := &bases[bi]
	out := bufio.NewWriter(os.Stdout)
	defer out.Flush()
	var mu sync.Mutex
	curOp := ""
	curStart := 0.0 // a serial number of the running operation
	opSeq := 0.0
	curMutant := -1
	// watchdog: memory growth and CPU time of the current operation. CPU time is added up tick by tick and a
	// tick counts for half a second at most: when the machine is stopped or its clock steps (a snapshot of
	// the virtual machine did that) the accounting of one tick can jump by a minute, which is no CPU time the
	// operation had. A real loop collects its 20 seconds over at least 40 ticks.
	go func() {
		var ms runtime.MemStats
		lastCPU, used, usedFor := cpuSeconds(), 0.0, -1.0
		for {
			time.Sleep(20 * time.Millisecond)
			runtime.ReadMemStats(&ms)
			mu.Lock()
			op, st, m := curOp, curStart, curMutant
			mu.Unlock()
			now := cpuSeconds()
			d := now - lastCPU
			lastCPU = now
			if d > 0.5 {
				d = 0.5
			}
			if st != usedFor {
				usedFor, used = st, 0 // another operation started
			}
			used += d
			if ms.HeapAlloc > c05HeapLimit {
				fmt.Fprintf(os.Stdout, "\nV %d unbounded-alloc %s\n", m, strconv.Quote(op))
				os.Exit(3)
			}
			if op != "" && used > c05CPULimit {
				fmt.Fprintf(os.Stdout, "\nV %d hang %s\n", m, strconv.Quote(op))
				os.Exit(4)
			}
		}
	}()
	evals, opsRun, slow := 0, 0, 0
	c05Enumerate(family, bi, b, thorough, func(m *c05Mutant) bool {
		if m.N < from {
			return true
		}
		if m.N >= to {
			return false
		}
		fmt.Fprintf(out, "S %d\n", m.N)
		out.Flush()
		var names []string
		for _, op := range c05AllOps(m.img, &names) {
			mu.Lock()
			opSeq++
			curOp, curStart, curMutant = op.name, opSeq, m.N
			mu.Unlock()
			t0 := cpuSeconds()
			func() {
				defer func() {
					if p := recover(); p != nil {
						buf := make([]byte, 8192)
						buf = buf[:runtime.Stack(buf, false)]
						// skip the frames of the recover machinery
						st := string(buf)
						if i := strings.Index(st, "panic("); i >= 0 {
							st = st[i:]
						}
						fmt.Fprintf(out, "V %d panic %s %s %s\n", m.N, strconv.Quote(op.name), strconv.Quote(panicSite(st)), strconv.Quote(fmt.Sprint(p)))
					}
				}()
				op.fn()
			}()
			opsRun++
			if cpuSeconds()-t0 > 1.0 {
				slow++
			}
		}
		mu.Lock()
		curOp = ""
		mu.Unlock()
		evals++
		return true
	})
	fmt.Fprintf(out, "E %d %d %d\n", evals, opsRun, slow)
	return 0
}

// ---------------------------------------------------------------- parent

type c05Shard struct {
	family   string
	base     int
	from, to int
}

func runC05(r *ev.Run) {
	r.Rule = "base images: 5 small dbgen images (512-byte pages: two-level table and index trees, multi-page overflow chains in a rowid table, an index, a WITHOUT ROWID table and sqlite_master itself, multi-page sqlite_master; the fifth image runs the chain, field and trunc families only in the quick tier); mutants: (field) every structural field x a boundary alphabet (0, 1, +-1, 0x7f/0x80/0xff patterns, own page, every page, page count+1, 9-byte/negative varints, every serial type), (byte) every byte x 8 boundary values (x256 thorough), (chain) overflow chains whose last page points back to each page of the chain (cycle through the first page / cycle with a tail) x declared payload lengths {real, 4000, 2^20, 2^31, 2^40, 2^62}, (sparse) sqlite_master's root and table / index roots replaced by an empty page of every type x every cell count 0..pagesize/2+2, (dag) towers of interior pages that all share their child: depth x fan-out in {8x60, 3x60, 20x2, 30x1} under every table and index whose root is a leaf, (trunc) every length multiple of 64 and around page boundaries, (sql) hostile CREATE texts in sqlite_master incl. every ASCII punctuation character at the start of a token, inside a name and at the end of the text, a 28 MB literal of doubled quotes and an expression index over a sum of 120000 terms, (field2, thorough) pairs of related fields in one page, (journal) journal header fields x lengths on real files; every mutant runs every public operation in a worker subprocess; oracle: no panic, live heap < 3 GB, < 20 s CPU per operation (a hang, an allocation or a death of the worker counts only when it comes back twice with the mutant run alone). non-trivial = mutants (all differ from the base)"
	bin := os.Getenv("VCHECK_BIN")
	if bin == "" {
		bin, _ = os.Executable()
	}
	bases := c05Bases()
	for i := range bases {
		spec := bases[i].spec
		if err := Conform(spec, bases[i].img); err != nil {
			r.Harness("conformance base %s: %v", bases[i].name, err)
			return
		}
		r.Validated(1)
		r.StateBytes(bases[i].img.Bytes)
	}
	families := []string{"field", "chain", "dag", "sparse", "record", "byte", "trunc", "sql"}
	if r.Thorough() {
		families = append(families, "field2")
	}
	var shards []c05Shard
	var mu sync.Mutex
	type fb struct {
		f  string
		bi int
	}
	var fbs []fb
	for _, f := range families {
		for bi := range bases {
			if !r.Thorough() && bases[bi].only != nil && !bases[bi].only[f] {
				continue
			}
			fbs = append(fbs, fb{f, bi})
		}
	}
	counts := map[string]int{}
	ev.Parallel(len(fbs), func(i int) {
		n := 0
		c05Enumerate(fbs[i].f, fbs[i].bi, &bases[fbs[i].bi], r.Thorough(), func(m *c05Mutant) bool { n++; return true })
		chunk := 1500
		if fbs[i].f == "field2" {
			chunk = 20000
		}
		mu.Lock()
		counts[fbs[i].f] += n
		for from := 0; from < n; from += chunk {
			to := from + chunk
			if to > n {
				to = n
			}
			shards = append(shards, c05Shard{fbs[i].f, fbs[i].bi, from, to})
		}
		mu.Unlock()
	})
	r.Set("mutants_per_family", counts)
	thorough := "0"
	if r.Thorough() {
		thorough = "1"
	}
	var wg sync.WaitGroup
	sem := make(chan struct{}, runtime.NumCPU())
	for _, sh := range shards {
		sh := sh
		wg.Add(1)
		sem <- struct{}{}
		go func() {
			defer func() { <-sem; wg.Done() }()
			c05RunShard(r, bin, sh, thorough, bases)
		}()
	}
	wg.Wait()
	c05Journal(r)
}

// describe the n-th mutant of a shard again (for artefacts)
func c05Describe(sh c05Shard, n int, bases []c05Base, thorough bool) *c05Mutant {
	var found *c05Mutant
	c05Enumerate(sh.family, sh.base, &bases[sh.base], thorough, func(m *c05Mutant) bool {
		if m.N == n {
			found = m
			return false
		}
		return true
	})
	return found
}

func c05RunShard(r *ev.Run, bin string, sh c05Shard, thorough string, bases []c05Base) {
	from := sh.from
	deaths := 0
	for from < sh.to {
		cmd := exec.Command(bin, "c05worker", sh.family, strconv.Itoa(sh.base), strconv.Itoa(from), strconv.Itoa(sh.to), thorough)
		cmd.Env = append(os.Environ(), "GOGC=200", "GOMAXPROCS=2")
		stdout, err := cmd.StdoutPipe()
		if err != nil {
			r.Harness("c05 worker pipe: %v", err)
			return
		}
		var stderr strings.Builder
		cmd.Stderr = &stderr
		if err := cmd.Start(); err != nil {
			r.Harness("c05 worker start: %v", err)
			return
		}
		sc := bufio.NewScanner(stdout)
		sc.Buffer(make([]byte, 1<<20), 1<<20)
		last := -1
		done := false
		reported := map[int]bool{}
		for sc.Scan() {
			line := sc.Text()
			switch {
			case strings.HasPrefix(line, "S "):
				last, _ = strconv.Atoi(line[2:])
			case strings.HasPrefix(line, "E "):
				var a, b, c int
				fmt.Sscanf(line, "E %d %d %d", &a, &b, &c)
				r.Eval(a)
				r.NontrivialN(a)
				r.Trans(b)
				r.Outcome("survived:" + sh.family)
				r.Add("slow_operations_over_1s_cpu", int64(c))
				done = true
			case strings.HasPrefix(line, "V "):
				parts := strings.SplitN(line, " ", 4)
				n, _ := strconv.Atoi(parts[1])
				kind := parts[2]
				rest := ""
				if len(parts) > 3 {
					rest = parts[3]
				}
				m := c05Describe(sh, n, bases, thorough == "1")
				if m == nil {
					r.Harness("c05: cannot re-enumerate mutant %s/%d/%d", sh.family, sh.base, n)
					continue
				}
				art := map[string]interface{}{"family": sh.family, "base": bases[sh.base].name, "n": n, "mutation": m.Desc, "class": m.Class, "report": rest, "replay": fmt.Sprintf("vcheck c05worker %s %d %d %d %s", sh.family, sh.base, n, n+1, thorough)}
				if m.sql != "" {
					art["sql"] = m.sql
					if len(m.sql) > 2000 {
						art["sql"] = fmt.Sprintf("%s ... (%d bytes; the replay command rebuilds it)", m.sql[:400], len(m.sql))
					}
				}
				switch kind {
				case "panic":
					var op, site, msg string
					fmt.Sscanf(rest, "%q %q %q", &op, &site, &msg)
					r.Outcome("panic:" + site)
					r.Violation("C05:panic:"+site+":"+panicClass(msg), fmt.Sprintf("%s panics in %s: %s [%s]", op, site, msg, m.Desc), art)
				case "unbounded-alloc", "hang":
					reported[n] = true
					if !c05Reproduces(bin, sh, n, thorough, kind) {
						// the report does not come back when the mutant is run alone: an event outside the code under
						// test (the machine stopped, the process was signalled); not a finding
						r.Add("worker_reports_not_reproduced", 1)
						r.Outcome("report-not-reproduced:" + kind)
						continue
					}
					if kind == "hang" {
						r.Outcome("hang")
						r.Violation("C05:hang:"+m.Class, fmt.Sprintf("%s does not finish within %.0f s CPU [%s]", rest, c05CPULimit, m.Desc), art)
						continue
					}
					r.Outcome("unbounded-alloc")
					r.Violation("C05:unbounded-alloc:"+m.Class, fmt.Sprintf("%s allocates without bound (> %d MB live heap on a %d byte image) [%s]", rest, c05HeapLimit>>20, len(bases[sh.base].img.Bytes), m.Desc), art)
				}
			}
		}
		err = cmd.Wait()
		if done {
			return
		}
		// the worker died on mutant `last`
		deaths++
		if last < 0 || deaths > 2000 {
			r.Harness("c05 worker for %s/%d died before announcing a mutant (or too many deaths): %v %s", sh.family, sh.base, err, clipS(stderr.String(), 300))
			return
		}
		if !reported[last] {
			m := c05Describe(sh, last, bases, thorough == "1")
			desc, class := "?", "?"
			if m != nil {
				desc, class = m.Desc, m.Class
			}
			se := stderr.String()
			kind := "worker-died"
			if i := strings.Index(se, "panic: "); i >= 0 && strings.Contains(se, "goroutine ") {
				// a panic outside the calling goroutine (the driver's producer): not recoverable by the caller
				msg := se[i+7:]
				if j := strings.Index(msg, "\n"); j > 0 {
					msg = msg[:j]
				}
				site := panicSite(se[i:])
				r.Outcome("panic:" + site)
				r.Violation("C05:panic:"+site+":"+panicClass(msg), fmt.Sprintf("a goroutine of the database/sql driver panics in %s (kills the process): %s [%s]", site, msg, desc),
					map[string]interface{}{"family": sh.family, "base": bases[sh.base].name, "n": last, "mutation": desc, "class": class})
				r.Eval(1)
				from = last + 1
				continue
			}
			if strings.Contains(se, "stack overflow") || strings.Contains(se, "goroutine stack exceeds") {
				kind = "stack-overflow"
			} else if strings.Contains(se, "out of memory") || strings.Contains(se, "cannot allocate memory") {
				kind = "out-of-memory"
			}
			if kind == "worker-died" && !c05Reproduces(bin, sh, last, thorough, "died") {
				// killed from outside (a signal that was not meant for it): the mutant runs fine alone
				r.Add("worker_reports_not_reproduced", 1)
				r.Outcome("report-not-reproduced:died")
				from = last // the same mutant again, with a new worker
				continue
			}
			r.Outcome(kind)
			r.Violation("C05:"+kind+":"+class, fmt.Sprintf("the worker process died (%v) while running every operation on [%s]: %s", err, desc, clipS(se, 300)),
				map[string]interface{}{"family": sh.family, "base": bases[sh.base].name, "n": last, "mutation": desc, "class": class})
		}
		r.Eval(1)
		from = last + 1
	}
}

func clipS(s string, n int) string {
	if len(s) > n {
		return s[:n] + "..."
	}
	return s
}

func panicClass(msg string) string {
	switch {
	case strings.Contains(msg, "slice bounds out of range"):
		return "slice-bounds"
	case strings.Contains(msg, "index out of range"):
		return "index-range"
	case strings.Contains(msg, "nil pointer"):
		return "nil-deref"
	case strings.Contains(msg, "makeslice"):
		return "makeslice"
	}
	return "other"
}

// c05Journal: journal bytes on real files
func c05Journal(r *ev.Run) {
	dir := ev.TmpDir("c05j")
	defer os.RemoveAll(dir)
	base := c05Bases()[0].img.Bytes
	db := filepath.Join(dir, "j.sqlite")
	if err := os.WriteFile(db, base, 0o644); err != nil {
		r.Harness("journal family: %v", err)
		return
	}
	magic := []byte{0xd9, 0xd5, 0x05, 0xf9, 0x20, 0xa1, 0x63, 0xd7}
	hdr := func(pageCount, nonce, initial, sector, pagesize uint32) []byte {
		b := append([]byte{}, magic...)
		for _, v := range []uint32{pageCount, nonce, initial, sector, pagesize} {
			var x [4]byte
			binary.BigEndian.PutUint32(x[:], v)
			b = append(b, x[:]...)
		}
		return b
	}
	sectors := []uint32{0, 1, 27, 28, 29, 511, 512, 513, 4096, 65536, 65537, 0x7fffffff, 0x80000000, 0xffffffff}
	lengths := []int{0, 1, 7, 8, 27, 28, 29, 511, 512, 513, 4096, 70000}
	n := 0
	for _, sec := range sectors {
		for _, l := range lengths {
			for _, badMagic := range []bool{false, true} {
				j := hdr(1, 2, 3, sec, 512)
				if badMagic {
					j[3] ^= 0xff
				}
				for len(j) < l {
					j = append(j, byte(len(j)))
				}
				j = j[:l]
				if err := os.WriteFile(db+"-journal", j, 0o644); err != nil {
					r.Harness("journal write: %v", err)
					return
				}
				n++
				art := map[string]interface{}{"family": "journal", "sector_size": sec, "length": l, "bad_magic": badMagic}
				if p := Safely(func() {
					h, err := sqlittle.Open(db)
					if err == nil {
						h.Select("t1", func(sqlittle.Row) {}, "a")
						h.Close()
					}
				}); p != nil {
					r.Violation("C05:panic:journal", fmt.Sprintf("opening with a %d byte journal (sector size field %d) panics: %v", l, sec, p), art)
				}
				r.Eval(1)
				r.NontrivialN(1)
				r.Trans(2)
				if n == 5 {
					r.Sample(art)
				}
			}
		}
	}
	os.Remove(db + "-journal")
	// a journal that is a directory / unreadable
	os.Mkdir(db+"-journal", 0o755)
	if p := Safely(func() {
		h, err := sqlittle.Open(db)
		if err == nil {
			h.Close()
		}
	}); p != nil {
		r.Violation("C05:panic:journal", fmt.Sprintf("journal is a directory: panic %v", p), nil)
	}
	r.Eval(1)
	b, _ := json.Marshal(map[string]interface{}{"family": "field", "base": "t1-two-level", "example": "child pointer := own page"})
	r.Sample(json.RawMessage(b))
}

// c05Reproduces runs one mutant alone, twice: a report of the given kind (hang, unbounded-alloc, or the death
// of the worker = "died") counts only when it comes back both times. What the code under test does with a
// given file is deterministic; what happens to the machine is not.
var c05Confirmed int64

func c05Reproduces(bin string, sh c05Shard, n int, thorough, kind string) bool {
	if atomic.LoadInt64(&c05Confirmed) >= 3 {
		return true // the phenomenon is real in this run (three reports came back twice): no need to pay for every further one
	}
	for i := 0; i < 2; i++ {
		cmd := exec.Command(bin, "c05worker", sh.family, strconv.Itoa(sh.base), strconv.Itoa(n), strconv.Itoa(n+1), thorough)
		cmd.Env = append(os.Environ(), "GOGC=200", "GOMAXPROCS=2")
		out, err := cmd.Output()
		again := false
		for _, line := range strings.Split(string(out), "\n") {
			if strings.HasPrefix(line, "V ") {
				parts := strings.SplitN(line, " ", 4)
				if len(parts) > 2 && parts[2] == kind {
					again = true
				}
			}
		}
		if kind == "died" {
			again = err != nil && !strings.Contains(string(out), "\nE ") && !strings.HasPrefix(string(out), "E ")
		}
		if !again {
			return false
		}
	}
	atomic.AddInt64(&c05Confirmed, 1)
	return true
}
