package checks

// Standard image families built by dbgen, and their conformance run against
// real SQLite.

import (
	"fmt"
	"strings"

	"verif/internal/dbgen"
	"verif/internal/lite"
	"verif/internal/ref"
)

// mixVal: deterministic value of varying storage class
func mixVal(i int) interface{} {
	switch i % 9 {
	case 0:
		return int64(i)
	case 1:
		return fmt.Sprintf("v%02d", i)
	case 2:
		return float64(i) + 0.5
	case 3:
		return nil
	case 4:
		return []byte{byte(i), 0, 0xff}
	case 5:
		return int64(1)<<40 + int64(i)
	case 6:
		return fmt.Sprintf("V%02d", i-5) // case variant of an earlier value
	case 7:
		return fmt.Sprintf("v%02d ", i-6) // trailing space variant
	default:
		return -int64(i) * 1000
	}
}

const T1SQL = `CREATE TABLE t1 (a INTEGER PRIMARY KEY, b COLLATE NOCASE, c, d UNIQUE, e DEFAULT 'dflt')`
const T2SQL = `CREATE TABLE t2 (a COLLATE NOCASE, b, c, d, PRIMARY KEY (b DESC, a)) WITHOUT ROWID`

var T1Cols = []string{"a", "b", "c", "d", "e"}
var T2Cols = []string{"a", "b", "c", "d"}

// T1 builds the standard rowid table over the given rowids. big>0 makes
// column c of every 3rd row a text of that many bytes (overflow).
func T1(rowids []int64, big int) dbgen.Table {
	t := dbgen.Table{
		Name: "t1", SQL: T1SQL, NCols: 5, ColNames: T1Cols, RowidAlias: 0,
		Defaults: []interface{}{nil, nil, nil, nil, "dflt"},
		ColColl:  []string{"", "nocase", "", "", ""},
	}
	bvals := []interface{}{"apple", "Apple", "APPLE ", "banana", nil, "Banana", "cherry", int64(5), "apple", 2.5, []byte("zz")}
	for i, r := range rowids {
		row := dbgen.Row{Rowid: r, Vals: []interface{}{nil, bvals[i%len(bvals)], mixVal(i), int64(i*10 + 1), fmt.Sprintf("e%d", i)}}
		if i%4 == 3 {
			row.Short = 4 // written before ALTER TABLE ADD COLUMN e
		}
		if big > 0 && i%3 == 1 {
			row.Vals[2] = strings.Repeat(string(rune('a'+i%26)), big) + fmt.Sprint(i)
		}
		t.Rows = append(t.Rows, row)
	}
	t.Indexes = []dbgen.Index{
		{Name: "sqlite_autoindex_t1_1", Cols: []dbgen.IdxCol{{Col: 3}}},
		{Name: "t1_bc", SQL: "CREATE INDEX t1_bc ON t1 (b DESC, c)", Cols: []dbgen.IdxCol{{Col: 1, Coll: "nocase", Desc: true}, {Col: 2}}},
		{Name: "t1_c_rt", SQL: "CREATE INDEX t1_c_rt ON t1 (c COLLATE RTRIM)", Cols: []dbgen.IdxCol{{Col: 2, Coll: "rtrim"}}},
		{Name: "t1_b_bin", SQL: "CREATE INDEX t1_b_bin ON t1 (b COLLATE BINARY, c DESC)", Cols: []dbgen.IdxCol{{Col: 1, Coll: "binary"}, {Col: 2, Desc: true}}},
		{Name: "t1_part", SQL: "CREATE INDEX t1_part ON t1 (c) WHERE a > 3", Cols: []dbgen.IdxCol{{Col: 2}},
			Where: func(rowid int64, _ []interface{}) bool { return rowid > 3 }, WhereSQL: "a > 3"},
	}
	return t
}

// T2 builds the standard WITHOUT ROWID table with n rows
func T2(n int, big int) dbgen.Table {
	t := dbgen.Table{
		Name: "t2", SQL: T2SQL, NCols: 4, ColNames: T2Cols, RowidAlias: -1, WithoutRowid: true,
		Defaults: []interface{}{nil, nil, nil, nil},
		PK:       []dbgen.IdxCol{{Col: 1, Desc: true}, {Col: 0, Coll: "nocase"}},
		ColColl:  []string{"nocase", "", "", ""},
	}
	avals := []interface{}{"k", "K2", "m", int64(7), "k3", 1.5, "Z", []byte("b")}
	bvals := []interface{}{int64(1), int64(2), "x", int64(1), 2.5, "X", int64(3)}
	seen := map[string]bool{}
	for i := 0; len(t.Rows) < n; i++ {
		a, b := avals[i%len(avals)], bvals[(i/len(avals)+i)%len(bvals)]
		ka := VS(a)
		if s, ok := a.(string); ok {
			ka = "t:" + strings.ToLower(s)
		}
		key := ka + "|" + VS(b)
		if seen[key] {
			a = fmt.Sprintf("u%d", i)
			key = VS(a) + "|" + VS(b)
		}
		seen[key] = true
		row := dbgen.Row{Vals: []interface{}{a, b, mixVal(i), fmt.Sprintf("d%d", i)}}
		if big > 0 && i%3 == 1 {
			row.Vals[3] = strings.Repeat("q", big) + fmt.Sprint(i)
		}
		t.Rows = append(t.Rows, row)
	}
	t.Indexes = []dbgen.Index{
		{Name: "t2_c", SQL: "CREATE INDEX t2_c ON t2 (c, a)", Cols: []dbgen.IdxCol{{Col: 2}, {Col: 0, Coll: "nocase"}}},
	}
	return t
}

// LogicalRow is the full row (rowid alias filled in, short rows completed
// from defaults)
func LogicalRow(t *dbgen.Table, r dbgen.Row) []interface{} {
	out := make([]interface{}, t.NCols)
	for i := 0; i < t.NCols; i++ {
		switch {
		case i == t.RowidAlias:
			out[i] = r.Rowid
		case r.Short > 0 && i >= r.Short:
			out[i] = t.Defaults[i]
		default:
			out[i] = ref.Plain(r.Vals[i])
		}
	}
	return out
}

func collSQL(c dbgen.IdxCol) string {
	s := ""
	if c.Coll != "" {
		s += " COLLATE " + c.Coll
	}
	if c.Desc {
		s += " DESC"
	}
	return s
}

// Conform hands an image to real SQLite: integrity_check must be ok and
// SQLite must read the logical rows, in table order and (with a sorter, not
// through the index) in every index's order. An error is a bug of the
// machinery, never a property violation.
func Conform(spec *dbgen.Spec, img *dbgen.Image) error {
	l, err := lite.Deserialize(img.Bytes, true)
	if err != nil {
		return fmt.Errorf("deserialize: %v", err)
	}
	defer l.Close()
	ic, err := l.Query("PRAGMA integrity_check")
	if err != nil {
		return fmt.Errorf("integrity_check: %v", err)
	}
	if len(ic) != 1 || ic[0][0] != "ok" {
		return fmt.Errorf("integrity_check: %v", ic)
	}
	for ti := range spec.Tables {
		t := &spec.Tables[ti]
		rows := img.TableRows[t.Name]
		want := make([][]interface{}, len(rows))
		for i, r := range rows {
			want[i] = LogicalRow(t, r)
			if !t.WithoutRowid {
				want[i] = append([]interface{}{r.Rowid}, want[i]...)
			}
		}
		sel := colList(t.ColNames)
		// the rowid keyword that is not shadowed by a declared column
		rowidKw := ""
		for _, kw := range []string{"rowid", "_rowid_", "oid"} {
			shadowed := false
			for _, c := range t.ColNames {
				if SameID(c, kw) {
					shadowed = true
				}
			}
			if !shadowed && rowidKw == "" {
				rowidKw = kw
			}
		}
		if !t.WithoutRowid {
			sel = rowidKw + ", " + sel
		}
		// (a) b-tree order as SQLite walks it
		got, err := l.Query("SELECT " + sel + " FROM " + QI(t.Name) + " NOT INDEXED")
		if t.WithoutRowid {
			got, err = l.Query("SELECT " + sel + " FROM " + QI(t.Name))
		}
		if err != nil {
			return fmt.Errorf("table %s: %v", t.Name, err)
		}
		if !RowsEq(got, want, false) {
			return fmt.Errorf("table %s: SQLite reads %v, builder meant %v", t.Name, clip(RowsS(got)), clip(RowsS(want)))
		}
		// (b) sorted by SQLite's sorter
		ob := "+" + rowidKw
		if t.WithoutRowid {
			var terms []string
			for _, c := range t.PK {
				terms = append(terms, "+"+QI(t.ColNames[c.Col])+collSQL(c))
			}
			ob = strings.Join(terms, ", ")
		}
		got, err = l.Query("SELECT " + sel + " FROM " + QI(t.Name) + " ORDER BY " + ob)
		if err != nil {
			return fmt.Errorf("table %s sorted: %v", t.Name, err)
		}
		if !RowsEq(got, want, false) {
			return fmt.Errorf("table %s: SQLite sorts to %v, builder order %v", t.Name, clip(RowsS(got)), clip(RowsS(want)))
		}
		for ii := range t.Indexes {
			ix := &t.Indexes[ii]
			cols := dbgen.IndexKeyCols(t, ix)
			var selc, obc []string
			for _, c := range cols {
				name := rowidKw
				if c.Col >= 0 {
					name = QI(t.ColNames[c.Col])
				}
				selc = append(selc, name)
				obc = append(obc, "+"+name+collSQL(c))
			}
			where := ""
			if ix.WhereSQL != "" {
				where = " WHERE " + ix.WhereSQL
			}
			wantIx := img.IndexRows[ix.Name]
			// through the index (covering): b-tree order
			got, err := l.Query("SELECT " + strings.Join(selc, ", ") + " FROM " + QI(t.Name) + " INDEXED BY " + QI(ix.Name) + where)
			if err != nil {
				return fmt.Errorf("index %s: %v", ix.Name, err)
			}
			if !RowsEq(got, wantIx, false) {
				return fmt.Errorf("index %s: SQLite reads %v, builder meant %v", ix.Name, clip(RowsS(got)), clip(RowsS(wantIx)))
			}
			// sorter, not the index
			nix := " NOT INDEXED"
			if t.WithoutRowid {
				nix = ""
			}
			got, err = l.Query("SELECT " + strings.Join(selc, ", ") + " FROM " + QI(t.Name) + nix + where + " ORDER BY " + strings.Join(obc, ", "))
			if err != nil {
				return fmt.Errorf("index %s sorted: %v", ix.Name, err)
			}
			if !RowsEq(got, wantIx, false) {
				return fmt.Errorf("index %s: SQLite sorts to %v, builder order %v", ix.Name, clip(RowsS(got)), clip(RowsS(wantIx)))
			}
		}
	}
	return nil
}

func seqRowids(n int) []int64 {
	r := make([]int64, n)
	for i := range r {
		r[i] = int64(i + 1)
	}
	return r
}
