// Package race20 holds the free-running race-detector pass of check C20: the
// same operation bodies as the interleaving exploration, on real threads, with
// no scheduler (a cooperative scheduler's hand-offs are happens-before edges
// that blind the detector). Built with `go test -race -c` and run by vcheck C20.
package race20
