//go:build verif

package race20

import (
	"database/sql"
	"fmt"
	"os"
	"strings"
	"sync"
	"testing"

	"github.com/alicebob/sqlittle"
	sdb "github.com/alicebob/sqlittle/db"
	_ "github.com/alicebob/sqlittle/driver"
)

type body func(h *sqlittle.DB, d *sdb.Database) string

func bodies() []body {
	return []body{
		func(h *sqlittle.DB, d *sdb.Database) string {
			n := 0
			err := h.Select("t1", func(r sqlittle.Row) { n += len(r.ScanStrings()) }, "a", "b", "c", "e")
			return fmt.Sprint("select ", n, err)
		},
		func(h *sqlittle.DB, d *sdb.Database) string {
			n := 0
			err := h.IndexedSelect("t1", "t1_bc", func(r sqlittle.Row) { n++ }, "a", "b")
			return fmt.Sprint("indexed ", n, err)
		},
		func(h *sqlittle.DB, d *sdb.Database) string {
			n := 0
			err := h.IndexedSelectEq("t1", "t1_bc", sqlittle.Key{"APPLE"}, func(r sqlittle.Row) { n++ }, "a")
			return fmt.Sprint("eq ", n, err)
		},
		func(h *sqlittle.DB, d *sdb.Database) string {
			r, err := h.SelectRowid("t1", 20, "b", "c")
			return fmt.Sprint("rowid ", len(r), err)
		},
		func(h *sqlittle.DB, d *sdb.Database) string {
			n := 0
			err := h.PKSelect("t2", sqlittle.Key{int64(1)}, func(r sqlittle.Row) { n++ }, "a", "d")
			cols, _ := h.Columns("t2")
			return fmt.Sprint("pk ", n, len(cols), err)
		},
		func(h *sqlittle.DB, d *sdb.Database) string {
			d.RLock()
			defer d.RUnlock()
			s, err := d.Schema("t1")
			n := 0
			if err == nil {
				n = len(s.Indexes)
			}
			ix, err2 := d.Index("t1_c_rt")
			m := 0
			if err2 == nil {
				ix.ScanMin(sdb.Key{{V: "v", Collate: "rtrim"}}, func(sdb.Record) bool { m++; return false })
			}
			return fmt.Sprint("schema ", n, m, err, err2)
		},
	}
}

func TestRace(t *testing.T) {
	files := strings.Split(os.Getenv("VERIF_RACE_FILES"), ":")
	if len(files) < 2 || files[0] == "" {
		t.Skip("run by vcheck C20")
	}
	bs := bodies()
	// solo results per file
	solo := map[string][]string{}
	for _, f := range files {
		d, err := sdb.OpenFile(f)
		if err != nil {
			t.Fatal(err)
		}
		h := sqlittle.VerifWrap(d)
		for _, b := range bs {
			solo[f] = append(solo[f], b(h, d))
		}
		h.Close()
	}
	var wg sync.WaitGroup
	var mu sync.Mutex
	mismatch := 0
	for g := 0; g < 8; g++ {
		wg.Add(1)
		go func(g int) {
			defer wg.Done()
			f := files[g%len(files)]
			// NOTE: handles on the same file in one process share the process's POSIX locks (see known finding F14);
			// that does not affect results here because nobody writes.
			d, err := sdb.OpenFile(f)
			if err != nil {
				t.Error(err)
				return
			}
			h := sqlittle.VerifWrap(d)
			defer h.Close()
			for it := 0; it < 40; it++ {
				for i := range bs {
					k := (i + g + it) % len(bs)
					if got := bs[k](h, d); got != solo[f][k] {
						mu.Lock()
						mismatch++
						mu.Unlock()
					}
				}
			}
		}(g)
	}
	// a database/sql pool used from several goroutines
	db, err := sql.Open("sqlittle", files[0])
	if err != nil {
		t.Fatal(err)
	}
	defer db.Close()
	var poolWant []string
	{
		rows, err := db.Query("SELECT a, b, c FROM t1")
		if err != nil {
			t.Fatal(err)
		}
		for rows.Next() {
			var a, b, c interface{}
			rows.Scan(&a, &b, &c)
			poolWant = append(poolWant, fmt.Sprint(a, "|", b, "|", c))
		}
		rows.Close()
	}
	for g := 0; g < 4; g++ {
		wg.Add(1)
		go func(g int) {
			defer wg.Done()
			for it := 0; it < 25; it++ {
				rows, err := db.Query("SELECT a, b, c FROM t1")
				if err != nil {
					t.Error(err)
					return
				}
				n := 0
				for rows.Next() {
					var a, b, c interface{}
					rows.Scan(&a, &b, &c)
					if n >= len(poolWant) || fmt.Sprint(a, "|", b, "|", c) != poolWant[n] {
						mu.Lock()
						mismatch++
						mu.Unlock()
					}
					n++
					if g%2 == 1 && n == 3 {
						break
					}
				}
				if rows.Err() != nil || (g%2 == 0 && n != len(poolWant)) {
					mu.Lock()
					mismatch++
					mu.Unlock()
				}
				rows.Close()
			}
		}(g)
	}
	wg.Wait()
	fmt.Printf("RACEPASS mismatches=%d bodies=%d goroutines=12\n", mismatch, len(bs))
}
