// Package sched holds the goroutine-interleaving explorer of check C19. It is
// a test package because testing/synctest needs a *testing.T; it is built with
// go1.26.8 (`go test -c`) against the instrumented driver (build overlay) and
// run by `vcheck C19`, which merges its JSON result into the evidence.
package sched
