//go:build go1.25 && verif

package sched

import (
	"context"
	"database/sql/driver"
	"encoding/json"
	"fmt"
	"io"
	"os"
	"runtime"
	"sort"
	"strconv"
	"strings"
	"sync"
	"testing"
	"testing/synctest"

	"verif/internal/mc"
	"verif/internal/vpager"

	"github.com/alicebob/sqlittle"
	sdriver "github.com/alicebob/sqlittle/driver"
)

func goid() uint64 {
	var buf [64]byte
	n := runtime.Stack(buf[:], false)
	// "goroutine 123 ["
	s := strings.TrimPrefix(string(buf[:n]), "goroutine ")
	if i := strings.IndexByte(s, ' '); i > 0 {
		id, _ := strconv.ParseUint(s[:i], 10, 64)
		return id
	}
	return 0
}

type parked struct {
	id  int
	loc string
	ch  chan struct{}
}

type scheduler struct {
	mu     sync.Mutex
	parked []*parked
	ids    map[uint64]int
	last   int
	others int
	trace  []string
}

func (s *scheduler) yield(loc string) {
	gid := goid()
	s.mu.Lock()
	id, ok := s.ids[gid]
	if !ok {
		// ids by role, not by arrival: goroutines started together reach their first scheduling
		// point in an order the Go runtime decides, and the canonical order of the enabled set
		// (hence the meaning of a recorded choice) must not depend on it
		switch {
		case strings.HasPrefix(loc, "consumer:"):
			id = 0
		case strings.HasPrefix(loc, "canceller:"):
			id = 1
		default:
			id = 2 + s.others
			s.others++
		}
		s.ids[gid] = id
	}
	p := &parked{id: id, loc: loc, ch: make(chan struct{})}
	s.parked = append(s.parked, p)
	s.mu.Unlock()
	<-p.ch
}

// run drives the bubble until nothing is enabled
func (s *scheduler) run(c *mc.Ctx, maxSteps int) (steps int) {
	for steps = 0; steps < maxSteps; steps++ {
		synctest.Wait() // every other goroutine is durably blocked: parked at a yield, or in a real channel op / WaitGroup.Wait
		s.mu.Lock()
		en := append([]*parked{}, s.parked...)
		s.mu.Unlock()
		if len(en) == 0 {
			return
		}
		// canonical order: the goroutine that ran last first, then ascending ids
		sort.SliceStable(en, func(i, j int) bool {
			a, b := en[i].id, en[j].id
			if a == s.last {
				return b != s.last
			}
			if b == s.last {
				return false
			}
			return a < b
		})
		lastEnabled := en[0].id == s.last
		ch := c.Choose(len(en), func(i int) int {
			if lastEnabled && i > 0 {
				return 1
			}
			return 0
		})
		p := en[ch]
		s.mu.Lock()
		for i, q := range s.parked {
			if q == p {
				s.parked = append(s.parked[:i], s.parked[i+1:]...)
				break
			}
		}
		s.mu.Unlock()
		s.last = p.id
		s.trace = append(s.trace, fmt.Sprintf("g%d@%s", p.id, p.loc))
		close(p.ch)
	}
	return
}

type scenario struct {
	Name    string
	Table   string
	Cols    string
	Next    int  // rows the consumer reads before closing (-1: until the end)
	Cancel  bool // a canceller goroutine calls cancel()
	FaultAt int  // fault at this page read of the query (0: none)
	NoClose bool // consumer drains until error and then closes
	bound   int
}

type violation struct {
	Sig      string      `json:"sig"`
	What     string      `json:"what"`
	Scenario string      `json:"scenario"`
	Choices  []int       `json:"choices"`
	Trace    []string    `json:"trace"`
	Extra    interface{} `json:"extra,omitempty"`
}

type result struct {
	Executions  int            `json:"executions"`
	States      int            `json:"states"`
	Steps       int            `json:"steps"`
	Preempted   int            `json:"preempted"`
	Diverged    int            `json:"diverged"`
	Capped      []string       `json:"capped"`
	Violations  []violation    `json:"violations"`
	PerScenario map[string]int `json:"per_scenario"`
	Outcomes    map[string]int `json:"outcomes"`
	Sample      []string       `json:"sample"`
	Points      int            `json:"max_points"`
}

type execOutcome struct {
	rows                     [][]driver.Value
	queryErr                 error
	finalErr                 error // the error that ended the consumer's Next loop (nil if it closed early)
	closeErr                 error
	drained                  bool
	cancelled                bool // cancel() had been called before the final Next returned
	leak                     string
	readsAtClose, readsAtEnd int64
	lockedAtClose            int
	lockedAtEnd              int
	faultHit                 bool
	steps                    int
	trace                    []string
	deadlock                 bool
	consumerDone             bool
}

func oneExecution(t *testing.T, c *mc.Ctx, img []byte, sc *scenario) (out execOutcome) {
	defer func() {
		if p := recover(); p != nil {
			// synctest: "deadlock: main bubble goroutine has exited but blocked goroutines remain"
			out.leak = fmt.Sprint(p)
		}
	}()
	synctest.Test(t, func(t *testing.T) {
		s := &scheduler{ids: map[uint64]int{}, last: -1}
		mem := vpager.NewMem(img)
		fp := &vpager.FaultPager{P: mem}
		h, _, err := vpager.Open(fp)
		if err != nil {
			out.queryErr = err
			return
		}
		sdriver.VerifYieldHook = s.yield
		defer func() { sdriver.VerifYieldHook = nil }()
		// a select with several clauses: which one is tried first is a choice of the explorer
		// (alternative 0 = source order; another order costs one deviation, like a preemption).
		// Called by the one goroutine that is running while the scheduler sits in synctest.Wait.
		sdriver.VerifChooseHook = func(loc string, n int) int {
			k := c.Choose(n, func(i int) int {
				if i > 0 {
					return 1
				}
				return 0
			})
			if k > 0 {
				s.trace = append(s.trace, fmt.Sprintf("select@%s:clause%d-first", loc, k))
			}
			return k
		}
		defer func() { sdriver.VerifChooseHook = nil }()
		ctx, cancel := context.WithCancel(context.Background())
		defer cancel()
		var cancelled bool
		var cmu sync.Mutex
		st := sdriver.VerifStatement(h, "SELECT "+sc.Cols+" FROM "+sc.Table)
		// consumer
		go func() {
			s.yield("consumer:query")
			if sc.FaultAt > 0 {
				fp.Arm(sc.FaultAt, vpager.FaultError)
			}
			rows, err := st.QueryContext(ctx, nil)
			if err != nil {
				out.queryErr = err
				out.consumerDone = true
				return
			}
			n := len(rows.Columns())
			for i := 0; sc.Next < 0 || i < sc.Next; i++ {
				s.yield("consumer:next")
				dest := make([]driver.Value, n)
				err := rows.Next(dest)
				if err != nil {
					out.finalErr = err
					out.drained = true
					cmu.Lock()
					out.cancelled = cancelled
					cmu.Unlock()
					break
				}
				out.rows = append(out.rows, dest)
			}
			s.yield("consumer:close")
			out.closeErr = rows.Close()
			out.readsAtClose = mem.Reads
			out.lockedAtClose = mem.Locked
			out.consumerDone = true
		}()
		if sc.Cancel {
			go func() {
				s.yield("canceller:cancel")
				cmu.Lock()
				cancelled = true
				cmu.Unlock()
				cancel()
			}()
		}
		out.steps = s.run(c, 2000)
		out.trace = s.trace
		out.readsAtEnd = mem.Reads
		out.lockedAtEnd = mem.Locked
		out.faultHit = fp.Hit > 0
		if !out.consumerDone {
			out.deadlock = true
		}
	})
	return
}

func valS(v driver.Value) string {
	switch t := v.(type) {
	case []byte:
		return fmt.Sprintf("b:%x", t)
	case string:
		if len(t) > 12 {
			return fmt.Sprintf("t:%q..(%d)", t[:12], len(t))
		}
		return fmt.Sprintf("t:%q", t)
	}
	return fmt.Sprintf("%T:%v", v, v)
}

func rowS(r []driver.Value) string {
	var s []string
	for _, v := range r {
		s = append(s, valS(v))
	}
	return strings.Join(s, ",")
}

func TestExplore(t *testing.T) {
	imgPath := os.Getenv("VERIF_SCHED_IMG")
	outPath := os.Getenv("VERIF_SCHED_OUT")
	if imgPath == "" || outPath == "" {
		t.Skip("run by vcheck C19")
	}
	img, err := os.ReadFile(imgPath)
	if err != nil {
		t.Fatal(err)
	}
	thorough := os.Getenv("VERIF_TIER") == "thorough"
	// the native result
	native := map[string][]string{}
	for _, tb := range []string{"t", "s"} {
		h, _, _, err := vpager.OpenImage(img)
		if err != nil {
			t.Fatal(err)
		}
		err = h.Select(tb, func(r sqlittle.Row) {
			row := make([]driver.Value, len(r))
			for i, v := range r {
				row[i] = v
			}
			native[tb] = append(native[tb], rowS(row))
		}, "id", "pad")
		if err != nil {
			t.Fatal(err)
		}
	}
	// page reads of a full query, for the fault positions
	reads := map[string]int{}
	for _, tb := range []string{"t", "s"} {
		mem := vpager.NewMem(img)
		fp := &vpager.FaultPager{P: mem}
		h, _, _ := vpager.Open(fp)
		st := sdriver.VerifStatement(h, "SELECT id, pad FROM "+tb)
		fp.Arm(0, vpager.FaultNone)
		rows, err := st.QueryContext(context.Background(), nil)
		if err != nil {
			t.Fatal(err)
		}
		for {
			if err := rows.Next(make([]driver.Value, 2)); err != nil {
				break
			}
		}
		rows.Close()
		reads[tb] = fp.N
	}
	bound := 2
	if thorough {
		bound = 3
	}
	var scen []scenario
	for _, tb := range []string{"t", "s"} {
		n := len(native[tb])
		for k := 0; k <= n; k++ {
			scen = append(scen, scenario{Name: fmt.Sprintf("%s: close after %d of %d rows", tb, k, n), Table: tb, Cols: "id, pad", Next: k, bound: bound})
		}
		scen = append(scen, scenario{Name: tb + ": drain", Table: tb, Cols: "id, pad", Next: -1, bound: bound})
		scen = append(scen, scenario{Name: tb + ": drain, cancel racing", Table: tb, Cols: "id, pad", Next: -1, Cancel: true, bound: bound})
		scen = append(scen, scenario{Name: tb + ": close after 1, cancel racing", Table: tb, Cols: "id, pad", Next: 1, Cancel: true, bound: bound})
		for k := 1; k <= reads[tb]; k++ {
			scen = append(scen, scenario{Name: fmt.Sprintf("%s: drain, fault at page read %d of %d", tb, k, reads[tb]), Table: tb, Cols: "id, pad", Next: -1, FaultAt: k, bound: bound - 1})
		}
	}
	scen = append(scen, scenario{Name: "unknown column", Table: "t", Cols: "id, nosuch", Next: -1, bound: 1})
	res := result{PerScenario: map[string]int{}, Outcomes: map[string]int{}}
	states := map[string]bool{}
	maxExec := 30000
	if thorough {
		maxExec = 400000
	}
	for si := range scen {
		sc := &scen[si]
		st := mc.Explore(sc.bound, maxExec, 1, nil, func(c *mc.Ctx, _ interface{}) {
			o := oneExecution(t, c, img, sc)
			res.Steps += o.steps
			if o.steps > res.Points {
				res.Points = o.steps
			}
			if c.Cost() > 0 {
				res.Preempted++
			}
			states[sc.Name+"|"+strings.Join(o.trace, " ")] = true
			if c.Diverged != "" {
				res.Diverged++
			}
			judge(&res, sc, c, &o, native[sc.Table])
			if len(res.Sample) < 3 && c.Cost() == 2 {
				res.Sample = append(res.Sample, sc.Name+": "+strings.Join(o.trace, " "))
			}
		})
		res.Executions += st.Executions
		res.PerScenario[sc.Name] = st.Executions
		if st.Capped {
			res.Capped = append(res.Capped, sc.Name)
		}
	}
	res.States = len(states)
	b, _ := json.MarshalIndent(res, "", " ")
	if err := os.WriteFile(outPath, b, 0o644); err != nil {
		t.Fatal(err)
	}
}

func judge(res *result, sc *scenario, c *mc.Ctx, o *execOutcome, native []string) {
	add := func(sig, what string) {
		for i := range res.Violations {
			if res.Violations[i].Sig == sig {
				return
			}
		}
		res.Violations = append(res.Violations, violation{Sig: sig, What: sc.Name + ": " + what, Scenario: sc.Name, Choices: c.Taken(), Trace: o.trace})
	}
	key := "ok"
	defer func() { res.Outcomes[key]++ }()
	if o.leak != "" {
		key = "leak"
		add("C19:sched:goroutine-leak", "goroutines remain blocked when everything else has finished: "+o.leak)
		return
	}
	if o.deadlock {
		key = "deadlock"
		add("C19:sched:deadlock", "nothing is enabled but the consumer has not finished")
		return
	}
	if sc.Cols == "id, nosuch" {
		key = "unknown-column"
		if o.queryErr == nil && o.finalErr == nil || len(o.rows) > 0 {
			add("C19:sched:unknown-column", fmt.Sprintf("unknown column: query err=%v next err=%v rows=%d", o.queryErr, o.finalErr, len(o.rows)))
		}
		return
	}
	if o.queryErr != nil {
		if sc.FaultAt > 0 {
			key = "fault-at-query"
			return // the fault hit while expanding the columns: reported by Query
		}
		add("C19:sched:query-error", fmt.Sprintf("QueryContext fails: %v", o.queryErr))
		return
	}
	// rows are a prefix of the native rows
	for i, r := range o.rows {
		if i >= len(native) || rowS(r) != native[i] {
			add("C19:sched:rows", fmt.Sprintf("row %d = %s, native select gives %v", i, rowS(r), native))
			return
		}
	}
	if o.drained {
		switch {
		case o.faultHit && o.finalErr == io.EOF && !o.cancelled:
			key = "fault-as-eof"
			add("C19:sched:fault-as-eof", fmt.Sprintf("a page read fault hit the producer, the consumer saw %d rows and then io.EOF (a silently short result)", len(o.rows)))
		case !o.faultHit && !o.cancelled && (o.finalErr != io.EOF || len(o.rows) != len(native)):
			key = "short"
			add("C19:sched:short-result", fmt.Sprintf("no fault, no cancel: %d of %d rows then %v", len(o.rows), len(native), o.finalErr))
		case o.cancelled:
			key = "cancelled"
		case o.faultHit:
			key = "fault-reported"
		}
	}
	if o.lockedAtClose != 0 {
		add("C19:sched:lock-held-after-close", "rows.Close() returned while the read lock is still held")
	}
	if o.readsAtEnd != o.readsAtClose || o.lockedAtEnd != 0 {
		add("C19:sched:producer-active-after-close", fmt.Sprintf("after rows.Close() returned the producer still read pages or holds the lock (page reads %d -> %d, locked=%d)", o.readsAtClose, o.readsAtEnd, o.lockedAtEnd))
	}
}
