#!/usr/bin/env python3
# Generates MANIFEST.json from the table below (kept in one place so the
# manifest stays valid while checks are added).
import json
HOOK_COMMITS = ["7a2bc63e192ef884eef2988f4018970c6e5aef21"]
CHECKS = {
 "C15": dict(cat="model_checking", tech="exhaustive enumeration of every header byte x value x {open, re-read history} against a reference header predicate; conformance against real SQLite",
   text="Every single-byte header mutant (100 offsets x 256 values) on a valid base image per page size is judged by a three-valued reference predicate written from the property text (must-reject / must-accept / silent), at Open and on the re-read path of a long-lived handle (valid -> mutated -> valid history, every public read operation at each step); plus WAL/UTF-16/legacy databases written by real SQLite. Exhaustive in the stated space, so any change to a header check that the property pins is found.",
   note="Trusted: the reference predicate (from the file-format document), the in-memory pager having the file pager's semantics, SQLite 3.40.1 as oracle for the base content. Multi-byte mutations are not enumerated.", ref="5/C15"),
}
NOT_YET = {}
def main():
    props=[json.loads(l) for l in open('/verif/properties.jsonl')]
    checks=[]
    for p in props:
        c=CHECKS.get(p['id'])
        if not c: continue
        checks.append({
          "property_id": p['id'],
          "quick_cmd": f"./vrun {p['id']} quick",
          "thorough_cmd": f"./vrun {p['id']} thorough",
          "evidence_file": f"/verif/evidence/{p['id']}.json",
          "replay_cmd_template": "./vrun replay {path}",
          "engine": "vcheck",
          "level_claimed": {"category": c['cat'], "text": c['text'], "design_ref": c['ref']},
          "level_note": c['note'],
          "technique": c['tech'],
        })
    na=[{"property_id":p['id'],"reason":NOT_YET.get(p['id'],"check not built yet in this session (planned, see DESIGN.md §5); not claimed until it runs")} for p in props if p['id'] not in CHECKS]
    m={"version":1,
       "setup_cmd":"./vrun setup",
       "hooks":{"guard":"verif","enable":"go build -tags verif (the ./vrun wrapper does this on every call, against /repo's working tree via a replace directive)",
                "baseline_off_cmd":"cd /repo && GOFLAGS=-mod=mod GOPROXY=off GOSUMDB=off go test -vet=off -count=1 ./...",
                "source_commits":HOOK_COMMITS,"add_only":True},
       "engines":[{"name":"vcheck","path":"/verif/cmd/vcheck","serves_properties":sorted(CHECKS),"kind_free_text":"hand-written bounded exhaustive explorers (small-scope input enumeration, environment-answer/fault enumeration, history BFS, controlled-scheduler interleaving DFS) running the real /repo code; real SQLite 3.40.1 via cgo as oracle/peer"}],
       "checks":checks,
       "notes":"All checks rebuild from /repo's working tree (go build -tags verif, replace directive). See DESIGN.md.",
       "not_applicable":na}
    json.dump(m,open('/verif/MANIFEST.json','w'),indent=1)
main()
