#!/usr/bin/env python3
# Generates MANIFEST.json from the table below (kept in one place so the
# manifest stays valid while checks are added).
import json
HOOK_COMMITS = ["7a2bc63e192ef884eef2988f4018970c6e5aef21"]
CHECKS = {
 "C01": dict(cat="model_checking", tech="small-scope exhaustive enumeration of table b-tree shapes x rowid sets x layouts x column lists; differential against real SQLite on files it wrote",
   text="Every table b-tree shape within bounds (<=3 cells/leaf, <=3 children/interior page, depth<=4, n<=7 rows quick / 9 thorough, plus depth-4 shapes) x 3 rowid sets (sequential, gapped, int64 boundary values) x 2 physical layouts (separator = max-of-left or in the gap, shuffled cells with free blocks, scattered overflow chains, reversed page order) of the T1 rowid table (rowid alias, short rows from ALTER TABLE ADD COLUMN with DEFAULT, every storage class, spilled payloads) and every shape of the T2 WITHOUT ROWID tree, each read with every ordered column list of length 0..3 over columns/rowid/oid/_rowid_/unknown; all page sizes; SQLite-written files (bulk insert to depth 3+, delete, update, VACUUM, auto/incremental vacuum, ADD COLUMN) compared after every statement.",
   note="Trusted: dbgen (bound to the format by SQLite integrity_check + typed SELECT comparison on every image, counted in traces_validated_against_impl), SQLite 3.40.1 as oracle. Shapes beyond the bounds and fan-outs >3 only through the SQLite-written files.", ref="5/C01"),
 "C02": dict(cat="model_checking", tech="small-scope exhaustive enumeration of index b-tree shapes x layouts; oracle = builder's logical order + real SQLite ORDER BY on the same bytes",
   text="Every index b-tree shape within bounds (n<=10 entries quick / 13 thorough plus depth-4 shapes; entries in interior cells; duplicates across pages; spilled index payloads) for T1's (b NOCASE DESC, c) and (c RTRIM) indexes, T2's secondary index (key omits part of the PK), autoindexes, a partial index, page-size family; IndexedSelect through every listed index must equal the logical index order mapped to table rows and SQLite's ORDER BY with the index_xinfo collations/directions; plus SQLite-written files with DESC/collated/unique/partial/expression indexes and WITHOUT ROWID after every statement.",
   note="Trusted: dbgen + conformance, SQLite 3.40.1. An index sqlittle does not list is not judged here (C10).", ref="5/C02"),
 "C03": dict(cat="model_checking", tech="small-scope exhaustive enumeration of (index image, key) pairs; oracle = reference comparator (conformance-checked against SQLite) + SQLite WHERE ... IS ? on the same bytes",
   text="For every index image of C02, every listed index / index-backed PK / WITHOUT ROWID PK and every key built from every prefix of every stored entry with the last column replaced by neighbour values (+-1, adjacent floats, int/real twins, case swap, trailing space, shorter/longer text), NULL, other classes and the empty key: IndexedSelectEq/PKSelect must return exactly the entries equal under SQLite's comparison in index order, never an error; Go key types once each.",
   note="Trusted: ref.Compare (validated against SQLite's dense_rank over the C11 grid on every C11 run), dbgen.", ref="5/C03"),
 "C04": dict(cat="model_checking", tech="small-scope exhaustive enumeration of table shapes x probe rowids",
   text="Every table b-tree shape of C01 x every probe rowid (present, both neighbours, middle and last value of every gap = both separator styles, int64 min/max, 0, +-1) through SelectRowid, PKSelect on the alias PK and Table.Rowid, judged by the builder's logical rows.",
   note="Trusted: dbgen + conformance.", ref="5/C04"),
 "C05": dict(cat="exploration", tech="environment/input-deviation enumeration (1 corrupted field, every byte x boundary values, truncations, hostile records and SQL, journal bytes) with every public operation run in a watched worker subprocess",
   text="4 small base images (two-level table/index trees, multi-page overflow chains, WITHOUT ROWID, multi-page sqlite_master) x every structural field x a boundary alphabet (own page, every page, page count+1, 0/1/+-1/max, 9-byte and negative varints, every serial type), every byte x 8 values (x256 thorough), every truncation length multiple of 64 and around page boundaries, ~100 hostile record payloads as table and index cells, ~60 hostile CREATE texts in sqlite_master, pairs of related fields within a page (thorough), journal header fields x lengths on real files; every mutant runs open, schema calls, Info, all scans/searches/lookups, the six high level selects with several keys and the driver. Oracle: no panic (also in the driver goroutine), live heap < 3 GB, < 20 s CPU per operation, worker survives.",
   note="Exhaustive for one deviation within the alphabets; not all byte strings. CPU-time (not wall) watchdog with >10^6x slack; no read-count bound.", ref="5/C05"),
 "C06": dict(cat="model_checking", tech="stateless model checking: preemption-bounded DFS over all interleavings of the real operation (parked at every pager event and row callback) with a real SQLite writer process, a same-process handle and an other-process handle; invariants on the kernel lock table",
   text="The operation under test runs on the real file pager (real fcntl locks, real mmap) under a tracing pager that parks it before/after every lock and unlock, before every page read and in every row callback. Exit paths enumerated sequentially: normal, stop at every row, callback panic at every row, no such table/column/index, fault at every page read. Interleavings: H1 x {SQLite writer in another process (BEGIN IMMEDIATE, INSERT, COMMIT, busy_timeout 0), second handle in the same process (Open, RLock, RUnlock, Close or a whole Select), handle in another process}, all schedules with <=2 context switches (3 thorough), triples H1 x H2 x W and H1 x H3 x W with <=2. At every step /proc/locks is read: inside the call the process holds READ on the whole shared range; every page read lies inside the locked interval; a COMMIT attempted inside returns BUSY; after return nothing is held on the pending byte or shared range and the writer commits. database/sql result sets left open after k rows hold the lock, Close releases it.",
   note="Unix pager only. /proc/locks snapshots are taken with single read() calls (atomic within the kernel's 4 KB chunk; worker count limited so the list fits). Known finding F14a-d (same-process second handle drops the lock) is reported as KNOWN-FINDING.", ref="5/C06"),
 "C07": dict(cat="model_checking", tech="explicit enumeration of the product (writer lock state reached by a real SQLite connection after every statement) x (every read operation) x (fresh / long-lived handle)",
   text="A real SQLite writer in another process is parked after every statement of 6 transaction scripts (small commit, rollback, spilling bulk insert with cache_size=1, spill+rollback, COMMIT blocked by a third reader = PENDING, locking_mode=EXCLUSIVE), journal mode DELETE (+TRUNCATE, PERSIST thorough). Its actual lock level is read from /proc/locks (UNLOCKED, SHARED, RESERVED, PENDING, EXCLUSIVE all reached). In every state all ~25 read operations run on a fresh and on a long-lived handle. Oracle: PENDING/EXCLUSIVE => error and zero rows; otherwise success and exactly the last committed content (cross-checked with a separate SQLite reader's dump).",
   note="Sequential product, no concurrency inside a step. Peers are separate processes (POSIX locks are per process).", ref="5/C07"),
 "C11": dict(cat="model_checking", tech="exhaustive enumeration of all pairs/triples of a value grid x collations x directions against real SQLite's ranking",
   text="All ordered pairs of a 109-value grid (every storage class, int64/float64 boundaries, case/whitespace/NUL/non-ASCII text, blobs) x 3 collations x ASC/DESC through db.Search both ways and db.Equals, judged by SQLite's dense_rank() and index order; all triples for transitivity; multi-column keys of every prefix length x 8 DESC masks.",
   note="Trusted: SQLite 3.40.1 ranking. NaN and invalid UTF-8 are outside the grid.", ref="5/C11"),
 "C12": dict(cat="fault_enumeration", tech="fault enumeration: I/O error or short read at the k-th page read for every k (and a second fault wherever the operation kept reading), lock failure; cold and warm handles",
   text="Every public read operation on T1+T2+T3 images (multi-level trees, overflow chains, nested index->table and index->WITHOUT ROWID lookups) on a cold and a warm handle x a fault at page read k for every k=1..reads as error and as short read, a second fault at later reads, RLock failure. Oracle: non-nil error, delivered rows are a prefix of the fault-free rows, the warm handle returns the fault-free result afterwards (no garbage cached).",
   note="Faults are the detectable ones the property names (error, short read); silent bit flips are C05's domain. Database.Info() is not judged (it prints errors into its string).", ref="5/C12"),
 "C13": dict(cat="model_checking", tech="small-scope exhaustive enumeration of index shapes x cut keys (pairs for ranges) against an independent comparator",
   text="Every index b-tree shape of C02 x every cut key (every prefix of every entry, neighbours of the last column, below first, above last, one column longer than the records): ScanMin = suffix, ScanEq = equal run, ScanRange over every ordered pair of (thinned) cut keys = filtered slice of the same handle's full scan.",
   note="Trusted: ref.Compare (validated in C11), dbgen. Keys carry the index's own collation/DESC flags.", ref="5/C13"),
 "C14": dict(cat="model_checking", tech="exhaustive enumeration of payload lengths / serial types / varint lengths, built by an independent encoder and by real SQLite",
   text="Every value length 0..3*pagesize as table-cell and index-cell payload at page size 512 (and 1024 thorough), threshold neighbourhoods for the other page sizes and the first 3 overflow page counts, contiguous and scattered chains; every serial type incl. integer width boundaries and non-minimal widths; varints of every length in rowids, payload/header sizes and serial types; records of up to 300 columns.",
   note="Trusted: ref encoder + dbgen, bound by SQLite reading the same values (conformance) and by SQLite writing the same values.", ref="5/C14"),
 "C15": dict(cat="model_checking", tech="exhaustive enumeration of every header byte x value x {open, re-read history} against a reference header predicate; conformance against real SQLite",
   text="Every single-byte header mutant (100 offsets x 256 values) on a valid base image per page size is judged by a three-valued reference predicate written from the property text (must-reject / must-accept / silent), at Open and on the re-read path of a long-lived handle (valid -> mutated -> valid history, every public read operation at each step); plus WAL/UTF-16/legacy databases written by real SQLite. Exhaustive in the stated space, so any change to a header check that the property pins is found.",
   note="Trusted: the reference predicate (from the file-format document), the in-memory pager having the file pager's semantics, SQLite 3.40.1 as oracle for the base content. Multi-byte mutations are not enumerated.", ref="5/C15"),
 "C16": dict(cat="model_checking", tech="exhaustive enumeration of short strings / token sequences / element tuples against totality, determinism and locality oracles",
   text="Every string of length <=5 (6 thorough) over a 20-symbol alphabet drawn from the tokenizer's branches (3.4M / 67M strings), every token sequence of length <=4 over a 63-token alphabet (16M; length 5 over 30 tokens thorough), every one-token delete/replace/insert of SQLite-valid statements; locality: every ordered pair and triple (quadruple thorough) of 31 column definitions, 12 indexed columns, 10 table constraints in one statement, each element compared with the same text parsed alone, judged only when real SQLite accepts the statement; determinism: every statement re-parsed after every other statement.",
   note="Hang verdict by a 120 s wall watchdog on a microsecond operation. Strings longer than the bounds only through the structured families.", ref="5/C16"),
 "C18": dict(cat="model_checking", tech="exhaustive enumeration of (value, destination, position) triples against a reference model + BFS over scan/mutate/close/overwrite/re-read histories on a real file",
   text="Every value of a 95-value grid x every supported destination type x column positions incl. past the row width, unsupported and nil destinations, argument counts 0..width+2, ScanString helpers: no panic, result and error-ness equal a reference model of the documented conversions, row unchanged. Every history of depth <=4 (5 thorough) over {scan blob row into []byte, scan into string, mutate every scanned slice, re-read same handle, re-read fresh handle, close, overwrite file, verify scanned values} on a real file with inline and overflowed blobs.",
   note="The reference model re-states the documented rules with the same Go conversions (float->int of out-of-range values is whatever Go does on this platform).", ref="5/C18"),
 "C17": dict(cat="model_checking", tech="environment-answer enumeration: the callback says stop at every row k of every scan on every shape image",
   text="Every table and index shape image x every stoppable scan (SelectDone, driver result set closed after k rows, Table.Scan, Index.Scan, ScanMin/ScanEq/ScanRange) x every k=1..result size: exactly the first k rows, exactly k callbacks, nil error, lock/unlock balanced.",
   note="Lock release is observed on the in-memory pager here; on the real file pager and /proc/locks in C06.", ref="5/C17"),
}
NOT_YET = {}
def main():
    props=[json.loads(l) for l in open('/verif/properties.jsonl')]
    checks=[]
    for p in props:
        c=CHECKS.get(p['id'])
        if not c: continue
        checks.append({
          "property_id": p['id'],
          "quick_cmd": f"./vrun {p['id']} quick",
          "thorough_cmd": f"./vrun {p['id']} thorough",
          "evidence_file": f"/verif/evidence/{p['id']}.json",
          "replay_cmd_template": "./vrun replay {path}",
          "engine": "vcheck",
          "level_claimed": {"category": c['cat'], "text": c['text'], "design_ref": c['ref']},
          "level_note": c['note'],
          "technique": c['tech'],
        })
    na=[{"property_id":p['id'],"reason":NOT_YET.get(p['id'],"check not built yet in this session (planned, see DESIGN.md §5); not claimed until it runs")} for p in props if p['id'] not in CHECKS]
    m={"version":1,
       "setup_cmd":"./vrun setup",
       "hooks":{"guard":"verif","enable":"go build -tags verif (the ./vrun wrapper does this on every call, against /repo's working tree via a replace directive)",
                "baseline_off_cmd":"cd /repo && GOFLAGS=-mod=mod GOPROXY=off GOSUMDB=off go test -vet=off -count=1 ./...",
                "source_commits":HOOK_COMMITS,"add_only":True},
       "engines":[{"name":"vcheck","path":"/verif/cmd/vcheck","serves_properties":sorted(CHECKS),"kind_free_text":"hand-written bounded exhaustive explorers (small-scope input enumeration, environment-answer/fault enumeration, history BFS, controlled-scheduler interleaving DFS) running the real /repo code; real SQLite 3.40.1 via cgo as oracle/peer"}],
       "checks":checks,
       "notes":"All checks rebuild from /repo's working tree (go build -tags verif, replace directive). See DESIGN.md.",
       "not_applicable":na}
    json.dump(m,open('/verif/MANIFEST.json','w'),indent=1)
main()
