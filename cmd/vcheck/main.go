// vcheck is the single CLI of the verification machinery: `vcheck <ID>` runs
// the check of one property (tier from $VERIF_TIER), rewrites its evidence
// file and exits 0 / 1 as the MANIFEST contract says.
package main

import (
	"fmt"
	"os"
	"runtime/debug"
	"sort"

	"verif/checks"
	"verif/internal/ev"
)

func main() {
	// the checks allocate many short-lived page buffers; trade memory for speed
	if os.Getenv("GOGC") == "" {
		debug.SetGCPercent(800)
	}
	debug.SetMemoryLimit(24 << 30)
	if len(os.Args) < 2 {
		usage()
	}
	switch os.Args[1] {
	case "list":
		ids := []string{}
		for id := range checks.Registry {
			ids = append(ids, id)
		}
		sort.Strings(ids)
		for _, id := range ids {
			fmt.Println(id)
		}
		return
	case "replay":
		if len(os.Args) < 3 {
			usage()
		}
		os.Exit(checks.Replay(os.Args[2]))
	}
	if fn, ok := checks.Subcommands[os.Args[1]]; ok {
		os.Exit(fn(os.Args[2:]))
	}
	c, ok := checks.Registry[os.Args[1]]
	if !ok {
		usage()
	}
	r := ev.NewRun(os.Args[1], c.Level)
	c.Fn(r)
	os.Exit(r.Finish())
}

func usage() {
	fmt.Fprintln(os.Stderr, "usage: vcheck <C01..C20> | list | replay <path> | <subcommand> ...")
	os.Exit(2)
}
