// vcheck is the single CLI of the verification machinery: `vcheck <ID>` runs
// the check of one property (tier from $VERIF_TIER), rewrites its evidence
// file and exits 0 / 1 as the MANIFEST contract says.
package main

import (
	"fmt"
	"io"
	"os"
	"os/exec"
	"runtime/debug"
	"sort"
	"strings"

	"verif/checks"
	"verif/internal/ev"
)

func main() {
	// the checks allocate many short-lived page buffers; trade memory for speed
	if os.Getenv("GOGC") == "" {
		debug.SetGCPercent(800)
	}
	debug.SetMemoryLimit(24 << 30)
	if len(os.Args) < 2 {
		usage()
	}
	switch os.Args[1] {
	case "list":
		ids := []string{}
		for id := range checks.Registry {
			ids = append(ids, id)
		}
		sort.Strings(ids)
		for _, id := range ids {
			fmt.Println(id)
		}
		return
	case "replay":
		if len(os.Args) < 3 {
			usage()
		}
		os.Exit(checks.Replay(os.Args[2]))
	}
	if fn, ok := checks.Subcommands[os.Args[1]]; ok {
		os.Exit(fn(os.Args[2:]))
	}
	c, ok := checks.Registry[os.Args[1]]
	if !ok {
		usage()
	}
	if os.Getenv("VCHECK_CHILD") == "" {
		os.Exit(contain(os.Args[1], c.Level))
	}
	r := ev.NewRun(os.Args[1], c.Level)
	c.Fn(r)
	os.Exit(r.Finish())
}

// contain runs the check in a child process. The code under test runs inside
// the checker (mmap'd files, real locks): if it takes the whole process down
// (SIGBUS on a mapping past the end of a shrunk file, fatal runtime error,
// stack exhaustion) that is attributed to the property under test instead of
// leaving the run without a verdict.
func contain(id, level string) int {
	self, err := os.Executable()
	if err != nil {
		self = os.Args[0]
	}
	cmd := exec.Command(self, os.Args[1:]...)
	cmd.Env = append(os.Environ(), "VCHECK_CHILD=1")
	cmd.Stdout = os.Stdout
	var tail tailBuf
	cmd.Stderr = io.MultiWriter(os.Stderr, &tail)
	cmd.Stdin = os.Stdin
	err = cmd.Run()
	code := 0
	if err != nil {
		code = -1
		if ee, ok := err.(*exec.ExitError); ok {
			code = ee.ExitCode()
		}
	}
	if code == 0 || code == 1 {
		return code
	}
	// abnormal death of the checking process
	r := ev.NewRun(id, level)
	r.Rule = "the checking process died before finishing; see the violation"
	r.Eval(1)
	r.NotExhaustive("checker process died")
	st := tail.String()
	kind := "died"
	for _, k := range []string{"SIGBUS", "SIGSEGV", "stack overflow", "out of memory", "fatal error", "panic:"} {
		if strings.Contains(st, k) {
			kind = strings.ReplaceAll(strings.TrimSuffix(k, ":"), " ", "-")
			break
		}
	}
	r.Violation(id+":checker-process-crashed:"+kind, fmt.Sprintf("the process running the code under test died (exit %d): %s", code, firstLines(st, 6)), map[string]interface{}{"stderr_tail": st})
	return r.Finish()
}

type tailBuf struct{ b []byte }

func (t *tailBuf) Write(p []byte) (int, error) {
	// keep the head: a Go crash says what happened first and then dumps every goroutine
	if len(t.b) < 16000 {
		t.b = append(t.b, p...)
	}
	return len(p), nil
}
func (t *tailBuf) String() string { return string(t.b) }

func firstLines(s string, n int) string {
	// the interesting part of a Go crash is at its start
	if i := strings.Index(s, "fatal error"); i >= 0 {
		s = s[i:]
	} else if i := strings.Index(s, "unexpected signal"); i >= 0 {
		s = s[i:]
	} else if i := strings.Index(s, "panic:"); i >= 0 {
		s = s[i:]
	}
	l := strings.Split(s, "\n")
	if len(l) > n {
		l = l[:n]
	}
	return strings.Join(l, " | ")
}

func usage() {
	fmt.Fprintln(os.Stderr, "usage: vcheck <C01..C20> | list | replay <path> | <subcommand> ...")
	os.Exit(2)
}
