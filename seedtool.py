#!/usr/bin/env python3
"""seedtool.py collect <worktree> <seed-id> <property> : verify a sub-agent's seeded change in its worktree and store it under /verif/seeded/<seed-id>/
   seedtool.py run <seed-id> <check> [tier]              : apply the patch to /repo, run the check, undo
"""
import json, os, subprocess, sys, shutil
ENV=dict(os.environ, GOFLAGS='-mod=mod', GOPROXY='off', GOSUMDB='off', GOTOOLCHAIN='local')
def sh(cmd, cwd=None, check=False):
    p=subprocess.run(cmd, shell=True, cwd=cwd, env=ENV, capture_output=True, text=True)
    if check and p.returncode!=0: raise SystemExit(cmd+'\n'+p.stdout+p.stderr)
    return p
def collect(wt, sid, prop):
    out=f'/verif/seeded/{sid}'; os.makedirs(out, exist_ok=True)
    patch=sh('git diff', cwd=wt).stdout
    if not patch.strip(): raise SystemExit('no source change in '+wt)
    open(f'{out}/patch.diff','w').write(patch)
    untracked=[l for l in sh('git ls-files --others --exclude-standard', cwd=wt).stdout.split('\n') if l and l!='SEED.md']
    demos=[u for u in untracked if u.endswith('_test.go')]
    os.makedirs(f'{out}/demo', exist_ok=True)
    for u in untracked:
        dst=f'{out}/demo/{u}'; os.makedirs(os.path.dirname(dst), exist_ok=True); shutil.copy(f'{wt}/{u}', dst)
    if os.path.exists(f'{wt}/SEED.md'): shutil.copy(f'{wt}/SEED.md', f'{out}/SEED.md')
    # verify: with change, suite passes (except TestIOZero) and demo fails
    pk=sorted(set('./'+os.path.dirname(d) if os.path.dirname(d) else '.' for d in demos))
    tags=''
    for d in demos:
        if 'verif' in open(f'{wt}/{d}').read().split('package')[0]: tags='-tags verif'
    names=[]
    import re
    for d in demos: names+=re.findall(r'func (Test\w+)\(', open(f'{wt}/{d}').read())
    runpat='^('+'|'.join(names)+')$'
    skip=f"-skip '{runpat}'" if names else ''
    suite=sh(f"go test -vet=off -count=1 {tags} ./... 2>&1", cwd=wt).stdout
    fails=[l for l in suite.split('\n') if l.startswith('--- FAIL') and 'TestIOZero' not in l]
    demo_fail=[f for f in fails if any(n in f for n in names)]
    other_fail=[f for f in fails if f not in demo_fail]
    with_change_demo_fails= len(demo_fail)>0
    # (not git stash: the stash stack is shared by all worktrees of a repository)
    sh(f'git apply -R {out}/patch.diff', cwd=wt, check=True)
    try:
        clean=sh(f"go test -vet=off -count=1 {tags} -run '{runpat}' {' '.join(pk)} 2>&1", cwd=wt).stdout
    finally:
        sh(f'git apply {out}/patch.diff', cwd=wt, check=True)
    clean_pass='--- FAIL' not in clean and 'FAIL' not in [l.split('\t')[0] for l in clean.split('\n')]
    meta=dict(seed=sid, breaks_property=prop, demo_tests=names, demo_files=untracked, build_tags=tags,
              verified=dict(suite_passes_with_change=(len(other_fail)==0), suite_other_failures=other_fail,
                            demo_fails_with_change=with_change_demo_fails, demo_passes_without_change=clean_pass),
              ran=[f"go test -vet=off -count=1 {tags} ./...  (in the worktree, change applied)", f"git apply -R patch.diff; go test -run '{runpat}' {' '.join(pk)}; git apply patch.diff"])
    json.dump(meta, open(f'{out}/meta.json','w'), indent=1)
    print(json.dumps(meta['verified']))
def run(sid, check, tier='quick'):
    """apply the seeded patch through a build overlay (so /repo itself is never touched and background runs are not disturbed), run the check"""
    import re, tempfile
    patch=f'/verif/seeded/{sid}/patch.diff'
    txt=open(patch).read()
    files=re.findall(r'^\+\+\+ b/(.*)$', txt, re.M)
    d=tempfile.mkdtemp(prefix=f'verif-seedrun-{sid}-', dir='/dev/shm')
    try:
        repl={}
        for f in files:
            dst=os.path.join(d,'src',f); os.makedirs(os.path.dirname(dst), exist_ok=True)
            if os.path.exists('/repo/'+f): shutil.copy('/repo/'+f, dst)
            repl['/repo/'+f]=dst
        a=subprocess.run(['patch','-p1','-s','-d',os.path.join(d,'src'),'-i',patch],capture_output=True,text=True)
        if a.returncode!=0: raise SystemExit('patch does not apply: '+a.stdout+a.stderr)
        ovl=os.path.join(d,'overlay.json'); json.dump({'Replace':repl}, open(ovl,'w'))
        outdir=os.path.join(d,'out'); os.makedirs(outdir); shutil.copy('/verif/known_findings.json', outdir)
        try:
            p=subprocess.run(['/verif/vrun',check,tier], cwd='/verif', env=dict(ENV, VERIF_OUT=outdir, VERIF_OVERLAY=ovl), capture_output=True, text=True, timeout=3000)
        except subprocess.TimeoutExpired:
            subprocess.run(['pkill','-f',outdir]); print(f'{sid} {check} {tier}: TIMEOUT after 3000 s (the check does not end: not a detection)'); return False
        v=[l for l in p.stdout.split('\n') if l.startswith('VIOLATION')]
        print(f'{sid} {check} {tier}: exit={p.returncode} violations={len(v)}')
        for l in v[:3]: print('   ', l[:300])
        if not v: print('   ', p.stdout.strip().split('\n')[-1][:300], p.stderr[-300:])
        return p.returncode==1 and len(v)>0
    finally:
        shutil.rmtree(d, ignore_errors=True)
def run_all(j=4, only=None):
    import concurrent.futures
    sids=sorted(d for d in os.listdir('/verif/seeded') if os.path.exists(f'/verif/seeded/{d}/meta.json'))
    if only: sids=[x for x in sids if x in only]
    def one(sid):
        m=json.load(open(f'/verif/seeded/{sid}/meta.json'))
        if m.get('neutralised_by'):
            # a later repair of the library took the harm out of this change: nothing to detect any more
            return sid, True, 'neutralised\n    SKIPPED: '+m['neutralised_by'][:160]
        # seeds that their own property's check cannot see are run against the check named in "run_against"
        prop=m.get('run_against', m['breaks_property'])
        p=subprocess.run([sys.executable, os.path.abspath(__file__), 'run', sid, prop], capture_output=True, text=True)
        return sid, p.returncode==0, p.stdout
    with concurrent.futures.ThreadPoolExecutor(j) as ex:
        res=list(ex.map(one, sids))
    for sid,ok,out in res:
        lines=out.strip().split('\n')
        print(('DETECTED ' if ok else 'MISSED   ')+sid, (lines[1][:200] if ok and len(lines)>1 else out.strip()[:400]), flush=True)
    prev={}
    if only and os.path.exists('/verif/seeded/last_run.json'): prev=json.load(open('/verif/seeded/last_run.json'))
    prev.update({sid:ok for sid,ok,_ in res})
    json.dump(prev, open('/verif/seeded/last_run.json','w'), indent=1, sort_keys=True)
    return all(ok for _,ok,_ in res)
if sys.argv[1]=='all': sys.exit(0 if run_all(int(sys.argv[2]) if len(sys.argv)>2 else 4, set(sys.argv[3:]) or None) else 1)
elif sys.argv[1]=='collect': collect(*sys.argv[2:5])
elif sys.argv[1]=='run': sys.exit(0 if run(*sys.argv[2:]) else 1)
