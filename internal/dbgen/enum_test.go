package dbgen

import "testing"

func TestEnumCounts(t *testing.T) {
	for n := 0; n <= 10; n++ {
		t.Logf("n=%d table(fan2..3)=%d table(fan1..3)=%d index(fan2..3)=%d index(fan1..3)=%d", n,
			len(EnumTableTrees(n, 3, 2, 3, 4)), len(EnumTableTrees(n, 3, 1, 3, 4)),
			len(EnumIndexTrees(n, 3, 2, 3, 4)), len(EnumIndexTrees(n, 3, 1, 3, 4)))
	}
}
