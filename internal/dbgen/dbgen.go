// Package dbgen is an independent builder of well-formed SQLite 3 database
// files, written from the file-format document (not from /repo). It builds
// from a logical description (tables, rows, indexes) and an explicit tree
// shape per b-tree, so every small shape can be enumerated. Every image
// family is handed to real SQLite (integrity_check + selects) by the checks
// that use it, which binds the builder to the format it claims to write.
package dbgen

import (
	"encoding/binary"
	"fmt"
	"sort"
	"strings"

	"verif/internal/ref"
)

// Tree is the shape of one b-tree. Leaf: N cells. Interior: Kids children
// (for index trees an interior node also holds len(Kids)-1 entries).
type Tree struct {
	N    int
	Kids []*Tree
}

func (t *Tree) Leaf() bool { return len(t.Kids) == 0 }

func (t *Tree) Depth() int {
	if t.Leaf() {
		return 1
	}
	return 1 + t.Kids[0].Depth()
}

func (t *Tree) String() string {
	if t.Leaf() {
		return fmt.Sprint(t.N)
	}
	s := make([]string, len(t.Kids))
	for i, k := range t.Kids {
		s[i] = k.String()
	}
	return "(" + strings.Join(s, " ") + ")"
}

// TableCount / IndexCount: number of entries a shape holds
func (t *Tree) TableCount() int {
	if t.Leaf() {
		return t.N
	}
	n := 0
	for _, k := range t.Kids {
		n += k.TableCount()
	}
	return n
}

func (t *Tree) IndexCount() int {
	if t.Leaf() {
		return t.N
	}
	n := len(t.Kids) - 1
	for _, k := range t.Kids {
		n += k.IndexCount()
	}
	return n
}

// Options for physical layout
type Layout struct {
	SepGap          bool // interior table keys: a value in the gap after the left subtree's max (as left by deletes) instead of the max
	ShuffleCells    bool // physical cell order differs from logical order, with a free block and fragment bytes
	ScatterOverflow bool // overflow chains not contiguous / not ascending
	ReversePages    bool // children get higher page numbers than later siblings
	FreePages       int  // number of pages on the free list (one trunk + leaves)
}

// IdxCol is one column of an index / primary key
type IdxCol struct {
	Col  int    // index in the table's column list
	Coll string // "", "nocase", "rtrim"
	Desc bool
}

type Index struct {
	Name     string
	SQL      string // "" for automatic indexes
	Cols     []IdxCol
	Where    func(rowid int64, vals []interface{}) bool // partial index predicate (nil: all rows)
	WhereSQL string
	Tree     *Tree // nil: default (fill pages)
	Layout   Layout
	// ExtraRaw payloads are appended as additional entries after the sorted ones (hostile records)
	ExtraRaw [][]byte
}

type Row struct {
	Rowid int64
	Vals  []interface{} // one per column; for a rowid alias column the value is ignored (stored NULL)
	// Short>0: store only the first Short columns (row written before ALTER TABLE ADD COLUMN)
	Short int
	// Raw, if set, is used as the record payload verbatim (hostile records; such images are not well-formed)
	Raw []byte
}

type Table struct {
	Name         string
	SQL          string
	NCols        int
	ColNames     []string
	Defaults     []interface{} // per column: value of a column missing from a short row
	ColColl      []string      // declared collation per column (informational)
	RowidAlias   int           // column index that aliases the rowid, or -1
	WithoutRowid bool
	PK           []IdxCol // WITHOUT ROWID only
	Rows         []Row    // any order; sorted by the builder
	Indexes      []Index
	Tree         *Tree
	Layout       Layout
}

type Spec struct {
	PageSize   int
	Tables     []Table
	MasterTree *Tree // shape of sqlite_master (nil: default)
	// header overrides
	SchemaFormat uint32 // 0 => 4
	// Chains: hostile overflow chains (such images are not well-formed)
	Chains []ChainHack
	// LegacyHeader: header fields a reader must not trust. 1: as written by SQLite before 3.7.0 (in-header
	// database size 0, version-valid-for 0, version number 0); 2: the file was last written by such a
	// version after a newer one: a stale (smaller) in-header size with a version-valid-for that does not
	// match the change counter. Both are well-formed: SQLite then takes the size from the file.
	LegacyHeader int
}

// ChainHack changes the Nth (0-based, in build order) overflowing cell of the
// object Owner: the cell declares DeclLen payload bytes (0: the real length)
// and the last page of its overflow chain points to the LoopTo-th page of the
// chain (1-based; 0: end of chain as usual), i.e. a cycle with a tail of
// LoopTo-1 pages.
type ChainHack struct {
	Owner   string
	Nth     int
	DeclLen int64
	LoopTo  int
}

// Field describes one structural field of the image (for structure-aware corruption)
type Field struct {
	Off   int    // absolute offset in the image
	Width int    // bytes (for varints: the encoded length)
	Kind  string // e.g. pagetype, ncells, cellptr, rightmost, child, paylen, rowid, overflow, next-overflow, rechdr, serial, contentstart, freeblock, fragments, hdr:<name>
	Page  int
	Info  string
}

type Image struct {
	Bytes  []byte
	Fields []Field
	// logical content, for oracles
	TableRows  map[string][]Row           // sorted (rowid order / pk order)
	IndexRows  map[string][][]interface{} // index name -> entries in index order (record values)
	IndexOwner map[string]string          // index name -> table
	Roots      map[string]int             // object name -> root page
	Pages      int
	Depth      map[string]int
	Spill      map[string]int // object name -> number of cells with overflow
}

type builder struct {
	ps     int
	pages  map[int][]byte
	next   int
	fields []Field
	// deferred allocation for scatter
	chains  []ChainHack
	ovCount map[string]int
	cur     *ChainHack
	// ChainLens: number of overflow pages of each hacked cell (reported back)
	chainLen int
}

// hack is called once for every overflowing cell of owner, in build order
func (b *builder) hack(owner string) *ChainHack {
	if len(b.chains) == 0 {
		return nil
	}
	if b.ovCount == nil {
		b.ovCount = map[string]int{}
	}
	n := b.ovCount[owner]
	b.ovCount[owner] = n + 1
	for i := range b.chains {
		if b.chains[i].Owner == owner && b.chains[i].Nth == n {
			return &b.chains[i]
		}
	}
	return nil
}

func localSize64(ps int, payload int64, index bool) int {
	u := int64(ps)
	x := u - 35
	if index {
		x = ((u-12)*64)/255 - 23
	}
	if payload <= x {
		return int(payload)
	}
	m := ((u-12)*32)/255 - 23
	k := m + (payload-m)%(u-4)
	if k <= x {
		return int(k)
	}
	return int(m)
}

func (b *builder) alloc() int {
	b.next++
	return b.next
}

// local payload size per the file format
func localSize(ps int, payload int, index bool) int {
	u := ps
	x := u - 35
	if index {
		x = ((u-12)*64)/255 - 23
	}
	if payload <= x {
		return payload
	}
	m := ((u-12)*32)/255 - 23
	k := m + (payload-m)%(u-4)
	if k <= x {
		return k
	}
	return m
}

type cell struct {
	bytes  []byte
	fields []Field // offsets relative to the cell start
}

// spill writes overflow pages for the part of payload that is not local and
// returns the first overflow page
func (b *builder) spill(rest []byte, lay Layout, owner string) int {
	per := b.ps - 4
	n := (len(rest) + per - 1) / per
	pgs := make([]int, n)
	for i := range pgs {
		pgs[i] = b.alloc()
	}
	if lay.ScatterOverflow && n > 1 {
		// reverse the chain order so that "next" pointers go backwards
		for i, j := 0, n-1; i < j; i, j = i+1, j-1 {
			pgs[i], pgs[j] = pgs[j], pgs[i]
		}
	}
	for i, pg := range pgs {
		p := make([]byte, b.ps)
		nxt := 0
		if i+1 < n {
			nxt = pgs[i+1]
		} else if b.cur != nil && b.cur.LoopTo > 0 && b.cur.LoopTo <= n {
			nxt = pgs[b.cur.LoopTo-1]
		}
		binary.BigEndian.PutUint32(p[0:4], uint32(nxt))
		chunk := rest
		if len(chunk) > per {
			chunk = chunk[:per]
		}
		copy(p[4:], chunk)
		rest = rest[len(chunk):]
		b.pages[pg] = p
		b.fields = append(b.fields, Field{Off: (pg - 1) * b.ps, Width: 4, Kind: "next-overflow", Page: pg, Info: owner})
	}
	b.chainLen = n
	return pgs[0]
}

func (b *builder) payloadCell(prefix []byte, prefixFields []Field, payload []byte, index bool, lay Layout, owner string) cell {
	c := cell{bytes: append([]byte{}, prefix...), fields: prefixFields}
	local := localSize(b.ps, len(payload), index)
	if b.cur != nil && b.cur.DeclLen > 0 {
		// the reader computes the local size from the declared length
		local = localSize64(b.ps, b.cur.DeclLen, index)
		if local >= len(payload) {
			local = len(payload) - 1 // keep at least one byte for the chain (not consistent with the declaration; only for tiny payloads)
		}
	}
	// record header fields (relative to payload start)
	pstart := len(c.bytes)
	c.fields = append(c.fields, recordFields(payload, pstart, local)...)
	c.bytes = append(c.bytes, payload[:local]...)
	if local < len(payload) {
		first := b.spill(payload[local:], lay, owner)
		c.fields = append(c.fields, Field{Off: len(c.bytes), Width: 4, Kind: "overflow", Info: owner})
		var p [4]byte
		binary.BigEndian.PutUint32(p[:], uint32(first))
		c.bytes = append(c.bytes, p[:]...)
	}
	// cells are at least 4 bytes
	for len(c.bytes) < 4 {
		c.bytes = append(c.bytes, 0)
	}
	return c
}

// recordFields lists the header-size varint and serial types inside the
// local part of a payload
func recordFields(payload []byte, base int, local int) []Field {
	var fs []Field
	hs, n := getVarint(payload)
	if n <= 0 || n > local {
		return nil
	}
	fs = append(fs, Field{Off: base, Width: n, Kind: "rechdr"})
	off := n
	i := 0
	for off < int(hs) && off < local {
		_, m := getVarint(payload[off:])
		if m <= 0 || off+m > local {
			break
		}
		if i < 8 {
			fs = append(fs, Field{Off: base + off, Width: m, Kind: "serial", Info: fmt.Sprint(i)})
		}
		off += m
		i++
	}
	return fs
}

func getVarint(b []byte) (int64, int) {
	var n uint64
	for i := 0; i < len(b) && i < 9; i++ {
		if i == 8 {
			return int64(n<<8 | uint64(b[i])), 9
		}
		n = n<<7 | uint64(b[i]&0x7f)
		if b[i] < 0x80 {
			return int64(n), i + 1
		}
	}
	return 0, -1
}

// writePage lays out a b-tree page
func (b *builder) writePage(pg int, typ byte, rightmost int, cells []cell, lay Layout, owner string) {
	p := make([]byte, b.ps)
	hoff := 0
	if pg == 1 {
		hoff = 100
	}
	hlen := 8
	if typ == 0x05 || typ == 0x02 {
		hlen = 12
	}
	base := (pg - 1) * b.ps
	ptrOff := hoff + hlen
	// physical order
	order := make([]int, len(cells))
	for i := range order {
		order[i] = i
	}
	gap := 0
	frag := 0
	if lay.ShuffleCells && len(cells) > 1 {
		// rotate + reverse so physical order != logical order
		for i := range order {
			order[i] = (len(cells) - 1 - i + 1) % len(cells)
		}
		gap = 6  // a free block of 6 bytes between the first two placed cells
		frag = 2 // and 2 fragment bytes
	}
	end := b.ps
	offs := make([]int, len(cells))
	freeblockAt := 0
	for k, ci := range order {
		c := cells[ci]
		end -= len(c.bytes)
		offs[ci] = end
		copy(p[end:], c.bytes)
		if k == 0 && gap > 0 {
			end -= frag
			end -= gap
			freeblockAt = end
		}
	}
	if end < ptrOff+2*len(cells) {
		panic(fmt.Sprintf("dbgen: page %d of %s overflows: %d cells, content start %d, pointer array end %d", pg, owner, len(cells), end, ptrOff+2*len(cells)))
	}
	p[hoff] = typ
	if freeblockAt > 0 {
		binary.BigEndian.PutUint16(p[hoff+1:], uint16(freeblockAt))
		binary.BigEndian.PutUint16(p[freeblockAt:], 0)             // next freeblock
		binary.BigEndian.PutUint16(p[freeblockAt+2:], uint16(gap)) // size
		p[hoff+7] = byte(frag)
		b.fields = append(b.fields, Field{Off: base + freeblockAt, Width: 2, Kind: "freeblock-next", Page: pg, Info: owner},
			Field{Off: base + freeblockAt + 2, Width: 2, Kind: "freeblock-size", Page: pg, Info: owner})
	}
	binary.BigEndian.PutUint16(p[hoff+3:], uint16(len(cells)))
	cs := end
	if len(cells) == 0 {
		cs = b.ps
	}
	if cs == 65536 {
		cs = 0
	}
	binary.BigEndian.PutUint16(p[hoff+5:], uint16(cs))
	b.fields = append(b.fields,
		Field{Off: base + hoff, Width: 1, Kind: "pagetype", Page: pg, Info: owner},
		Field{Off: base + hoff + 1, Width: 2, Kind: "firstfreeblock", Page: pg, Info: owner},
		Field{Off: base + hoff + 3, Width: 2, Kind: "ncells", Page: pg, Info: owner},
		Field{Off: base + hoff + 5, Width: 2, Kind: "contentstart", Page: pg, Info: owner},
		Field{Off: base + hoff + 7, Width: 1, Kind: "fragments", Page: pg, Info: owner})
	if hlen == 12 {
		binary.BigEndian.PutUint32(p[hoff+8:], uint32(rightmost))
		b.fields = append(b.fields, Field{Off: base + hoff + 8, Width: 4, Kind: "rightmost", Page: pg, Info: owner})
	}
	for i := range cells {
		binary.BigEndian.PutUint16(p[ptrOff+2*i:], uint16(offs[i]))
		b.fields = append(b.fields, Field{Off: base + ptrOff + 2*i, Width: 2, Kind: "cellptr", Page: pg, Info: fmt.Sprintf("%s cell %d", owner, i)})
		for _, f := range cells[i].fields {
			f.Off += base + offs[i]
			f.Page = pg
			if f.Info == "" {
				f.Info = owner
			}
			b.fields = append(b.fields, f)
		}
	}
	b.pages[pg] = p
}

type tableEntry struct {
	rowid   int64
	payload []byte
}

// buildTable writes a table b-tree of the given shape; returns the root page
// and the max rowid of the subtree.
func (b *builder) buildTable(t *Tree, entries []tableEntry, root int, lay Layout, owner string, nextRowid func(i int) (int64, bool), spill *int) {
	var rec func(t *Tree, ents []tableEntry, pg int, globalStart int)
	rec = func(t *Tree, ents []tableEntry, pg int, globalStart int) {
		if t.Leaf() {
			cells := make([]cell, len(ents))
			for i, e := range ents {
				decl := int64(len(e.payload))
				b.cur = nil
				if localSize(b.ps, len(e.payload), false) < len(e.payload) {
					if b.cur = b.hack(owner); b.cur != nil && b.cur.DeclLen > 0 {
						decl = b.cur.DeclLen
					}
				}
				pre := ref.PutVarint(nil, decl)
				l1 := len(pre)
				pre = ref.PutVarint(pre, e.rowid)
				fs := []Field{{Off: 0, Width: l1, Kind: "paylen"}, {Off: l1, Width: len(pre) - l1, Kind: "rowid"}}
				cells[i] = b.payloadCell(pre, fs, e.payload, false, lay, owner)
				b.cur = nil
				if localSize(b.ps, len(e.payload), false) < len(e.payload) {
					*spill++
				}
			}
			b.writePage(pg, 0x0d, 0, cells, lay, owner)
			return
		}
		// allocate child pages
		kids := make([]int, len(t.Kids))
		for i := range kids {
			kids[i] = b.alloc()
		}
		if lay.ReversePages {
			for i, j := 0, len(kids)-1; i < j; i, j = i+1, j-1 {
				kids[i], kids[j] = kids[j], kids[i]
			}
		}
		var cells []cell
		pos := 0
		for i, k := range t.Kids {
			n := k.TableCount()
			sub := ents[pos : pos+n]
			rec(k, sub, kids[i], globalStart+pos)
			pos += n
			if i < len(t.Kids)-1 {
				key := int64(0)
				if n > 0 {
					key = sub[n-1].rowid
				}
				if lay.SepGap {
					// any key k with max(left) <= k < min(right) is legal
					if nr, ok := nextRowid(globalStart + pos); ok && nr-1 > key {
						key = nr - 1
					}
				}
				var c [4]byte
				binary.BigEndian.PutUint32(c[:], uint32(kids[i]))
				cb := ref.PutVarint(c[:], key)
				cells = append(cells, cell{bytes: cb, fields: []Field{{Off: 0, Width: 4, Kind: "child"}, {Off: 4, Width: len(cb) - 4, Kind: "sepkey"}}})
			}
		}
		b.writePage(pg, 0x05, kids[len(kids)-1], cells, lay, owner)
	}
	rec(t, entries, root, 0)
}

func (b *builder) buildIndex(t *Tree, payloads [][]byte, root int, lay Layout, owner string, spill *int) {
	var rec func(t *Tree, ents [][]byte, pg int)
	rec = func(t *Tree, ents [][]byte, pg int) {
		mk := func(pre []byte, fs []Field, pl []byte) cell {
			l0 := len(pre)
			decl := int64(len(pl))
			b.cur = nil
			if localSize(b.ps, len(pl), true) < len(pl) {
				*spill++
				if b.cur = b.hack(owner); b.cur != nil && b.cur.DeclLen > 0 {
					decl = b.cur.DeclLen
				}
			}
			pre = ref.PutVarint(pre, decl)
			fs = append(fs, Field{Off: l0, Width: len(pre) - l0, Kind: "paylen"})
			defer func() { b.cur = nil }()
			return b.payloadCell(pre, fs, pl, true, lay, owner)
		}
		if t.Leaf() {
			cells := make([]cell, len(ents))
			for i, e := range ents {
				cells[i] = mk(nil, nil, e)
			}
			b.writePage(pg, 0x0a, 0, cells, lay, owner)
			return
		}
		kids := make([]int, len(t.Kids))
		for i := range kids {
			kids[i] = b.alloc()
		}
		if lay.ReversePages {
			for i, j := 0, len(kids)-1; i < j; i, j = i+1, j-1 {
				kids[i], kids[j] = kids[j], kids[i]
			}
		}
		var cells []cell
		pos := 0
		for i, k := range t.Kids {
			n := k.IndexCount()
			rec(k, ents[pos:pos+n], kids[i])
			pos += n
			if i < len(t.Kids)-1 {
				var c [4]byte
				binary.BigEndian.PutUint32(c[:], uint32(kids[i]))
				cells = append(cells, mk(c[:], []Field{{Off: 0, Width: 4, Kind: "child"}}, ents[pos]))
				pos++
			}
		}
		b.writePage(pg, 0x02, kids[len(kids)-1], cells, lay, owner)
	}
	rec(t, payloads, root)
}

// DefaultTableTree fills leaves greedily given cell sizes
func defaultTree(sizes []int, ps int, firstPageExtra int, interiorCell int, index bool) *Tree {
	// leaves
	usable := ps - 8
	var leaves []*Tree
	cur, used := 0, 0
	flush := func() {
		if cur > 0 {
			leaves = append(leaves, &Tree{N: cur})
			cur, used = 0, 0
		}
	}
	if index {
		// index trees: entries between leaves go to the parent; handled by generic grouping below
		return defaultIndexTree(sizes, ps, firstPageExtra)
	}
	for _, s := range sizes {
		if used+s+2 > usable-firstPageExtra {
			flush()
		}
		cur++
		used += s + 2
	}
	flush()
	if len(leaves) == 0 {
		return &Tree{N: 0}
	}
	level := leaves
	for len(level) > 1 {
		per := (ps - 12 - firstPageExtra) / (interiorCell + 2)
		if per < 2 {
			per = 2
		}
		var up []*Tree
		for i := 0; i < len(level); i += per {
			j := i + per
			if j > len(level) {
				j = len(level)
			}
			if len(level)-j == 1 { // do not leave a single child alone... it is legal, keep simple
			}
			up = append(up, &Tree{Kids: level[i:j]})
		}
		level = up
	}
	return level[0]
}

func defaultIndexTree(sizes []int, ps int, firstPageExtra int) *Tree {
	n := len(sizes)
	max := 0
	for _, s := range sizes {
		if s > max {
			max = s
		}
	}
	perLeaf := (ps - 8 - firstPageExtra) / (max + 2)
	if perLeaf < 1 {
		perLeaf = 1
	}
	if n <= perLeaf {
		return &Tree{N: n}
	}
	perInt := (ps - 12 - firstPageExtra) / (max + 6)
	if perInt < 2 {
		perInt = 2
	}
	// build recursively: capacity(depth)
	var capOf func(d int) int
	capOf = func(d int) int {
		if d == 1 {
			return perLeaf
		}
		return (perInt+1)*capOf(d-1) + perInt
	}
	d := 1
	for capOf(d) < n {
		d++
	}
	var mk func(n, d int) *Tree
	mk = func(n, d int) *Tree {
		if d == 1 {
			return &Tree{N: n}
		}
		// choose k children: minimal k with k*cap(d-1)+(k-1) >= n, at least 2
		sub := capOf(d - 1)
		k := 2
		for k*sub+(k-1) < n {
			k++
		}
		rest := n - (k - 1)
		t := &Tree{}
		for i := 0; i < k; i++ {
			share := rest / (k - i)
			if share < 1 {
				share = 1
			}
			// every subtree of depth d-1 needs at least minOf(d-1) entries
			t.Kids = append(t.Kids, mk(share, d-1))
			rest -= share
		}
		return t
	}
	return mk(n, d)
}

func (b *builder) header(p []byte, npages int, format uint32) {
	copy(p, "SQLite format 3\x00")
	ps := b.ps
	if ps == 65536 {
		ps = 1
	}
	binary.BigEndian.PutUint16(p[16:], uint16(ps))
	p[18], p[19], p[20] = 1, 1, 0
	p[21], p[22], p[23] = 64, 32, 32
	binary.BigEndian.PutUint32(p[24:], 7) // change counter
	binary.BigEndian.PutUint32(p[28:], uint32(npages))
	binary.BigEndian.PutUint32(p[40:], 3) // schema cookie
	if format == 0 {
		format = 4
	}
	binary.BigEndian.PutUint32(p[44:], format)
	binary.BigEndian.PutUint32(p[56:], 1) // utf8
	binary.BigEndian.PutUint32(p[92:], 7) // version valid for
	binary.BigEndian.PutUint32(p[96:], 3040001)
}

// storedRecord is the record of a rowid-table row
func storedRecord(t *Table, r Row) []interface{} {
	n := t.NCols
	if r.Short > 0 && r.Short < n {
		n = r.Short
	}
	vals := make([]interface{}, n)
	for i := 0; i < n; i++ {
		if i == t.RowidAlias {
			vals[i] = nil
		} else {
			vals[i] = r.Vals[i]
		}
	}
	return vals
}

func colVal(t *Table, r Row, col int) interface{} {
	if col == t.RowidAlias {
		return r.Rowid
	}
	return ref.Plain(r.Vals[col])
}

// wrStored gives the storage order of a WITHOUT ROWID table: pk columns
// (deduplicated) then the other columns in definition order
func WRStoreOrder(t *Table) []int {
	var order []int
	seen := map[int]bool{}
	for _, c := range t.PK {
		if !seen[c.Col] {
			seen[c.Col] = true
			order = append(order, c.Col)
		}
	}
	for i := 0; i < t.NCols; i++ {
		if !seen[i] {
			order = append(order, i)
		}
	}
	return order
}

func pkDedup(t *Table) []IdxCol {
	var pk []IdxCol
	seen := map[int]bool{}
	for _, c := range t.PK {
		if !seen[c.Col] {
			seen[c.Col] = true
			pk = append(pk, c)
		}
	}
	return pk
}

// IndexKeyCols is the full column list of an index b-tree: key columns then
// rowid (Col=-1) or the missing pk columns
func IndexKeyCols(t *Table, ix *Index) []IdxCol {
	cols := append([]IdxCol{}, ix.Cols...)
	if !t.WithoutRowid {
		return append(cols, IdxCol{Col: -1})
	}
	for _, p := range pkDedup(t) {
		dup := false
		for _, c := range ix.Cols {
			if c.Col == p.Col && strings.EqualFold(c.Coll, p.Coll) {
				dup = true
			}
		}
		if !dup {
			cols = append(cols, p)
		}
	}
	return cols
}

func keyCols(cols []IdxCol) []ref.KeyCol {
	out := make([]ref.KeyCol, len(cols))
	for i, c := range cols {
		out[i] = ref.KeyCol{Coll: c.Coll, Desc: c.Desc}
	}
	return out
}

// Build writes the image
func Build(s *Spec) (img *Image, err error) {
	defer func() {
		if p := recover(); p != nil {
			err = fmt.Errorf("%v", p)
		}
	}()
	b := &builder{ps: s.PageSize, pages: map[int][]byte{}, next: 1, chains: s.Chains}
	img = &Image{TableRows: map[string][]Row{}, IndexRows: map[string][][]interface{}{}, IndexOwner: map[string]string{}, Roots: map[string]int{}, Depth: map[string]int{}, Spill: map[string]int{}}

	type masterRow struct {
		typ, name, tbl string
		root           int
		sql            interface{}
	}
	var master []masterRow

	for ti := range s.Tables {
		t := &s.Tables[ti]
		root := b.alloc()
		img.Roots[t.Name] = root
		master = append(master, masterRow{"table", t.Name, t.Name, root, t.SQL})
		spill := 0
		if !t.WithoutRowid {
			rows := append([]Row{}, t.Rows...)
			sort.SliceStable(rows, func(i, j int) bool { return rows[i].Rowid < rows[j].Rowid })
			for i := 1; i < len(rows); i++ {
				if rows[i].Rowid == rows[i-1].Rowid {
					panic("dbgen: duplicate rowid")
				}
			}
			img.TableRows[t.Name] = rows
			ents := make([]tableEntry, len(rows))
			sizes := make([]int, len(rows))
			for i, r := range rows {
				pl := ref.EncodeRecord(storedRecord(t, r))
				if r.Raw != nil {
					pl = r.Raw
				}
				ents[i] = tableEntry{r.Rowid, pl}
				sizes[i] = localSize(b.ps, len(pl), false) + 9 + 3 + 4
			}
			tree := t.Tree
			if tree == nil {
				tree = defaultTree(sizes, b.ps, 0, 13, false)
			}
			if tree.TableCount() != len(rows) {
				panic(fmt.Sprintf("dbgen: table %s: shape %s holds %d rows, have %d", t.Name, tree, tree.TableCount(), len(rows)))
			}
			img.Depth[t.Name] = tree.Depth()
			b.buildTable(tree, ents, root, t.Layout, t.Name, func(i int) (int64, bool) {
				if i < len(rows) {
					return rows[i].Rowid, true
				}
				return 0, false
			}, &spill)
		} else {
			order := WRStoreOrder(t)
			pk := pkDedup(t)
			rows := append([]Row{}, t.Rows...)
			recs := make([][]interface{}, len(rows))
			for i, r := range rows {
				rec := make([]interface{}, len(order))
				for j, c := range order {
					rec[j] = r.Vals[c]
				}
				recs[i] = rec
			}
			kc := keyCols(pk)
			idx := make([]int, len(rows))
			for i := range idx {
				idx[i] = i
			}
			sort.SliceStable(idx, func(i, j int) bool {
				return ref.CompareRecords(ref.PlainRow(recs[idx[i]]), ref.PlainRow(recs[idx[j]]), kc, len(pk)) < 0
			})
			sorted := make([]Row, len(rows))
			payloads := make([][]byte, len(rows))
			sizes := make([]int, len(rows))
			for i, k := range idx {
				sorted[i] = rows[k]
				payloads[i] = ref.EncodeRecord(recs[k])
				sizes[i] = localSize(b.ps, len(payloads[i]), true) + 3 + 4 + 4
			}
			img.TableRows[t.Name] = sorted
			tree := t.Tree
			if tree == nil {
				tree = defaultIndexTree(sizes, b.ps, 0)
			}
			if tree.IndexCount() != len(rows) {
				panic(fmt.Sprintf("dbgen: table %s: shape %s holds %d rows, have %d", t.Name, tree, tree.IndexCount(), len(rows)))
			}
			img.Depth[t.Name] = tree.Depth()
			b.buildIndex(tree, payloads, root, t.Layout, t.Name, &spill)
		}
		img.Spill[t.Name] = spill

		for ii := range t.Indexes {
			ix := &t.Indexes[ii]
			iroot := b.alloc()
			img.Roots[ix.Name] = iroot
			img.IndexOwner[ix.Name] = t.Name
			var sql interface{}
			if ix.SQL != "" {
				sql = ix.SQL
			}
			master = append(master, masterRow{"index", ix.Name, t.Name, iroot, sql})
			cols := IndexKeyCols(t, ix)
			var recs [][]interface{}
			for _, r := range t.Rows {
				if ix.Where != nil && !ix.Where(r.Rowid, ref.PlainRow(r.Vals)) {
					continue
				}
				rec := make([]interface{}, len(cols))
				for j, c := range cols {
					if c.Col == -1 {
						rec[j] = r.Rowid
					} else if c.Col == t.RowidAlias && !t.WithoutRowid {
						rec[j] = r.Rowid
					} else {
						rec[j] = r.Vals[c.Col]
					}
				}
				recs = append(recs, rec)
			}
			kc := keyCols(cols)
			sort.SliceStable(recs, func(i, j int) bool {
				return ref.CompareRecords(ref.PlainRow(recs[i]), ref.PlainRow(recs[j]), kc, len(cols)) < 0
			})
			plain := make([][]interface{}, len(recs))
			payloads := make([][]byte, len(recs))
			sizes := make([]int, len(recs))
			for i, rec := range recs {
				plain[i] = ref.PlainRow(rec)
				payloads[i] = ref.EncodeRecord(rec)
				sizes[i] = localSize(b.ps, len(payloads[i]), true) + 3 + 4 + 4
			}
			img.IndexRows[ix.Name] = plain
			for _, raw := range ix.ExtraRaw {
				payloads = append(payloads, raw)
				sizes = append(sizes, localSize(b.ps, len(raw), true)+3+4+4)
			}
			tree := ix.Tree
			if tree == nil {
				tree = defaultIndexTree(sizes, b.ps, 0)
			}
			if tree.IndexCount() != len(payloads) {
				panic(fmt.Sprintf("dbgen: index %s: shape %s holds %d entries, have %d", ix.Name, tree, tree.IndexCount(), len(payloads)))
			}
			img.Depth[ix.Name] = tree.Depth()
			isp := 0
			b.buildIndex(tree, payloads, iroot, ix.Layout, ix.Name, &isp)
			img.Spill[ix.Name] = isp
		}
	}

	// sqlite_master on page 1
	ments := make([]tableEntry, len(master))
	msizes := make([]int, len(master))
	for i, m := range master {
		pl := ref.EncodeRecord([]interface{}{m.typ, m.name, m.tbl, int64(m.root), m.sql})
		ments[i] = tableEntry{int64(i + 1), pl}
		msizes[i] = localSize(b.ps, len(pl), false) + 9 + 3 + 4
	}
	mt := s.MasterTree
	if mt == nil {
		mt = defaultTree(msizes, b.ps, 100, 13, false)
	}
	if mt.TableCount() != len(master) {
		panic(fmt.Sprintf("dbgen: master shape %s holds %d, have %d", mt, mt.TableCount(), len(master)))
	}
	msp := 0
	b.buildTable(mt, ments, 1, Layout{}, "sqlite_master", func(i int) (int64, bool) {
		if i < len(ments) {
			return ments[i].rowid, true
		}
		return 0, false
	}, &msp)
	img.Depth["sqlite_master"] = mt.Depth()
	img.Spill["sqlite_master"] = msp

	n := b.next
	out := make([]byte, n*b.ps)
	for pg, p := range b.pages {
		copy(out[(pg-1)*b.ps:], p)
	}
	b.header(out, n, s.SchemaFormat)
	switch s.LegacyHeader {
	case 1:
		binary.BigEndian.PutUint32(out[28:], 0)
		binary.BigEndian.PutUint32(out[92:], 0)
		binary.BigEndian.PutUint32(out[96:], 0)
	case 2:
		stale := n / 2
		if stale < 1 {
			stale = 1
		}
		binary.BigEndian.PutUint32(out[28:], uint32(stale))
		binary.BigEndian.PutUint32(out[92:], 6) // change counter is 7
		binary.BigEndian.PutUint32(out[96:], 3006023)
	}
	for _, f := range []struct {
		off, w int
		name   string
	}{{16, 2, "pagesize"}, {18, 1, "writeversion"}, {19, 1, "readversion"}, {20, 1, "reserved"}, {21, 1, "maxfrac"}, {24, 4, "changecounter"}, {28, 4, "dbsize"}, {32, 4, "freelisttrunk"}, {36, 4, "freelistcount"}, {40, 4, "schemacookie"}, {44, 4, "schemaformat"}, {56, 4, "encoding"}} {
		b.fields = append(b.fields, Field{Off: f.off, Width: f.w, Kind: "hdr:" + f.name, Page: 1})
	}
	img.Bytes = out
	img.Fields = b.fields
	img.Pages = n
	return img, nil
}
