package dbgen

// Exhaustive enumeration of b-tree shapes within bounds.

// compositions of n into k parts, each >= min
func compositions(n, k, min int, fn func([]int)) {
	parts := make([]int, k)
	var rec func(i, rest int)
	rec = func(i, rest int) {
		if i == k-1 {
			if rest >= min {
				parts[i] = rest
				fn(parts)
			}
			return
		}
		for p := min; p <= rest-min*(k-1-i); p++ {
			parts[i] = p
			rec(i+1, rest-p)
		}
	}
	if k > 0 {
		rec(0, n)
	}
}

func product(lists [][]*Tree, fn func([]*Tree)) {
	cur := make([]*Tree, len(lists))
	var rec func(i int)
	rec = func(i int) {
		if i == len(lists) {
			fn(append([]*Tree{}, cur...))
			return
		}
		for _, t := range lists[i] {
			cur[i] = t
			rec(i + 1)
		}
	}
	rec(0)
}

// EnumTableTrees: every table b-tree shape holding exactly n rows with
// 1..maxLeaf cells per leaf, minFan..maxFan children per interior page, depth
// <= maxDepth, all leaves at the same depth. n==0 gives the empty root leaf.
func EnumTableTrees(n, maxLeaf, minFan, maxFan, maxDepth int) []*Tree {
	if n == 0 {
		return []*Tree{{N: 0}}
	}
	memo := map[[2]int][]*Tree{}
	var gen func(n, d int) []*Tree
	gen = func(n, d int) []*Tree {
		key := [2]int{n, d}
		if v, ok := memo[key]; ok {
			return v
		}
		var out []*Tree
		if d == 1 {
			if n >= 1 && n <= maxLeaf {
				out = []*Tree{{N: n}}
			}
		} else {
			for k := minFan; k <= maxFan; k++ {
				compositions(n, k, 1, func(parts []int) {
					lists := make([][]*Tree, k)
					for i, p := range parts {
						lists[i] = gen(p, d-1)
						if len(lists[i]) == 0 {
							return
						}
					}
					product(lists, func(kids []*Tree) { out = append(out, &Tree{Kids: kids}) })
				})
			}
		}
		memo[key] = out
		return out
	}
	var all []*Tree
	for d := 1; d <= maxDepth; d++ {
		all = append(all, gen(n, d)...)
	}
	return all
}

// EnumIndexTrees: same for index b-trees (an interior page with k children
// holds k-1 entries itself).
func EnumIndexTrees(n, maxLeaf, minFan, maxFan, maxDepth int) []*Tree {
	if n == 0 {
		return []*Tree{{N: 0}}
	}
	memo := map[[2]int][]*Tree{}
	var gen func(n, d int) []*Tree
	gen = func(n, d int) []*Tree {
		key := [2]int{n, d}
		if v, ok := memo[key]; ok {
			return v
		}
		var out []*Tree
		if d == 1 {
			if n >= 1 && n <= maxLeaf {
				out = []*Tree{{N: n}}
			}
		} else {
			for k := minFan; k <= maxFan; k++ {
				rest := n - (k - 1)
				if rest < k {
					continue
				}
				compositions(rest, k, 1, func(parts []int) {
					lists := make([][]*Tree, k)
					for i, p := range parts {
						lists[i] = gen(p, d-1)
						if len(lists[i]) == 0 {
							return
						}
					}
					product(lists, func(kids []*Tree) { out = append(out, &Tree{Kids: kids}) })
				})
			}
		}
		memo[key] = out
		return out
	}
	var all []*Tree
	for d := 1; d <= maxDepth; d++ {
		all = append(all, gen(n, d)...)
	}
	return all
}
