// Package ev is the evidence writer, the violation/known-finding reporter and
// the replay artefact writer shared by every check.
package ev

import (
	"crypto/sha256"
	"encoding/hex"
	"encoding/json"
	"fmt"
	"os"
	"path/filepath"
	"runtime"
	"sort"
	"strconv"
	"sync"
	"sync/atomic"
	"time"
)

// Root is /verif (or wherever the checks are run from)
var Root = func() string {
	if r := os.Getenv("VERIF_ROOT"); r != "" {
		return r
	}
	return "/verif"
}()

type Finding struct {
	ID        string `json:"id"`
	Property  string `json:"property"`
	Status    string `json:"status"` // open | fixed
	Commit    string `json:"commit,omitempty"`
	Signature string `json:"signature"`
	What      string `json:"what"`
	Example   string `json:"example,omitempty"`
}

type violation struct {
	Sig      string
	What     string
	Count    int64
	Artefact interface{}
	Path     string
}

// Run collects what one check invocation covered.
type Run struct {
	ID    string
	Tier  string
	Seed  int
	Level string

	start time.Time
	mu    sync.Mutex

	evaluations int64
	nontrivial  map[string]struct{}
	ntCount     int64
	states      map[[16]byte]struct{}
	transitions int64
	validated   int64
	samples     []interface{}
	maxSamples  int
	outcomes    map[string]int64

	Rule        string
	Exhaustive  bool
	Assumptions []string
	Extra       map[string]interface{}

	viol    map[string]*violation
	harness []string
	known   []Finding
}

func Tier() string {
	t := os.Getenv("VERIF_TIER")
	if t == "thorough" {
		return t
	}
	return "quick"
}

func NewRun(id, level string) *Run {
	seed, _ := strconv.Atoi(os.Getenv("VERIF_SEED"))
	r := &Run{
		ID: id, Tier: Tier(), Seed: seed, Level: level,
		start:      time.Now(),
		nontrivial: map[string]struct{}{},
		states:     map[[16]byte]struct{}{},
		outcomes:   map[string]int64{},
		Extra:      map[string]interface{}{},
		viol:       map[string]*violation{},
		maxSamples: 6,
		Exhaustive: true,
	}
	r.known = LoadFindings()
	return r
}

func LoadFindings() []Finding {
	b, err := os.ReadFile(filepath.Join(Root, "known_findings.json"))
	if err != nil {
		return nil
	}
	var f struct {
		Findings []Finding `json:"findings"`
	}
	if err := json.Unmarshal(b, &f); err != nil {
		fmt.Fprintf(os.Stderr, "HARNESS: known_findings.json unreadable: %v\n", err)
		return nil
	}
	return f.Findings
}

func (r *Run) Thorough() bool { return r.Tier == "thorough" }

// Eval counts n executed cases
func (r *Run) Eval(n int) { atomic.AddInt64(&r.evaluations, int64(n)) }

// Trans counts n judged operations / transitions
func (r *Run) Trans(n int) { atomic.AddInt64(&r.transitions, int64(n)) }

// Validated counts cases cross-checked against real SQLite / the real implementation
func (r *Run) Validated(n int) { atomic.AddInt64(&r.validated, int64(n)) }

// State records a distinct state (image, history, schedule state ...) by key
func (r *Run) State(key string) bool {
	h := sha256.Sum256([]byte(key))
	var k [16]byte
	copy(k[:], h[:16])
	r.mu.Lock()
	_, seen := r.states[k]
	if !seen {
		r.states[k] = struct{}{}
	}
	r.mu.Unlock()
	return !seen
}

// StateBytes is State for byte images
func (r *Run) StateBytes(b []byte) bool {
	h := sha256.Sum256(b)
	var k [16]byte
	copy(k[:], h[:16])
	r.mu.Lock()
	_, seen := r.states[k]
	if !seen {
		r.states[k] = struct{}{}
	}
	r.mu.Unlock()
	return !seen
}

// Nontrivial records a distinct case that hit the mechanism under test.
func (r *Run) Nontrivial(key string) {
	h := sha256.Sum256([]byte(key))
	k := string(h[:12])
	r.mu.Lock()
	r.nontrivial[k] = struct{}{}
	r.mu.Unlock()
}

// NontrivialN counts n cases known by construction to be distinct
func (r *Run) NontrivialN(n int) { atomic.AddInt64(&r.ntCount, int64(n)) }

// Outcome counts a class of observed outcome (vacuity guard)
func (r *Run) Outcome(class string) {
	r.mu.Lock()
	r.outcomes[class]++
	r.mu.Unlock()
}

// Sample records an example case (only the first few are kept)
func (r *Run) Sample(s interface{}) {
	r.mu.Lock()
	if len(r.samples) < r.maxSamples {
		r.samples = append(r.samples, s)
	}
	r.mu.Unlock()
}

func (r *Run) Assume(s string) { r.mu.Lock(); r.Assumptions = append(r.Assumptions, s); r.mu.Unlock() }

func (r *Run) Set(k string, v interface{}) { r.mu.Lock(); r.Extra[k] = v; r.mu.Unlock() }

func (r *Run) Add(k string, n int64) {
	r.mu.Lock()
	if v, ok := r.Extra[k].(int64); ok {
		r.Extra[k] = v + n
	} else {
		r.Extra[k] = n
	}
	r.mu.Unlock()
}

// NotExhaustive records that a bound/cap was hit
func (r *Run) NotExhaustive(why string) {
	r.mu.Lock()
	r.Exhaustive = false
	l, _ := r.Extra["caps_hit"].([]string)
	if len(l) < 20 {
		r.Extra["caps_hit"] = append(l, why)
	}
	r.mu.Unlock()
}

// Harness records a failure of the machinery itself (never a violation)
func (r *Run) Harness(format string, a ...interface{}) {
	s := fmt.Sprintf(format, a...)
	r.mu.Lock()
	if len(r.harness) < 50 {
		r.harness = append(r.harness, s)
	}
	r.mu.Unlock()
}

// Violation records a property violation. sig is the canonical signature
// (call site + input class) which is matched against known_findings.json;
// artefact is the replayable description of the concrete case.
func (r *Run) Violation(sig, what string, artefact interface{}) {
	r.mu.Lock()
	defer r.mu.Unlock()
	v := r.viol[sig]
	if v == nil {
		v = &violation{Sig: sig, What: what, Artefact: artefact}
		r.viol[sig] = v
	}
	v.Count++
}

func (r *Run) HasViolation(sig string) bool {
	r.mu.Lock()
	defer r.mu.Unlock()
	return r.viol[sig] != nil
}

func (r *Run) ViolationCount() int {
	r.mu.Lock()
	defer r.mu.Unlock()
	return len(r.viol)
}

func (r *Run) findKnown(sig string) *Finding {
	for i := range r.known {
		f := &r.known[i]
		if f.Property == r.ID && f.Status == "open" && f.Signature == sig {
			return f
		}
	}
	return nil
}

// Finish writes the evidence file, prints KNOWN-FINDING / VIOLATION lines and
// returns the exit code.
func (r *Run) Finish() int {
	r.mu.Lock()
	defer r.mu.Unlock()
	wall := time.Since(r.start).Seconds()

	sigs := make([]string, 0, len(r.viol))
	for s := range r.viol {
		sigs = append(sigs, s)
	}
	sort.Strings(sigs)
	newViol := 0
	knownSeen := []string{}
	os.MkdirAll(filepath.Join(Root, "replay"), 0o755)
	for _, s := range sigs {
		v := r.viol[s]
		if f := r.findKnown(s); f != nil {
			fmt.Printf("KNOWN-FINDING: property=%s %s [%s] (%s; observed %d×)\n", r.ID, f.What, f.ID, s, v.Count)
			knownSeen = append(knownSeen, f.ID)
			continue
		}
		newViol++
		h := sha256.Sum256([]byte(s))
		p := filepath.Join(Root, "replay", fmt.Sprintf("%s-%s.json", r.ID, hex.EncodeToString(h[:6])))
		b, _ := json.MarshalIndent(map[string]interface{}{
			"property": r.ID, "signature": s, "what": v.What, "count": v.Count, "case": v.Artefact,
		}, "", " ")
		os.WriteFile(p, b, 0o644)
		v.Path = p
		if newViol <= 25 {
			fmt.Printf("VIOLATION property=%s replay=%s sig=%s :: %s (×%d)\n", r.ID, p, s, v.What, v.Count)
		}
	}
	if newViol > 25 {
		fmt.Printf("... %d more distinct violation signatures\n", newViol-25)
	}
	for _, h := range r.harness {
		fmt.Printf("HARNESS: %s\n", h)
	}

	cov := map[string]interface{}{}
	for k, v := range r.Extra {
		cov[k] = v
	}
	nt := int64(len(r.nontrivial)) + r.ntCount
	cov["evaluations"] = r.evaluations
	cov["distinct_nontrivial"] = nt
	cov["rule"] = r.Rule
	cov["samples"] = r.samples
	if len(r.samples) == 0 {
		cov["samples"] = []interface{}{"(no case executed)"}
	}
	cov["states"] = len(r.states)
	cov["transitions"] = r.transitions
	cov["traces_validated_against_impl"] = r.validated
	cov["exhaustive"] = r.Exhaustive && len(r.harness) == 0
	cov["distinct_outcomes"] = len(r.outcomes)
	oc := map[string]int64{}
	for k, v := range r.outcomes {
		oc[k] = v
	}
	cov["outcomes"] = oc
	cov["known_findings_observed"] = knownSeen
	cov["harness_errors"] = len(r.harness)
	cov["workers"] = runtime.NumCPU()
	e := map[string]interface{}{
		"property_id": r.ID,
		"tier":        r.Tier,
		"seed":        r.Seed,
		"level":       r.Level,
		"coverage":    cov,
		"assumptions": r.Assumptions,
		"wall_s":      wall,
		"violations":  newViol,
	}
	if r.Assumptions == nil {
		e["assumptions"] = []string{}
	}
	b, err := json.MarshalIndent(e, "", " ")
	if err != nil {
		fmt.Printf("HARNESS: cannot marshal evidence: %v\n", err)
		return 2
	}
	os.MkdirAll(filepath.Join(Root, "evidence"), 0o755)
	tmp := filepath.Join(Root, "evidence", fmt.Sprintf(".%s.%d.tmp", r.ID, os.Getpid()))
	if err := os.WriteFile(tmp, b, 0o644); err == nil {
		os.Rename(tmp, filepath.Join(Root, "evidence", r.ID+".json"))
	}
	fmt.Printf("%s %s: evaluations=%d states=%d transitions=%d validated=%d nontrivial=%d outcomes=%d exhaustive=%v violations=%d known=%d wall=%.1fs\n",
		r.ID, r.Tier, r.evaluations, len(r.states), r.transitions, r.validated, nt, len(r.outcomes), cov["exhaustive"], newViol, len(knownSeen), wall)
	if newViol > 0 {
		return 1
	}
	if len(r.harness) > 0 {
		// machinery failure: not a verdict about the property. Exit 0 would
		// hide it from us, exit 1 would be an alarm; use 0 with exhaustive=false
		// and a loud HARNESS line (see DESIGN §8.2).
		return 0
	}
	return 0
}

// Parallel runs fn(i) for i in [0,n) on all cores.
func Parallel(n int, fn func(i int)) {
	w := runtime.NumCPU()
	if w > n {
		w = n
	}
	if w < 1 {
		w = 1
	}
	var next int64 = -1
	var wg sync.WaitGroup
	for k := 0; k < w; k++ {
		wg.Add(1)
		go func() {
			defer wg.Done()
			for {
				i := int(atomic.AddInt64(&next, 1))
				if i >= n {
					return
				}
				fn(i)
			}
		}()
	}
	wg.Wait()
}

// TmpDir makes a scratch dir under $VERIF_TMP | /dev/shm | $TMPDIR
func TmpDir(prefix string) string {
	base := os.Getenv("VERIF_TMP")
	if base == "" {
		if st, err := os.Stat("/dev/shm"); err == nil && st.IsDir() {
			base = "/dev/shm"
		} else {
			base = os.TempDir()
		}
	}
	d, err := os.MkdirTemp(base, "verif-"+prefix+"-")
	if err != nil {
		panic(err)
	}
	return d
}

// Within runs fn on its own goroutine and reports whether it returned within
// d. It is a hang detector, not a performance oracle: callers pass a limit
// several orders of magnitude above the normal duration of fn. When it
// reports false the goroutine is still blocked inside fn and is abandoned.
func Within(d time.Duration, fn func()) bool {
	done := make(chan struct{})
	go func() {
		defer close(done)
		fn()
	}()
	// the time is granted in 120 slices; a slice that took far longer than it should (the process or the whole
	// machine was stopped, the clock stepped) counts as one slice: fn could not run in that time either
	step := d / 120
	if step < 10*time.Millisecond {
		step = 10 * time.Millisecond
	}
	for granted := time.Duration(0); granted < d; granted += step {
		select {
		case <-done:
			return true
		case <-time.After(step):
		}
	}
	select {
	case <-done:
		return true
	default:
		return false
	}
}
