// vfslog: a shim VFS over the default unix VFS that records every write,
// truncate, sync, delete and creating open on the main database file and its
// rollback journal, with a settable sector size. Used by check C09 to
// enumerate the crash points of real SQLite write transactions.
#include <sqlite3.h>
#include <stdlib.h>
#include <string.h>

typedef struct LogOp {
  char op;          /* W T S D O */
  int kind;         /* 0 main db, 1 journal, 2 other */
  sqlite3_int64 off;
  int amt;
  unsigned char *data;
} LogOp;

static LogOp *g_ops = 0;
static int g_nops = 0, g_cap = 0;
static int g_sector = 512;
static int g_enabled = 0;
static sqlite3_vfs *g_real = 0;
static sqlite3_vfs g_vfs;

static void logop(char op, int kind, sqlite3_int64 off, int amt, const void *data) {
  if (!g_enabled || kind > 1) return;
  if (g_nops == g_cap) {
    g_cap = g_cap ? g_cap * 2 : 256;
    g_ops = (LogOp *)realloc(g_ops, sizeof(LogOp) * g_cap);
  }
  LogOp *o = &g_ops[g_nops++];
  o->op = op; o->kind = kind; o->off = off; o->amt = amt; o->data = 0;
  if (data && amt > 0) {
    o->data = (unsigned char *)malloc(amt);
    memcpy(o->data, data, amt);
  }
}

typedef struct LogFile {
  sqlite3_file base;
  int kind;
  sqlite3_file *real;
} LogFile;

static int kindOf(const char *zName, int flags) {
  if (flags & SQLITE_OPEN_MAIN_DB) return 0;
  if (flags & SQLITE_OPEN_MAIN_JOURNAL) return 1;
  return 2;
}

static int lfClose(sqlite3_file *f) { LogFile *p = (LogFile *)f; int rc = p->real->pMethods ? p->real->pMethods->xClose(p->real) : SQLITE_OK; return rc; }
static int lfRead(sqlite3_file *f, void *b, int n, sqlite3_int64 o) { LogFile *p = (LogFile *)f; return p->real->pMethods->xRead(p->real, b, n, o); }
static int lfWrite(sqlite3_file *f, const void *b, int n, sqlite3_int64 o) {
  LogFile *p = (LogFile *)f;
  logop('W', p->kind, o, n, b);
  return p->real->pMethods->xWrite(p->real, b, n, o);
}
static int lfTruncate(sqlite3_file *f, sqlite3_int64 sz) { LogFile *p = (LogFile *)f; logop('T', p->kind, sz, 0, 0); return p->real->pMethods->xTruncate(p->real, sz); }
static int lfSync(sqlite3_file *f, int fl) { LogFile *p = (LogFile *)f; logop('S', p->kind, 0, 0, 0); return p->real->pMethods->xSync(p->real, fl); }
static int lfFileSize(sqlite3_file *f, sqlite3_int64 *sz) { LogFile *p = (LogFile *)f; return p->real->pMethods->xFileSize(p->real, sz); }
static int lfLock(sqlite3_file *f, int l) { LogFile *p = (LogFile *)f; return p->real->pMethods->xLock(p->real, l); }
static int lfUnlock(sqlite3_file *f, int l) { LogFile *p = (LogFile *)f; return p->real->pMethods->xUnlock(p->real, l); }
static int lfCheckReserved(sqlite3_file *f, int *r) { LogFile *p = (LogFile *)f; return p->real->pMethods->xCheckReservedLock(p->real, r); }
static int lfFileControl(sqlite3_file *f, int op, void *a) { LogFile *p = (LogFile *)f; return p->real->pMethods->xFileControl(p->real, op, a); }
static int lfSectorSize(sqlite3_file *f) { return g_sector; }
static int lfDevChar(sqlite3_file *f) { return 0; }

static const sqlite3_io_methods lfMethods = {
  1, lfClose, lfRead, lfWrite, lfTruncate, lfSync, lfFileSize, lfLock, lfUnlock, lfCheckReserved, lfFileControl, lfSectorSize, lfDevChar,
  0, 0, 0, 0, 0, 0
};

static int lvOpen(sqlite3_vfs *v, const char *zName, sqlite3_file *f, int flags, int *pOut) {
  LogFile *p = (LogFile *)f;
  p->real = (sqlite3_file *)&p[1];
  p->kind = kindOf(zName, flags);
  memset(p->real, 0, g_real->szOsFile);
  int existed = 0;
  if (zName && p->kind <= 1) { int r = 0; g_real->xAccess(g_real, zName, SQLITE_ACCESS_EXISTS, &r); existed = r; }
  int rc = g_real->xOpen(g_real, zName, p->real, flags, pOut);
  if (rc == SQLITE_OK) {
    p->base.pMethods = &lfMethods;
    if (!existed && (flags & SQLITE_OPEN_CREATE)) logop('O', p->kind, 0, 0, 0);
  } else {
    p->base.pMethods = 0;
  }
  return rc;
}
static int lvDelete(sqlite3_vfs *v, const char *zName, int syncDir) {
  int n = zName ? (int)strlen(zName) : 0;
  int kind = (n > 8 && strcmp(zName + n - 8, "-journal") == 0) ? 1 : 2;
  logop('D', kind, 0, 0, 0);
  return g_real->xDelete(g_real, zName, syncDir);
}
static int lvAccess(sqlite3_vfs *v, const char *z, int fl, int *r) { return g_real->xAccess(g_real, z, fl, r); }
static int lvFullPathname(sqlite3_vfs *v, const char *z, int n, char *o) { return g_real->xFullPathname(g_real, z, n, o); }
static int lvRandomness(sqlite3_vfs *v, int n, char *o) { memset(o, 0x5a, n); return n; } /* deterministic nonces */
static int lvSleep(sqlite3_vfs *v, int us) { return g_real->xSleep(g_real, us); }
static int lvCurrentTime(sqlite3_vfs *v, double *t) { return g_real->xCurrentTime(g_real, t); }
static int lvGetLastError(sqlite3_vfs *v, int n, char *o) { return 0; }

int vfslog_register(void) {
  if (g_real) return SQLITE_OK;
  g_real = sqlite3_vfs_find(0);
  if (!g_real) return SQLITE_ERROR;
  memset(&g_vfs, 0, sizeof(g_vfs));
  g_vfs.iVersion = 1;
  g_vfs.szOsFile = sizeof(LogFile) + g_real->szOsFile;
  g_vfs.mxPathname = g_real->mxPathname;
  g_vfs.zName = "vfslog";
  g_vfs.xOpen = lvOpen;
  g_vfs.xDelete = lvDelete;
  g_vfs.xAccess = lvAccess;
  g_vfs.xFullPathname = lvFullPathname;
  g_vfs.xRandomness = lvRandomness;
  g_vfs.xSleep = lvSleep;
  g_vfs.xCurrentTime = lvCurrentTime;
  g_vfs.xGetLastError = lvGetLastError;
  return sqlite3_vfs_register(&g_vfs, 0);
}
void vfslog_reset(int sector) {
  for (int i = 0; i < g_nops; i++) free(g_ops[i].data);
  g_nops = 0;
  g_sector = sector;
}
void vfslog_enable(int on) { g_enabled = on; }
int vfslog_count(void) { return g_nops; }
int vfslog_get(int i, char *op, int *kind, sqlite3_int64 *off, int *amt, unsigned char **data) {
  if (i < 0 || i >= g_nops) return 0;
  *op = g_ops[i].op; *kind = g_ops[i].kind; *off = g_ops[i].off; *amt = g_ops[i].amt; *data = g_ops[i].data;
  return 1;
}
