package lite

/*
#include <sqlite3.h>
int vfslog_register(void);
void vfslog_reset(int sector);
void vfslog_enable(int on);
int vfslog_count(void);
int vfslog_get(int i, char *op, int *kind, sqlite3_int64 *off, int *amt, unsigned char **data);
*/
import "C"

import (
	"fmt"
	"unsafe"
)

// VfsOp is one recorded file operation of the "vfslog" VFS
type VfsOp struct {
	Op   byte // W write, T truncate, S sync, D delete, O created
	Kind int  // 0 main database file, 1 rollback journal
	Off  int64
	Data []byte
}

func (o VfsOp) String() string {
	k := "db"
	if o.Kind == 1 {
		k = "journal"
	}
	switch o.Op {
	case 'W':
		return fmt.Sprintf("write %s off=%d len=%d", k, o.Off, len(o.Data))
	case 'T':
		return fmt.Sprintf("truncate %s to %d", k, o.Off)
	case 'S':
		return "sync " + k
	case 'D':
		return "delete " + k
	case 'O':
		return "create " + k
	}
	return "?"
}

// VfsLogRegister registers the "vfslog" VFS (idempotent)
func VfsLogRegister() error {
	if rc := C.vfslog_register(); rc != C.SQLITE_OK {
		return fmt.Errorf("vfslog_register: %d", int(rc))
	}
	return nil
}

// VfsLogStart clears the log, sets the sector size and starts recording
func VfsLogStart(sector int) {
	C.vfslog_reset(C.int(sector))
	C.vfslog_enable(1)
}

// VfsLogStop stops recording and returns the log
func VfsLogStop() []VfsOp {
	C.vfslog_enable(0)
	n := int(C.vfslog_count())
	out := make([]VfsOp, 0, n)
	for i := 0; i < n; i++ {
		var op C.char
		var kind, amt C.int
		var off C.sqlite3_int64
		var data *C.uchar
		C.vfslog_get(C.int(i), &op, &kind, &off, &amt, &data)
		o := VfsOp{Op: byte(op), Kind: int(kind), Off: int64(off)}
		if data != nil && amt > 0 {
			o.Data = C.GoBytes(unsafe.Pointer(data), amt)
		}
		out = append(out, o)
	}
	return out
}
