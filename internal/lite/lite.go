// Package lite is a minimal cgo binding to the system libsqlite3 (3.40.1 in
// this sandbox). Real SQLite is only ever used as oracle or as peer writer.
package lite

/*
#cgo LDFLAGS: -lsqlite3
#include <sqlite3.h>
#include <stdlib.h>
#include <string.h>

static int bind_text(sqlite3_stmt *s, int i, const char *p, int n) {
	return sqlite3_bind_text(s, i, p, n, SQLITE_TRANSIENT);
}
static int bind_blob(sqlite3_stmt *s, int i, const void *p, int n) {
	return sqlite3_bind_blob(s, i, p, n, SQLITE_TRANSIENT);
}
static int cfg_legacy(sqlite3 *db, int on) {
	int out = 0;
	return sqlite3_db_config(db, SQLITE_DBCONFIG_LEGACY_FILE_FORMAT, on, &out);
}
static int cfg_dqs(sqlite3 *db, int on) {
	int out = 0;
	sqlite3_db_config(db, SQLITE_DBCONFIG_DQS_DDL, on, &out);
	return sqlite3_db_config(db, SQLITE_DBCONFIG_DQS_DML, on, &out);
}
*/
import "C"

import (
	"fmt"
	"unsafe"
)

// Error is an SQLite error with its primary result code.
type Error struct {
	Code int
	Msg  string
}

func (e *Error) Error() string { return fmt.Sprintf("sqlite(%d): %s", e.Code, e.Msg) }

const (
	OK     = 0
	BUSY   = 5
	LOCKED = 6
)

// IsBusy is true for SQLITE_BUSY (any extended code)
func IsBusy(err error) bool {
	if e, ok := err.(*Error); ok {
		return e.Code&0xff == BUSY
	}
	return false
}

type DB struct {
	h *C.sqlite3
}

func Version() string { return C.GoString(C.sqlite3_libversion()) }

func (d *DB) err(rc C.int) error {
	if rc == C.SQLITE_OK {
		return nil
	}
	return &Error{Code: int(rc), Msg: C.GoString(C.sqlite3_errmsg(d.h))}
}

// Open a file (read/write/create) with the given VFS name ("" = default).
func Open(path string, vfs string) (*DB, error) {
	cp := C.CString(path)
	defer C.free(unsafe.Pointer(cp))
	var cv *C.char
	if vfs != "" {
		cv = C.CString(vfs)
		defer C.free(unsafe.Pointer(cv))
	}
	var h *C.sqlite3
	rc := C.sqlite3_open_v2(cp, &h, C.SQLITE_OPEN_READWRITE|C.SQLITE_OPEN_CREATE, cv)
	d := &DB{h: h}
	if rc != C.SQLITE_OK {
		err := d.err(rc)
		C.sqlite3_close(h)
		return nil, err
	}
	C.sqlite3_extended_result_codes(h, 1)
	return d, nil
}

// OpenMem opens a fresh in-memory database
func OpenMem() (*DB, error) { return Open(":memory:", "") }

func (d *DB) Close() error {
	if d.h == nil {
		return nil
	}
	rc := C.sqlite3_close(d.h)
	d.h = nil
	if rc != C.SQLITE_OK {
		return &Error{Code: int(rc), Msg: "close"}
	}
	return nil
}

func (d *DB) BusyTimeout(ms int) { C.sqlite3_busy_timeout(d.h, C.int(ms)) }

// LegacyFormat makes new databases use schema format 1 (descending indexes
// not honoured)
func (d *DB) LegacyFormat(on bool) error {
	v := C.int(0)
	if on {
		v = 1
	}
	return d.err(C.cfg_legacy(d.h, v))
}

// DQS enables/disables double-quoted string literals
func (d *DB) DQS(on bool) {
	v := C.int(0)
	if on {
		v = 1
	}
	C.cfg_dqs(d.h, v)
}

// Exec runs one or more statements, no results
func (d *DB) Exec(sql string) error {
	cs := C.CString(sql)
	defer C.free(unsafe.Pointer(cs))
	rc := C.sqlite3_exec(d.h, cs, nil, nil, nil)
	return d.err(rc)
}

// MustExec panics on error; for harness-internal scripts that cannot fail
func (d *DB) MustExec(sql string) {
	if err := d.Exec(sql); err != nil {
		panic(fmt.Sprintf("lite.MustExec %q: %v", sql, err))
	}
}

// Query runs a single statement with optional positional arguments
// (nil, int64, int, float64, string, []byte) and returns typed rows:
// nil, int64, float64, string, []byte.
func (d *DB) Query(sql string, args ...interface{}) ([][]interface{}, error) {
	rows, _, err := d.QueryCols(sql, args...)
	return rows, err
}

func (d *DB) QueryCols(sql string, args ...interface{}) ([][]interface{}, []string, error) {
	cs := C.CString(sql)
	defer C.free(unsafe.Pointer(cs))
	var st *C.sqlite3_stmt
	rc := C.sqlite3_prepare_v2(d.h, cs, -1, &st, nil)
	if rc != C.SQLITE_OK {
		return nil, nil, d.err(rc)
	}
	if st == nil {
		return nil, nil, nil
	}
	defer C.sqlite3_finalize(st)
	for i, a := range args {
		n := C.int(i + 1)
		switch v := a.(type) {
		case nil:
			rc = C.sqlite3_bind_null(st, n)
		case int64:
			rc = C.sqlite3_bind_int64(st, n, C.sqlite3_int64(v))
		case int:
			rc = C.sqlite3_bind_int64(st, n, C.sqlite3_int64(v))
		case float64:
			rc = C.sqlite3_bind_double(st, n, C.double(v))
		case string:
			if len(v) == 0 {
				e := C.CString("")
				rc = C.bind_text(st, n, e, 0)
				C.free(unsafe.Pointer(e))
			} else {
				p := C.CBytes([]byte(v))
				rc = C.bind_text(st, n, (*C.char)(p), C.int(len(v)))
				C.free(p)
			}
		case []byte:
			if len(v) == 0 {
				rc = C.sqlite3_bind_zeroblob(st, n, 0)
			} else {
				p := C.CBytes(v)
				rc = C.bind_blob(st, n, p, C.int(len(v)))
				C.free(p)
			}
		default:
			return nil, nil, fmt.Errorf("lite: unsupported arg type %T", a)
		}
		if rc != C.SQLITE_OK {
			return nil, nil, d.err(rc)
		}
	}
	nc := int(C.sqlite3_column_count(st))
	cols := make([]string, nc)
	for i := range cols {
		cols[i] = C.GoString(C.sqlite3_column_name(st, C.int(i)))
	}
	var out [][]interface{}
	for {
		rc = C.sqlite3_step(st)
		if rc == C.SQLITE_DONE {
			return out, cols, nil
		}
		if rc != C.SQLITE_ROW {
			return out, cols, d.err(rc)
		}
		row := make([]interface{}, nc)
		for i := 0; i < nc; i++ {
			ci := C.int(i)
			switch C.sqlite3_column_type(st, ci) {
			case C.SQLITE_NULL:
				row[i] = nil
			case C.SQLITE_INTEGER:
				row[i] = int64(C.sqlite3_column_int64(st, ci))
			case C.SQLITE_FLOAT:
				row[i] = float64(C.sqlite3_column_double(st, ci))
			case C.SQLITE_TEXT:
				p := C.sqlite3_column_text(st, ci)
				n := C.sqlite3_column_bytes(st, ci)
				row[i] = C.GoStringN((*C.char)(unsafe.Pointer(p)), n)
			case C.SQLITE_BLOB:
				p := C.sqlite3_column_blob(st, ci)
				n := C.sqlite3_column_bytes(st, ci)
				if n == 0 {
					row[i] = []byte{}
				} else {
					row[i] = C.GoBytes(p, n)
				}
			}
		}
		out = append(out, row)
	}
}

// Serialize the main database to bytes
func (d *DB) Serialize() []byte {
	var sz C.sqlite3_int64
	cm := C.CString("main")
	defer C.free(unsafe.Pointer(cm))
	p := C.sqlite3_serialize(d.h, cm, &sz, 0)
	if p == nil {
		return nil
	}
	defer C.sqlite3_free(unsafe.Pointer(p))
	return C.GoBytes(unsafe.Pointer(p), C.int(sz))
}

// Deserialize opens an in-memory connection whose main database is a copy of
// `image`.
func Deserialize(image []byte, readonly bool) (*DB, error) {
	d, err := OpenMem()
	if err != nil {
		return nil, err
	}
	n := len(image)
	p := C.sqlite3_malloc64(C.sqlite3_uint64(n + 1))
	if p == nil {
		d.Close()
		return nil, fmt.Errorf("lite: malloc")
	}
	if n > 0 {
		C.memcpy(p, unsafe.Pointer(&image[0]), C.size_t(n))
	}
	cm := C.CString("main")
	defer C.free(unsafe.Pointer(cm))
	flags := C.uint(C.SQLITE_DESERIALIZE_FREEONCLOSE | C.SQLITE_DESERIALIZE_RESIZEABLE)
	if readonly {
		flags = C.uint(C.SQLITE_DESERIALIZE_FREEONCLOSE | C.SQLITE_DESERIALIZE_READONLY)
	}
	rc := C.sqlite3_deserialize(d.h, cm, (*C.uchar)(p), C.sqlite3_int64(n), C.sqlite3_int64(n), flags)
	if rc != C.SQLITE_OK {
		err := d.err(rc)
		d.Close()
		return nil, err
	}
	return d, nil
}

// Complete reports whether sql ends in a complete statement (unused helper)
func Complete(sql string) bool {
	cs := C.CString(sql)
	defer C.free(unsafe.Pointer(cs))
	return C.sqlite3_complete(cs) != 0
}
