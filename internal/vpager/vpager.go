// Package vpager has the harness pagers that sit under sqlittle's `pager`
// seam (via the verif hooks): an in-memory image with exactly the file
// pager's copy semantics, a fault injector, and a tracer.
package vpager

import (
	"errors"
	"fmt"
	"io"
	"sync/atomic"

	"github.com/alicebob/sqlittle"
	sdb "github.com/alicebob/sqlittle/db"
)

// MemPager serves a byte image. Same semantics as filePager on an mmap: a
// fresh buffer per read, (buf, io.EOF) with a zero tail on a short read, an
// error if the offset is beyond the image.
type MemPager struct {
	Image    []byte
	Reads    int64
	Bytes    int64
	Locked   int
	Locks    int64
	Unlocks  int64
	Reserved bool // answer of CheckReservedLock
	Closed   bool
	// every page number read, in order (only when Log is set)
	Log     bool
	PageLog []int
	// Hdr, if set, replaces the first len(Hdr) bytes of the image (cheap
	// header mutants without copying the image)
	Hdr []byte
}

func NewMem(image []byte) *MemPager { return &MemPager{Image: image} }

func (m *MemPager) Page(n int, pagesize int) ([]byte, error) {
	atomic.AddInt64(&m.Reads, 1)
	if m.Log {
		m.PageLog = append(m.PageLog, n)
	}
	buf := make([]byte, pagesize)
	off := int64(n-1) * int64(pagesize)
	if off < 0 || off > int64(len(m.Image)) {
		return buf, fmt.Errorf("mmap: invalid ReadAt offset %d", off)
	}
	c := copy(buf, m.Image[off:])
	if off == 0 && m.Hdr != nil {
		copy(buf, m.Hdr)
	}
	atomic.AddInt64(&m.Bytes, int64(c))
	if c < pagesize {
		return buf, io.EOF
	}
	return buf, nil
}

func (m *MemPager) Close() error { m.Closed = true; return nil }
func (m *MemPager) RLock() error {
	if m.Locked > 0 {
		return errors.New("trying to lock a locked lock")
	}
	m.Locked++
	m.Locks++
	return nil
}
func (m *MemPager) RUnlock() error {
	if m.Locked == 0 {
		return errors.New("trying to unlock an unlocked lock")
	}
	m.Locked--
	m.Unlocks++
	return nil
}
func (m *MemPager) CheckReservedLock() (bool, error) { return m.Reserved, nil }

// ErrInjected is the I/O error the FaultPager answers with
var ErrInjected = errors.New("verif: injected read fault")

// ErrInjectedLock is the error of a failed RLock
var ErrInjectedLock = errors.New("verif: injected lock failure")

type FaultKind int

const (
	FaultNone  FaultKind = iota
	FaultError           // (nil, ErrInjected)
	FaultShort           // zero tailed buffer, io.EOF
)

// FaultPager wraps a pager; the K-th page read (1-based, counted from Arm())
// fails in the chosen way. K2 (optional) is a second fault.
type FaultPager struct {
	P        sdb.VerifPager
	N        int // page reads since Arm()
	K, K2    int
	Kind     FaultKind
	FailLock bool
	Hit      int // how many faults were delivered
}

func (f *FaultPager) Arm(k int, kind FaultKind) { f.N = 0; f.K = k; f.K2 = 0; f.Kind = kind; f.Hit = 0 }

func (f *FaultPager) Page(n int, pagesize int) ([]byte, error) {
	f.N++
	if f.Kind != FaultNone && (f.N == f.K || f.N == f.K2) {
		f.Hit++
		switch f.Kind {
		case FaultError:
			return nil, ErrInjected
		case FaultShort:
			buf, err := f.P.Page(n, pagesize)
			if err != nil {
				return buf, err
			}
			// second half lost
			for i := len(buf) / 2; i < len(buf); i++ {
				buf[i] = 0
			}
			return buf, io.EOF
		}
	}
	return f.P.Page(n, pagesize)
}
func (f *FaultPager) Close() error { return f.P.Close() }
func (f *FaultPager) RLock() error {
	if f.FailLock {
		f.Hit++
		return ErrInjectedLock
	}
	return f.P.RLock()
}
func (f *FaultPager) RUnlock() error                   { return f.P.RUnlock() }
func (f *FaultPager) CheckReservedLock() (bool, error) { return f.P.CheckReservedLock() }

// Event is what a TracePager reports
type Event struct {
	Kind string // lock | unlock | page | reserved | close
	Page int
	Err  error
}

// TracePager wraps a pager and calls On before (Pre=true) and after each
// operation. On may block (scheduling point).
type TracePager struct {
	P  sdb.VerifPager
	On func(pre bool, e Event)
}

func (t *TracePager) Page(n int, pagesize int) ([]byte, error) {
	t.On(true, Event{Kind: "page", Page: n})
	b, err := t.P.Page(n, pagesize)
	t.On(false, Event{Kind: "page", Page: n, Err: err})
	return b, err
}
func (t *TracePager) Close() error {
	t.On(true, Event{Kind: "close"})
	err := t.P.Close()
	t.On(false, Event{Kind: "close", Err: err})
	return err
}
func (t *TracePager) RLock() error {
	t.On(true, Event{Kind: "lock"})
	err := t.P.RLock()
	t.On(false, Event{Kind: "lock", Err: err})
	return err
}
func (t *TracePager) RUnlock() error {
	t.On(true, Event{Kind: "unlock"})
	err := t.P.RUnlock()
	t.On(false, Event{Kind: "unlock", Err: err})
	return err
}
func (t *TracePager) CheckReservedLock() (bool, error) {
	t.On(true, Event{Kind: "reserved"})
	b, err := t.P.CheckReservedLock()
	t.On(false, Event{Kind: "reserved", Err: err})
	return b, err
}

// Open a low level Database and a high level DB on a pager (no journal).
func Open(p sdb.VerifPager) (*sqlittle.DB, *sdb.Database, error) {
	d, err := sdb.VerifOpen(p, "")
	if err != nil {
		return nil, nil, err
	}
	return sqlittle.VerifWrap(d), d, nil
}

// OpenImage is Open on a MemPager over image
func OpenImage(image []byte) (*sqlittle.DB, *sdb.Database, *MemPager, error) {
	m := NewMem(image)
	h, d, err := Open(m)
	return h, d, m, err
}
