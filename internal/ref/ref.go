// Package ref holds the boring reference semantics, written from the SQLite
// documentation and independent of /repo: the record/varint encoder used by
// the file builder, and SQLite's value comparison. Both are bound to reality
// by conformance runs against real SQLite (see checks C11, C14).
package ref

import (
	"bytes"
	"encoding/binary"
	"fmt"
	"math"
)

// PutVarint appends SQLite's big-endian base-128 varint (1..9 bytes)
func PutVarint(dst []byte, v int64) []byte {
	u := uint64(v)
	if u <= 0x7f {
		return append(dst, byte(u))
	}
	if u > 0x00ffffffffffffff {
		// 9 bytes: 8 x 7 bits + 8 bits
		var b [9]byte
		b[8] = byte(u)
		u >>= 8
		for i := 7; i >= 0; i-- {
			b[i] = byte(u&0x7f) | 0x80
			u >>= 7
		}
		return append(dst, b[:]...)
	}
	var tmp [9]byte
	n := 0
	for u != 0 {
		tmp[n] = byte(u & 0x7f)
		u >>= 7
		n++
	}
	for i := n - 1; i >= 0; i-- {
		c := tmp[i]
		if i != 0 {
			c |= 0x80
		}
		dst = append(dst, c)
	}
	return dst
}

// PutVarintN encodes v in exactly n bytes (non-minimal encodings with leading
// 0x80 bytes are legal for SQLite's reader), n >= minimal length, n <= 9.
func PutVarintN(dst []byte, v int64, n int) []byte {
	min := PutVarint(nil, v)
	if n <= len(min) || len(min) == 9 {
		return append(dst, min...)
	}
	if n == 9 {
		// 9-byte form: first 8 bytes carry 7 bits each, last carries 8
		u := uint64(v)
		var b [9]byte
		b[8] = byte(u)
		u >>= 8
		for i := 7; i >= 0; i-- {
			b[i] = byte(u&0x7f) | 0x80
			u >>= 7
		}
		return append(dst, b[:]...)
	}
	for i := 0; i < n-len(min); i++ {
		dst = append(dst, 0x80)
	}
	return append(dst, min...)
}

func VarintLen(v int64) int { return len(PutVarint(nil, v)) }

// IntWidth is the minimal serial type for an integer per SQLite (format 4)
func intSerial(v int64) (serial int64, width int) {
	switch {
	case v == 0:
		return 8, 0
	case v == 1:
		return 9, 0
	case v >= -128 && v <= 127:
		return 1, 1
	case v >= -32768 && v <= 32767:
		return 2, 2
	case v >= -8388608 && v <= 8388607:
		return 3, 3
	case v >= -2147483648 && v <= 2147483647:
		return 4, 4
	case v >= -140737488355328 && v <= 140737488355327:
		return 5, 6
	default:
		return 6, 8
	}
}

// IntAs forces an integer to be stored with a given serial type 1..6
// (non-minimal widths are legal)
type IntAs struct {
	V      int64
	Serial int64
}

func serialWidth(s int64) int {
	switch s {
	case 1:
		return 1
	case 2:
		return 2
	case 3:
		return 3
	case 4:
		return 4
	case 5:
		return 6
	case 6, 7:
		return 8
	}
	return 0
}

// EncodeRecord encodes values (nil, int64, float64, string, []byte, IntAs)
// in SQLite's record format.
func EncodeRecord(vals []interface{}) []byte {
	var hdr, body []byte
	for _, v := range vals {
		switch t := v.(type) {
		case nil:
			hdr = PutVarint(hdr, 0)
		case int:
			s, w := intSerial(int64(t))
			hdr = PutVarint(hdr, s)
			body = appendInt(body, int64(t), w)
		case int64:
			s, w := intSerial(t)
			hdr = PutVarint(hdr, s)
			body = appendInt(body, t, w)
		case IntAs:
			hdr = PutVarint(hdr, t.Serial)
			body = appendInt(body, t.V, serialWidth(t.Serial))
		case float64:
			hdr = PutVarint(hdr, 7)
			var b [8]byte
			binary.BigEndian.PutUint64(b[:], math.Float64bits(t))
			body = append(body, b[:]...)
		case string:
			hdr = PutVarint(hdr, int64(len(t))*2+13)
			body = append(body, t...)
		case []byte:
			hdr = PutVarint(hdr, int64(len(t))*2+12)
			body = append(body, t...)
		default:
			panic(fmt.Sprintf("EncodeRecord: %T", v))
		}
	}
	// header size varint includes itself
	hl := len(hdr) + 1
	if VarintLen(int64(hl)) > 1 {
		hl = len(hdr) + 2
		if VarintLen(int64(hl)) > 2 {
			hl = len(hdr) + 3
		}
	}
	out := PutVarint(nil, int64(hl))
	out = append(out, hdr...)
	return append(out, body...)
}

func appendInt(dst []byte, v int64, w int) []byte {
	for i := w - 1; i >= 0; i-- {
		dst = append(dst, byte(uint64(v)>>(8*uint(i))))
	}
	return dst
}

// Plain strips encoder annotations (IntAs) to get the logical value
func Plain(v interface{}) interface{} {
	switch t := v.(type) {
	case IntAs:
		return t.V
	case int:
		return int64(t)
	}
	return v
}

func PlainRow(vals []interface{}) []interface{} {
	out := make([]interface{}, len(vals))
	for i, v := range vals {
		out[i] = Plain(v)
	}
	return out
}

// ------------------------------------------------------------------ compare

func class(v interface{}) int {
	switch v.(type) {
	case nil:
		return 0
	case int64, float64:
		return 1
	case string:
		return 2
	case []byte:
		return 3
	}
	panic(fmt.Sprintf("ref.class %T", v))
}

func sign(x int) int {
	if x < 0 {
		return -1
	}
	if x > 0 {
		return 1
	}
	return 0
}

// intFloat compares an integer with a real exactly (sqlite3IntFloatCompare)
func intFloat(i int64, r float64) int {
	if math.IsNaN(r) {
		return 1 // NaN is NULL in SQLite; not storable. Keep total.
	}
	if r < -9223372036854775808.0 {
		return 1
	}
	if r >= 9223372036854775808.0 {
		return -1
	}
	y := int64(r)
	if i < y {
		return -1
	}
	if i > y {
		return 1
	}
	s := float64(i)
	if s < r {
		return -1
	}
	if s > r {
		return 1
	}
	return 0
}

func lower(c byte) byte {
	if c >= 'A' && c <= 'Z' {
		return c + 32
	}
	return c
}

// CollCompare compares two texts under BINARY ("" or "binary"), NOCASE, RTRIM
// exactly as SQLite's built in collations do.
func CollCompare(a, b string, coll string) int {
	switch coll {
	case "", "binary", "BINARY":
		return sign(bytes.Compare([]byte(a), []byte(b)))
	case "rtrim", "RTRIM":
		for len(a) > 0 && a[len(a)-1] == ' ' {
			a = a[:len(a)-1]
		}
		for len(b) > 0 && b[len(b)-1] == ' ' {
			b = b[:len(b)-1]
		}
		return sign(bytes.Compare([]byte(a), []byte(b)))
	case "nocase", "NOCASE":
		// sqlite3StrNICmp over min length (stops at a NUL in a), then length
		n := len(a)
		if len(b) < n {
			n = len(b)
		}
		i := 0
		for i < n && a[i] != 0 && lower(a[i]) == lower(b[i]) {
			i++
		}
		if i < n {
			if d := int(lower(a[i])) - int(lower(b[i])); d != 0 {
				return sign(d)
			}
		}
		return sign(len(a) - len(b))
	}
	panic("ref: unknown collation " + coll)
}

// Compare is sqlite3MemCompare for storable values
func Compare(a, b interface{}, coll string) int {
	ca, cb := class(a), class(b)
	if ca != cb {
		return sign(ca - cb)
	}
	switch ca {
	case 0:
		return 0
	case 1:
		switch x := a.(type) {
		case int64:
			switch y := b.(type) {
			case int64:
				if x < y {
					return -1
				} else if x > y {
					return 1
				}
				return 0
			case float64:
				return intFloat(x, y)
			}
		case float64:
			switch y := b.(type) {
			case int64:
				return -intFloat(y, x)
			case float64:
				if x < y {
					return -1
				} else if x > y {
					return 1
				}
				return 0
			}
		}
	case 2:
		return CollCompare(a.(string), b.(string), coll)
	case 3:
		return sign(bytes.Compare(a.([]byte), b.([]byte)))
	}
	panic("unreachable")
}

// KeyCol describes one column of an index order
type KeyCol struct {
	Coll string
	Desc bool
}

// CompareRecords orders two index records by the first n columns under cols
// (a record that is shorter sorts first on the missing column, like NULL
// never happens in well-formed indexes; used only with full records).
func CompareRecords(a, b []interface{}, cols []KeyCol, n int) int {
	for i := 0; i < n; i++ {
		c := KeyCol{}
		if i < len(cols) {
			c = cols[i]
		}
		r := Compare(a[i], b[i], c.Coll)
		if r != 0 {
			if c.Desc {
				return -r
			}
			return r
		}
	}
	return 0
}
