// Package mc is the deviation-bounded stateless explorer: an execution is
// identified by its list of choices; it is replayed from a prefix and takes
// choice 0 (the default: no deviation / keep running the current participant)
// at every later point; every alternative whose accumulated cost stays within
// the bound is explored in turn. Exhaustive for the given bound.
package mc

import (
	"fmt"
	"sync"
)

type point struct {
	n     int
	costs []int
}

// Ctx is handed to one execution
type Ctx struct {
	prefix []int
	taken  []int
	points []point
	cost   int
	// Diverged is set when a replayed prefix asks for an alternative that does not exist
	Diverged string
}

// Choose returns the alternative to take at this point. n alternatives;
// cost(i) is the deviation cost of alternative i (cost(0) must be 0).
func (c *Ctx) Choose(n int, cost func(i int) int) int {
	i := len(c.taken)
	costs := make([]int, n)
	for k := 0; k < n; k++ {
		if cost != nil {
			costs[k] = cost(k)
		}
	}
	ch := 0
	if i < len(c.prefix) {
		ch = c.prefix[i]
		if ch >= n {
			if c.Diverged == "" {
				c.Diverged = fmt.Sprintf("choice point %d: prefix asks for alternative %d of %d", i, ch, n)
			}
			ch = 0
		}
	}
	c.taken = append(c.taken, ch)
	c.points = append(c.points, point{n, costs})
	c.cost += costs[ch]
	return ch
}

// Taken is the choice list of this execution (the replay artefact)
func (c *Ctx) Taken() []int { return append([]int{}, c.taken...) }

// Cost is the accumulated deviation cost so far
func (c *Ctx) Cost() int { return c.cost }

type Stats struct {
	Executions int
	Diverged   int
	MaxDepth   int
	Capped     bool
}

// Explore runs exec for every choice list within the cost bound. workers>1
// runs subtrees concurrently; newWorker makes per-worker state handed to exec.
func Explore(bound int, maxExec int, workers int, newWorker func(w int) interface{}, exec func(c *Ctx, worker interface{})) Stats {
	var mu sync.Mutex
	var st Stats
	stack := [][]int{{}}
	active := 0
	cond := sync.NewCond(&mu)
	if workers < 1 {
		workers = 1
	}
	var wg sync.WaitGroup
	for w := 0; w < workers; w++ {
		wg.Add(1)
		go func(w int) {
			defer wg.Done()
			var ws interface{}
			if newWorker != nil {
				ws = newWorker(w)
			}
			for {
				mu.Lock()
				for len(stack) == 0 && active > 0 {
					cond.Wait()
				}
				if len(stack) == 0 || (maxExec > 0 && st.Executions >= maxExec) {
					if len(stack) > 0 {
						st.Capped = true
						stack = nil
					}
					mu.Unlock()
					cond.Broadcast()
					return
				}
				prefix := stack[len(stack)-1]
				stack = stack[:len(stack)-1]
				active++
				st.Executions++
				mu.Unlock()

				c := &Ctx{prefix: prefix}
				exec(c, ws)

				mu.Lock()
				if c.Diverged != "" {
					st.Diverged++
				}
				if len(c.taken) > st.MaxDepth {
					st.MaxDepth = len(c.taken)
				}
				// alternatives at the points after the prefix
				cost := 0
				for i := 0; i < len(c.taken); i++ {
					if i >= len(prefix) {
						for alt := c.points[i].n - 1; alt >= 1; alt-- {
							if cost+c.points[i].costs[alt] <= bound {
								np := append(append([]int{}, c.taken[:i]...), alt)
								stack = append(stack, np)
							}
						}
					}
					cost += c.points[i].costs[c.taken[i]]
				}
				active--
				mu.Unlock()
				cond.Broadcast()
			}
		}(w)
	}
	wg.Wait()
	return st
}
