#!/usr/bin/env python3
"""Self-test: apply each deliberate property-breaking edit of mutants.json through a
go build overlay (so /repo is never modified), make sure the repository's own tests
still pass with it, and require the property's quick check to exit 1 with a VIOLATION.
usage: ./selftest.py [-j N] [-k substr] [--tier quick|thorough]   -> selftest.json
"""
import json, os, subprocess, sys, tempfile, shutil, concurrent.futures, time
ROOT=os.path.dirname(os.path.abspath(__file__))
ENV=dict(os.environ, GOFLAGS='-mod=mod', GOPROXY='off', GOSUMDB='off', GOTOOLCHAIN='local')
def run_one(m, tier):
    t0=time.time()
    d=tempfile.mkdtemp(prefix='verif-selftest-', dir='/dev/shm' if os.path.isdir('/dev/shm') else None)
    try:
        repl={}
        for e in m['edits']:
            src=os.path.join('/repo', e['file'])
            txt=open(repl.get(src, src)).read()
            if txt.count(e['old'])!=1:
                return dict(id=m['id'], ok=False, why='edit does not apply exactly once: %s (%d)'%(e['file'], txt.count(e['old'])))
            txt=txt.replace(e['old'], e['new'])
            dst=os.path.join(d, e['file'].replace('/','_'))
            open(dst,'w').write(txt); repl[src]=dst
        ovl=os.path.join(d,'overlay.json'); json.dump({'Replace':repl}, open(ovl,'w'))
        res=dict(id=m['id'], property=m['property'], desc=m.get('desc',''))
        # repo tests must still pass (except the always-failing TestIOZero)
        p=subprocess.run(['go','test','-vet=off','-count=1','-overlay',ovl,'./...'],cwd='/repo',env=ENV,capture_output=True,text=True)
        fails=[l for l in p.stdout.splitlines() if l.startswith('--- FAIL') and 'TestIOZero' not in l]
        builderr=('[build failed]' in p.stdout) or ('[build failed]' in p.stderr)
        res['repo_tests_pass']= (not fails) and not builderr
        if fails: res['repo_fails']=fails[:5]
        if builderr: res['build']= (p.stdout+p.stderr)[-600:]
        out=os.path.join(d,'out'); os.makedirs(out); shutil.copy(os.path.join(ROOT,'known_findings.json'), out)
        detected=[]
        for prop in ([m['property']] if isinstance(m['property'],str) else m['property']):
            q=subprocess.run([os.path.join(ROOT,'vrun'),prop,tier],cwd=ROOT,env=dict(ENV,VERIF_OVERLAY=ovl,VERIF_OUT=out),capture_output=True,text=True)
            v=[l for l in q.stdout.splitlines() if l.startswith('VIOLATION')]
            res.setdefault('checks',{})[prop]=dict(exit=q.returncode, violations=len(v), first=(v[0][:300] if v else ''), tail=q.stdout.splitlines()[-1][:300] if q.stdout.strip() else q.stderr[-300:])
            if q.returncode==1 and v: detected.append(prop)
        res['detected']=detected
        res['ok']= bool(detected)
        res['wall_s']=round(time.time()-t0,1)
        return res
    finally:
        shutil.rmtree(d, ignore_errors=True)
def main():
    j=4; k=None; tier='quick'
    a=sys.argv[1:]
    while a:
        x=a.pop(0)
        if x=='-j': j=int(a.pop(0))
        elif x=='-k': k=a.pop(0)
        elif x=='--tier': tier=a.pop(0)
    ms=json.load(open(os.path.join(ROOT,'mutants.json')))['mutants']
    if k: ms=[m for m in ms if k in m['id'] or k in str(m['property'])]
    with concurrent.futures.ThreadPoolExecutor(j) as ex:
        rs=list(ex.map(lambda m: run_one(m,tier), ms))
    for r in rs:
        print(('DETECTED ' if r.get('ok') else 'MISSED   ')+r['id'], r.get('detected'), 'repo_tests_pass=%s'%r.get('repo_tests_pass'), r.get('why',''), {p:c['first'][:140] or c['tail'][:140] for p,c in r.get('checks',{}).items()})
    if not k:
        json.dump(dict(tier=tier, results=rs), open(os.path.join(ROOT,'selftest.json'),'w'), indent=1)
    sys.exit(0 if all(r.get('ok') for r in rs) else 1)
main()
